"""C05 implementation side: translator self-test of the family kernels, correspondence of the dispatch table with the real
factories, and the failing-input search on the assembled operators (one process per group of operator kinds).

payload: {"job": "dispatch" | "boundary" | "potential", "kinds": [...], "strength", "numba": IR, "table": factories}
"""
import math
import os
import time
import traceback

import numpy as np

import kernel_ir as K

PI4 = 4 * math.pi
SIG_DISPATCH = "C05 dispatch: operators.%s.helmholtz.%s with real(k)=0 does not reach modified Helmholtz with imag(k)"


def exc_name(e):
    return type(e).__name__ + ": " + str(e)[:80]


def grids(strength, rng):
    a = np.array([[1.0, 0.25, 0.0], [0.0, 0.8, 0.125], [0.0, 0.0, 0.625]])
    gs = [("octahedron-distorted", K.octahedron(distort=a))]
    if strength == "thorough":
        gs.append(("screen-2x2", K.screen(2)))
        gs.append(("cube12", K.cube12(scale=0.7)))
    return gs


def diameter(grid):
    v = grid.vertices
    return float(np.max(np.linalg.norm(v[:, :, None] - v[:, None, :], axis=0)))


def abs_integrals(space):
    """m_i = integral of |phi_i| for DP0 / P1 / DP1: the reference shape functions are non-negative with integral
    area (constant) resp. area/3 (linear) per element; summed through the space's own local2global."""
    grid = space.grid
    ident = space.shapeset.identifier
    w = {"p0_discontinuous": 1.0, "p1_discontinuous": 1.0 / 3.0}[ident]
    m = np.zeros(space.global_dof_count)
    for e in space.support_elements:
        for f in range(space.number_of_shape_functions):
            m[space.local2global[e, f]] += abs(space.local_multipliers[e, f]) * w * grid.volumes[e]
    return m


def dense(op):
    return np.asarray(op.weak_form().to_dense())


# ---------------------------------------------------------------------------------------------------------------------
def job_dispatch(pl, res, rng):
    """Correspondence: model of the factory table (mirror of DispatchModel.call) vs the real factories."""
    import bempp_cl.api as api
    import importlib
    grid = K.octahedron()
    p1 = api.function_space(grid, "P", 1)
    pts = np.array([[2.0, 0.1, 0.3], [0.5, 2.5, -1.0]]).T
    table = pl["table"]
    # potential / far-field operators do not keep their descriptor: record it at construction (nothing in /repo changes)
    import bempp_cl.api.operators as ops
    recorded = []
    real_descriptor = ops.OperatorDescriptor

    def recording_descriptor(*a, **k):
        d = real_descriptor(*a, **k)
        recorded.append(d)
        return d
    ops.OperatorDescriptor = recording_descriptor
    byname = {(f["package"], f["module"], f["name"]): f for f in table}

    def weval(e, k):
        return {"WReal": complex(k.real, 0), "WImag": complex(k.imag, 0), "WSame": k}[e]

    def model(f, k, fuel=1):
        if f["requires_real"] and k.imag != 0:
            return "Raises"
        r = f["redirect"]
        if r is not None and k.real == 0:
            g = byname.get((f["package"], r["module"], r["name"]))
            if fuel == 0 or g is None:
                return "Raises"
            return model(g, weval(r["arg"], k), fuel - 1)
        return [f["identifier"], f["kernel_type"], f["assembly_type"],
                [[weval(e, k).real, weval(e, k).imag] for e in f["options"]], f["is_complex"]]
    ks = [0j, 2.0 + 0j, 1.5j, 2.0 + 0.5j, -0.7 + 0.2j, 1e-12 + 1j, 3.0]
    for f in table:
        mod = importlib.import_module("bempp_cl.api.operators.%s.%s" % (f["package"], f["module"]))
        fn = getattr(mod, f["name"])
        for k in (ks if f["param"] else [None]):
            variants = [k]
            if k is not None and k.imag == 0:
                variants.append(k.real)           # python float instead of complex
            for kk in variants:
                try:
                    recorded.clear()
                    if f["package"] == "boundary":
                        args = (p1, p1, p1) + (() if kk is None else (kk,))
                        d = fn(*args).descriptor
                    else:
                        args = (p1, pts) + (() if kk is None else (kk,))
                        fn(*args)
                        d = recorded[-1]
                    got = [d.identifier, d.kernel_type, d.assembly_type,
                           [[float(np.real(o)), float(np.imag(o))] for o in d.options], bool(d.is_complex)]
                except Exception as e:
                    if recorded:          # the descriptor was built; the exception came later (assembler set-up)
                        d = recorded[-1]
                        got = [d.identifier, d.kernel_type, d.assembly_type,
                               [[float(np.real(o)), float(np.imag(o))] for o in d.options], bool(d.is_complex)]
                    else:
                        got = "Raises" if isinstance(e, ValueError) else "Other " + exc_name(e)
                want = model(f, complex(kk) if kk is not None else 0j)
                res["corr"]["evaluations"] += 1
                res["corr"]["nontrivial"] += 1 if got != "Raises" else 0
                key = "%s.%s.%s" % (f["package"], f["module"], f["name"])
                res["corr"]["hist"][f["package"]] = res["corr"]["hist"].get(f["package"], 0) + 1
                if got != want:
                    res["corr"]["disagreements"].append({
                        "kind": "dispatch", "what": "factory table and implementation disagree on %s(k=%r)" % (key, kk),
                        "data": {"model": want, "implementation": got}})
                elif len(res["corr"]["samples"]) < 4 and kk is not None and complex(kk).real == 0 and complex(kk).imag != 0:
                    res["corr"]["samples"].append({"call": "%s(k=%r)" % (key, kk), "outcome": got})
                # the property itself, on the implementation: a Helmholtz factory with k = i w must not raise
                if f["module"] == "helmholtz" and f["package"] != "far_field" and kk is not None and \
                        complex(kk).real == 0 and complex(kk).imag != 0:
                    res["search"]["evaluations"] += 1
                    if got == "Raises" or (isinstance(got, str) and got.startswith("Other")):
                        res["failures"].append({
                            "signature": SIG_DISPATCH % (f["package"], f["name"]),
                            "what": "operators.%s.helmholtz.%s(.., k=i w) raises instead of returning the modified "
                                    "Helmholtz operator for w" % (f["package"], f["name"]),
                            "data": {"k": [complex(kk).real, complex(kk).imag], "outcome": got}})


# ---------------------------------------------------------------------------------------------------------------------
def check(res, ok, signature, what, data):
    res["search"]["evaluations"] += 1
    if not ok:
        res["failures"].append({"signature": signature, "what": what, "data": data})
    return ok


def job_boundary(pl, res, rng):
    import bempp_cl.api as api
    from bempp_cl.api.operators.boundary import laplace, helmholtz, modified_helmholtz
    strength = pl["strength"]
    kinds = pl["kinds"]
    for gname, grid in grids(strength, rng):
        D = diameter(grid)
        dp0 = api.function_space(grid, "DP", 0)
        pairs = [("DP0/DP0", dp0, dp0, dp0)]
        if strength == "thorough":
            p1 = api.function_space(grid, "P", 1)
            pairs += [("P1/P1", p1, p1, p1), ("DP0/P1", dp0, p1, p1)]
        elif kinds == ["hypersingular"]:
            p1 = api.function_space(grid, "P", 1)
            pairs = [("P1/P1", p1, p1, p1)]
        for pname, dom, ran, dual in pairs:
            md = abs_integrals(dom)
            mt = abs_integrals(dual)
            mm = np.outer(mt, md)                # rows: test (dual) functions, columns: trial (domain)
            mats = {}
            for kind in kinds:
                if kind == "hypersingular" and (dom is dp0 or dual is dp0):
                    continue
                tag = "%s %s %s" % (gname, pname, kind)
                t0 = time.time()
                L = dense(getattr(laplace, kind)(dom, ran, dual))
                w = 0.9 / D
                M = dense(getattr(modified_helmholtz, kind)(dom, ran, dual, w))
                scale = float(np.max(np.abs(L)))
                # S1: k = i w is the modified Helmholtz operator for w (and stays real)
                Hi = dense(getattr(helmholtz, kind)(dom, ran, dual, 1j * w))
                check(res, np.max(np.abs(Hi - M)) <= 1e-13 * scale and not np.iscomplexobj(Hi) or
                      np.max(np.abs(Hi - M)) <= 1e-13 * scale,
                      "C05 boundary.helmholtz.%s(k=i w) != modified_helmholtz.%s(w)" % (kind, kind),
                      "Helmholtz operator with purely imaginary wavenumber differs from the modified Helmholtz operator",
                      {"case": tag, "w": w, "maxdiff": float(np.max(np.abs(Hi - M))), "scale": scale})
                # S1b: modified Helmholtz with w = 0 and Helmholtz with k = 0 are Laplace
                M0 = dense(getattr(modified_helmholtz, kind)(dom, ran, dual, 0.0))
                H0 = dense(getattr(helmholtz, kind)(dom, ran, dual, 0.0))
                for nm, A in (("modified_helmholtz(0)", M0), ("helmholtz(0)", H0)):
                    check(res, np.max(np.abs(A - L)) <= 1e-12 * scale,
                          "C05 boundary %s.%s != laplace.%s" % (nm, kind, kind),
                          "operator with zero wavenumber differs from the Laplace operator",
                          {"case": tag, "maxdiff": float(np.max(np.abs(A - L))), "scale": scale})
                # S2: vanishing real part (two step sizes: the small one also ties the Helmholtz and modified kernels to
                # each other at the 1e-10 level)
                for eps in (1e-7, 1e-10):
                    He = dense(getattr(helmholtz, kind)(dom, ran, dual, eps + 1j * w))
                    lim = np.abs(He - M)
                    # |d/dk kernel| <= (1 + |k| r) / (4 pi)  (sl: 1/(4 pi); dl/adl: |k|/(4 pi))
                    bound = eps * (2.0 + 2.0 * w * D) / PI4 * mm * (1 + 1e-6) + 1e-13 * scale
                    if kind != "hypersingular":
                        check(res, bool(np.all(lim <= bound)),
                              "C05 boundary.helmholtz.%s: limit real(k)->0 is not modified_helmholtz" % kind,
                              "Helmholtz operator with k = eps + i w is not within eps*(2+2wD)/(4pi) m m' of modified Helmholtz",
                              {"case": tag, "eps": eps, "w": w, "worst_ratio": float(np.max(lim / bound))})
                    else:
                        check(res, float(np.max(lim)) <= 1e3 * eps * scale + 1e-12 * scale,
                              "C05 boundary.helmholtz.hypersingular: limit real(k)->0 is not modified_helmholtz",
                              "hypersingular operator with k = eps + i w is not close to the modified Helmholtz one",
                              {"case": tag, "eps": eps, "w": w, "maxdiff": float(np.max(lim)), "scale": scale})
                # S3: k -> -conj k conjugates
                for k in (0.7 / D + 0.4j / D, 2.1 / D + 0j, 0.3 / D - 0.6j / D):
                    Hk = dense(getattr(helmholtz, kind)(dom, ran, dual, k))
                    Hc = dense(getattr(helmholtz, kind)(dom, ran, dual, -np.conj(k)))
                    check(res, np.max(np.abs(Hc - np.conj(Hk))) <= 1e-12 * scale,
                          "C05 boundary.helmholtz.%s(-conj k) != conj(helmholtz.%s(k))" % (kind, kind),
                          "replacing k by -conj(k) does not conjugate the matrix",
                          {"case": tag, "k": [k.real, k.imag], "maxdiff": float(np.max(np.abs(Hc - np.conj(Hk))))})
                    mats[(kind, k)] = Hk
                # S4: small-k bounds (|k| D <= 1), real / imaginary / complex k
                if kind in ("single_layer", "double_layer", "adjoint_double_layer"):
                    for kk in (0.9 / D, 0.5j / D, (0.6 + 0.6j) / D, (-0.3 + 0.1j) / D, (0.2 - 0.5j) / D, 1e-3 / D):
                        kk = complex(kk)
                        Hk = dense(getattr(helmholtz, kind)(dom, ran, dual, kk))
                        ak2 = abs(kk) ** 2
                        if kind == "single_layer":
                            rem = np.abs(Hk - L - 1j * kk / PI4 * mm)
                            bnd = ak2 * D / PI4 * mm
                        else:
                            rem = np.abs(Hk - L)
                            bnd = ak2 / PI4 * mm
                        ok = bool(np.all(rem <= bnd * (1 + 1e-9) + 1e-14 * scale))
                        check(res, ok, "C05 small-k bound %s (%s)" % (kind, pname),
                              "entrywise small-wavenumber bound of the property is violated",
                              {"case": tag, "k": [kk.real, kk.imag], "worst_ratio": float(np.max(rem / (bnd + 1e-300)))})
                        res["search"]["worst"]["small-k %s %s" % (pname, kind)] = max(
                            res["search"]["worst"].get("small-k %s %s" % (pname, kind), 0.0),
                            round(float(np.max(rem / (bnd + 1e-300))), 4))
                mats[(kind, "L")] = L
                mats[(kind, "M")] = M
                res["notes"].append("%s: %.1fs" % (tag, time.time() - t0))
            # S5: symmetry up to singular-quadrature error = the asymmetry must decay with the singular order
            if dom is dual:
                ksym = 1.1 / D + 0.3j / D
                for kind in kinds:
                    if kind == "hypersingular" and (dom is dp0 or dual is dp0):
                        continue
                    for o in (3, 5, 7):
                        par = api.utils.parameters.DefaultParameters()
                        par.quadrature.singular = o
                        res["mats"]["%s|%s|%s|L|%d" % (kind, gname, pname, o)] = mlist(
                            dense(getattr(laplace, kind)(dom, ran, dual, parameters=par)))
                        res["mats"]["%s|%s|%s|H|%d" % (kind, gname, pname, o)] = mlist(
                            dense(getattr(helmholtz, kind)(dom, ran, dual, ksym, parameters=par)))
                    if kind in ("single_layer", "hypersingular"):
                        for fam in ("L", "H"):
                            a = []
                            for o in (3, 5, 7):
                                A = mfrom(res["mats"]["%s|%s|%s|%s|%d" % (kind, gname, pname, fam, o)])
                                a.append(float(np.max(np.abs(A - A.T)) / np.max(np.abs(A))))
                            res["search"]["worst"]["asym %s %s %s (orders 3,5,7)" % (pname, kind, fam)] = a
                            check(res, conv_ok(a), "C05 symmetry: %s not complex-symmetric up to singular quadrature" % kind,
                                  "the asymmetry of V / W does not decay with the singular quadrature order",
                                  {"case": "%s %s %s %s" % (gname, pname, kind, fam), "rel_asym_orders_3_5_7": a})


def conv_ok(a):
    return a[1] <= 0.35 * a[0] + 1e-12 and a[2] <= 0.35 * a[1] + 1e-12 and a[2] <= 1e-4


def mlist(A):
    return [[[float(np.real(v)), float(np.imag(v))] for v in row] for row in np.asarray(A)]


def mfrom(L):
    return np.array([[complex(v[0], v[1]) for v in row] for row in L])


def job_potential(pl, res, rng):
    import bempp_cl.api as api
    from bempp_cl.api.operators.potential import laplace, helmholtz, modified_helmholtz
    strength = pl["strength"]
    for gname, grid in grids(strength, rng):
        D = diameter(grid)
        dp0 = api.function_space(grid, "DP", 0)
        spaces = [("DP0", dp0)]
        if strength == "thorough":
            spaces.append(("P1", api.function_space(grid, "P", 1)))
        pts = np.array([[2.0, 0.1, 0.3], [0.5, 2.5, -1.0], [0.1, 0.05, 0.02], [-3.0, -2.0, 4.0]]).T
        for sname, sp in spaces:
            coef = rng.uniform(-1, 1, sp.global_dof_count)
            f = api.GridFunction(sp, coefficients=coef)
            for kind in pl["kinds"]:
                tag = "%s %s %s" % (gname, sname, kind)
                w = 0.9 / D
                uL = np.asarray(getattr(laplace, kind)(sp, pts).evaluate(f))
                uM = np.asarray(getattr(modified_helmholtz, kind)(sp, pts, w).evaluate(f))
                scale = float(np.max(np.abs(uL)))
                uM0 = np.asarray(getattr(modified_helmholtz, kind)(sp, pts, 0.0).evaluate(f))
                check(res, np.max(np.abs(uM0 - uL)) <= 1e-12 * scale,
                      "C05 potential.modified_helmholtz.%s(0) != laplace.%s" % (kind, kind),
                      "modified Helmholtz potential with w = 0 differs from the Laplace potential",
                      {"case": tag, "maxdiff": float(np.max(np.abs(uM0 - uL)))})
                try:
                    uH = np.asarray(getattr(helmholtz, kind)(sp, pts, 1j * w).evaluate(f))
                    ok, info = bool(np.max(np.abs(uH - uM)) <= 1e-13 * scale), {"maxdiff": float(np.max(np.abs(uH - uM)))}
                    sig = "C05 potential.helmholtz.%s(k=i w) != modified_helmholtz.%s(w)" % (kind, kind)
                except Exception as e:
                    ok, info = False, {"exception": exc_name(e)}
                    sig = SIG_DISPATCH % ("potential", kind)
                check(res, ok, sig, "Helmholtz potential with purely imaginary wavenumber is not the modified Helmholtz "
                      "potential for w", dict(info, case=tag, w=w))
                try:
                    uZ = np.asarray(getattr(helmholtz, kind)(sp, pts, 0j).evaluate(f))
                    ok, info = bool(np.max(np.abs(uZ - uL)) <= 1e-12 * scale), {"maxdiff": float(np.max(np.abs(uZ - uL)))}
                    sig = "C05 potential.helmholtz.%s(k=0j) != laplace.%s" % (kind, kind)
                except Exception as e:
                    ok, info = False, {"exception": exc_name(e)}
                    sig = SIG_DISPATCH % ("potential", kind)
                check(res, ok, sig, "Helmholtz potential with k = 0 (complex typed) is not the Laplace potential",
                      dict(info, case=tag))
                eps = 1e-7
                uE = np.asarray(getattr(helmholtz, kind)(sp, pts, eps + 1j * w).evaluate(f))
                check(res, np.max(np.abs(uE - uM)) <= 1e-5 * scale,
                      "C05 potential.helmholtz.%s: limit real(k)->0 is not modified_helmholtz" % kind,
                      "Helmholtz potential with k = eps + i w is not close to the modified Helmholtz potential",
                      {"case": tag, "maxdiff": float(np.max(np.abs(uE - uM))), "scale": scale})
                for k in (0.7 / D + 0.4j / D, 2.1 / D + 0j):
                    uk = np.asarray(getattr(helmholtz, kind)(sp, pts, k).evaluate(f))
                    uc = np.asarray(getattr(helmholtz, kind)(sp, pts, -np.conj(k)).evaluate(f))
                    check(res, np.max(np.abs(uc - np.conj(uk))) <= 1e-12 * scale,
                          "C05 potential.helmholtz.%s(-conj k) != conj" % kind,
                          "replacing k by -conj(k) does not conjugate the potential of a real density",
                          {"case": tag, "k": [k.real, k.imag], "maxdiff": float(np.max(np.abs(uc - np.conj(uk))))})
                k0 = 1e-4 / D
                u0 = np.asarray(getattr(helmholtz, kind)(sp, pts, k0).evaluate(f))
                check(res, np.max(np.abs(u0 - uL)) <= 10 * k0 * D * scale,
                      "C05 potential.helmholtz.%s: limit k->0 is not laplace" % kind,
                      "Helmholtz potential with tiny k is not close to the Laplace potential",
                      {"case": tag, "maxdiff": float(np.max(np.abs(u0 - uL))), "scale": scale})


def main():
    pl = K.payload()
    rng = np.random.default_rng(int(os.environ.get("VERIF_SEED", "0")))
    res = {"corr": {"evaluations": 0, "nontrivial": 0, "disagreements": [], "hist": {}, "samples": []},
           "search": {"evaluations": 0, "worst": {}}, "failures": [], "notes": [], "mats": {}}
    t0 = time.time()
    try:
        if pl["job"] == "dispatch":
            def disagree(kind, what, data):
                if len(res["corr"]["disagreements"]) < 40:
                    res["corr"]["disagreements"].append({"kind": kind, "what": what, "data": data})

            def count(kind, n=1, nontrivial=0):
                res["corr"]["evaluations"] += n
                res["corr"]["nontrivial"] += nontrivial
                res["corr"]["hist"][kind] = res["corr"]["hist"].get(kind, 0) + n
            K.selftest_numba(pl["numba"], rng, 6 if pl["strength"] == "quick" else 120, disagree, count,
                             res["corr"]["samples"], jit=False)
            job_dispatch(pl, res, rng)
        elif pl["job"] == "boundary":
            job_boundary(pl, res, rng)
        elif pl["job"] == "potential":
            job_potential(pl, res, rng)
    except Exception:
        res["crash"] = traceback.format_exc()[-3000:]
    res["notes"].append("job %s %.1fs" % (pl["job"], time.time() - t0))
    K.out(res)


if __name__ == "__main__":
    main()
