"""C03 implementation side.
corr:   the library's dense assembly (surrogate kernel, .py_func loops) on a grid and on its relabelled / locally
        rotated / orientation-flipped copy; dumps both runs plus the element / local-index / DOF maps and signs
        derived from the library's own local2global and multiplier arrays.
search: real kernels at API level: rotation+translation, scaling with k/s and the homogeneity factor, vertex/element
        permutations, local cyclic rotations (singular part under order refinement), flipped orientation vs
        swapped normals.
Input JSON {"mode": "corr"|"search"|"both", "strength", "budget"}; output '@@JSON {...}'."""
import json
import os
import sys
import time

import numpy as np

import asm_common as C

EDGE_VERTS = [(0, 1), (2, 0), (1, 2)]     # local vertices of local edges 0,1,2 (grid._vertices_from_edge_index order)


def transform_grid(grid, rng, mode, flip_domain=None):
    """Returns grid1 and pi (new index of old element), krot, flipped (per old element)."""
    import bempp_cl.api as api
    nv, nel = grid.number_of_vertices, grid.number_of_elements
    els = grid.elements
    if mode in ("relabel", "rotate"):
        sigma = rng.permutation(nv)
        pi = rng.permutation(nel)
    else:
        sigma = np.arange(nv)
        pi = np.arange(nel)
    krot = rng.integers(0, 3, size=nel) if mode == "rotate" else np.zeros(nel, dtype=int)
    flipped = np.array([mode == "flip" and grid.domain_indices[e] == flip_domain for e in range(nel)])
    verts1 = np.empty_like(grid.vertices)
    verts1[:, sigma] = grid.vertices
    els1 = np.empty((3, nel), dtype="uint32")
    dom1 = np.empty(nel, dtype="uint32")
    origin = []                                    # per old element: old local vertex of new local vertex j
    for e in range(nel):
        o = [(j + krot[e]) % 3 for j in range(3)]
        if flipped[e]:
            o = [o[0], o[2], o[1]]
        origin.append(o)
        els1[:, pi[e]] = [sigma[els[o[j], e]] for j in range(3)]
        dom1[pi[e]] = grid.domain_indices[e]
    return api.Grid(verts1, els1, dom1), pi, origin


def local_map(kind, origin):
    """new local index of old local function i, for one element."""
    if kind == "DP0":
        return [0]
    pos = {origin[j]: j for j in range(3)}          # old local vertex -> new local vertex
    if kind in ("DP1", "P1"):
        return [pos[i] for i in range(3)]
    new_edges = [frozenset((origin[a], origin[b])) for a, b in EDGE_VERTS]   # in old local vertex names
    return [new_edges.index(frozenset(EDGE_VERTS[i])) for i in range(3)]


def dof_maps(s0, s1, pi, locs):
    """rho, sgn, act from the library's arrays; None if inconsistent."""
    n0 = s0.global_dof_count
    rho = -np.ones(n0, dtype=int)
    sgn = np.ones(n0)
    act = []
    ok = True
    for e in range(s0.grid.number_of_elements):
        row = []
        for i in range(s0.number_of_shape_functions):
            m0 = s0.local_multipliers[e, i]
            a = bool(m0 != 0) and bool(s0.support[e])
            row.append(a)
            if a:
                g0 = int(s0.local2global[e, i])
                g1 = int(s1.local2global[pi[e], locs[e][i]])
                m1 = s1.local_multipliers[pi[e], locs[e][i]]
                if rho[g0] not in (-1, g1):
                    ok = False
                rho[g0] = g1
                sgn[g0] = m1 / m0
        act.append(row)
    free = [k for k in range(max(n0, s1.global_dof_count)) if k not in set(rho.tolist())]
    for g in range(n0):
        if rho[g] < 0:
            rho[g] = free.pop(0)
    return rho, sgn, act, ok and s1.global_dof_count == n0


def relation_error(a0, a1, rt, rr, st, sr):
    ref = (st[:, None] * sr[None, :]) * a0
    got = a1[np.ix_(rt, rr)]
    # floor: K and K' vanish identically on planar screens (only rounding noise is assembled)
    return float(np.abs(got - ref).max()) / max(float(np.abs(a0).max()), 1e-4)


# ---- correspondence ----------------------------------------------------------------------------------------------
def dcase_dump(grid, st, sr, tk, rk, kernel, oreg, osing, mat, captured, with_model):
    tt = st.map_to_full_grid.tocoo()
    tr = sr.map_to_full_grid.tocoo()
    return {"grid": C.dump_grid(grid), "test": C.dump_space(st, tk), "trial": C.dump_space(sr, rk),
            "spec": {"kernel": kernel}, "rule": C.rule_dump(oreg) if with_model else [],
            "sing": C.dump_singular(captured, grid) if with_model else [],
            "rows": int(mat.shape[0]), "cols": int(mat.shape[1]), "matrix": C.dump_matrix(mat),
            "scale": C.dy(max(1e-11 * float(np.abs(mat).max()), 1e-13)), "maxabs": float(np.abs(mat).max()),
            "Tt": sorted([int(a), int(b), C.dy(v)] for a, b, v in zip(tt.row, tt.col, tt.data) if v != 0),
            "Tr": sorted([int(a), int(b), C.dy(v)] for a, b, v in zip(tr.row, tr.col, tr.data) if v != 0)}


def run_corr(cfg):
    import bempp_cl.api as api
    rng = np.random.default_rng(int(os.environ.get("VERIF_SEED", "0")) + 3003)
    strength = cfg.get("strength", "quick")
    out = {"cases": [], "errors": []}
    n = 12 if strength == "quick" else 70
    grids = ["two", "screen21", "tetra", "octa", "screen31", "screen22"]
    scalar = ["DP0", "DP1", "P1"]
    allk = scalar + ["RWG", "SNC"]
    for i in range(n):
        mode = ["relabel", "rotate", "flip", "relabel"][i % 4]
        gname = grids[i % len(grids)]
        grid0 = C.make_grid(gname, rng, distorted=bool(i % 2))
        kinds = allk if mode == "relabel" else scalar
        tk, rk = str(rng.choice(kinds)), str(rng.choice(kinds))
        doms = sorted(set(int(x) for x in grid0.domain_indices))
        flip_dom = int(rng.choice(doms))
        grid1, pi, origin = transform_grid(grid0, rng, mode, flip_dom)
        # spaces: segments / flags are invariant under the transformations; support_elements are mapped by pi
        def opts_pair(kind):
            o0 = {} if rng.integers(0, 3) == 0 else C.random_space_opts(grid0, kind, rng)
            o0.pop("swapped_normals", None)
            if kind in ("P1", "RWG", "SNC") and rng.integers(0, 4) != 0:
                o0["include_boundary_dofs"] = True        # keep the matrices non-trivial on open grids
            o1 = dict(o0)
            if "support_elements" in o1:
                o1["support_elements"] = sorted(int(pi[e]) for e in o0["support_elements"])
            if mode == "flip":
                o0["swapped_normals"] = [flip_dom]
            return o0, o1
        to0, to1 = opts_pair(tk)
        ro0, ro1 = opts_pair(rk)
        try:
            st0, sr0 = C.make_space(grid0, tk, to0), C.make_space(grid0, rk, ro0)
            st1, sr1 = C.make_space(grid1, tk, to1), C.make_space(grid1, rk, ro1)
        except Exception as e:
            out["errors"].append({"where": "space", "error": repr(e)})
            continue
        with_model = mode == "relabel" or i % 8 in (1, 2)
        exact_sing = mode == "relabel"
        oreg = int(1 + i % 3)
        osing = (1 if i % 5 else 2) if exact_sing else 4
        if not exact_sing and with_model:
            with_model = False       # order-4 Duffy rules are too large for the in-Coq evaluation
        C.set_orders(oreg, osing)
        kern = int(i % 2)
        mats, caps = [], []
        for (st, sr) in ((st0, sr0), (st1, sr1)):
            with C.Patched(kern) as p:
                m = api.operators.boundary.laplace.single_layer(sr, sr, st, assembler="dense").weak_form().to_dense()
            mats.append(m)
            caps.append(p.captured[0])
        lt = [local_map(tk, origin[e]) for e in range(grid0.number_of_elements)]
        lr = [local_map(rk, origin[e]) for e in range(grid0.number_of_elements)]
        rho_t, sgn_t, act_t, ok_t = dof_maps(st0, st1, pi, lt)
        rho_r, sgn_r, act_r, ok_r = dof_maps(sr0, sr1, pi, lr)
        out["cases"].append({
            "spec": {"mode": mode, "grid": gname, "test": [tk, to0], "trial": [rk, ro0], "kernel": kern,
                     "orders": [oreg, osing], "model_evaluated": with_model, "maps_consistent": bool(ok_t and ok_r)},
            "c0": dcase_dump(grid0, st0, sr0, tk, rk, kern, oreg, osing, mats[0], caps[0], with_model),
            "c1": dcase_dump(grid1, st1, sr1, tk, rk, kern, oreg, osing, mats[1], caps[1], with_model),
            "eval": with_model, "pi": [int(x) for x in pi], "loc_t": lt, "loc_r": lr,
            "rho_t": [int(x) for x in rho_t], "rho_r": [int(x) for x in rho_r],
            "sgn_t": C.dyl(sgn_t), "sgn_r": C.dyl(sgn_r), "act_t": act_t, "act_r": act_r,
            "tol": C.dy(max((1e-11 if exact_sing else 1e-10) * float(np.abs(mats[0]).max()), 1e-13)),
            "maxabs": float(np.abs(mats[0]).max())})
    return out


# ---- search --------------------------------------------------------------------------------------------------------
def op_table(api):
    b = api.operators.boundary
    k = 1.7
    kc = 1.1 + 0.4j
    w = 0.9
    # name, factory(dom, dual, s) with wavenumber scaled by 1/s, domain kinds, dual kinds, homogeneity exponent
    return [
        ("laplace.single_layer", lambda d, t, s: b.laplace.single_layer(d, d, t, assembler="dense"), "scalar", 3),
        ("laplace.double_layer", lambda d, t, s: b.laplace.double_layer(d, d, t, assembler="dense"), "scalar", 2),
        ("laplace.adjoint_double_layer",
         lambda d, t, s: b.laplace.adjoint_double_layer(d, d, t, assembler="dense"), "scalar", 2),
        ("laplace.hypersingular", lambda d, t, s: b.laplace.hypersingular(d, d, t, assembler="dense"), "p1", 1),
        ("helmholtz.single_layer",
         lambda d, t, s: b.helmholtz.single_layer(d, d, t, k / s, assembler="dense"), "scalar", 3),
        ("helmholtz.double_layer(complex k)",
         lambda d, t, s: b.helmholtz.double_layer(d, d, t, kc / s, assembler="dense"), "scalar", 2),
        ("helmholtz.hypersingular", lambda d, t, s: b.helmholtz.hypersingular(d, d, t, k / s, assembler="dense"), "p1", 1),
        ("modified_helmholtz.single_layer",
         lambda d, t, s: b.modified_helmholtz.single_layer(d, d, t, w / s, assembler="dense"), "scalar", 3),
        ("modified_helmholtz.adjoint_double_layer",
         lambda d, t, s: b.modified_helmholtz.adjoint_double_layer(d, d, t, w / s, assembler="dense"), "scalar", 2),
        ("modified_helmholtz.hypersingular",
         lambda d, t, s: b.modified_helmholtz.hypersingular(d, d, t, w / s, assembler="dense"), "p1", 1),
        ("maxwell.electric_field", lambda d, t, s: b.maxwell.electric_field(d, d, t, k / s, assembler="dense"), "maxwell", 2),
        ("maxwell.magnetic_field", lambda d, t, s: b.maxwell.magnetic_field(d, d, t, k / s, assembler="dense"), "maxwell", 2),
        ("sparse.identity", lambda d, t, s: b.sparse.identity(d, d, t), "any", 2),
        ("sparse.laplace_beltrami", lambda d, t, s: b.sparse.laplace_beltrami(d, d, t), "p1", 0),
    ]


def dense(op):
    return np.asarray(op.weak_form().to_dense())


def pick_kinds(cls, rng):
    if cls == "scalar":
        return str(rng.choice(["DP0", "DP1", "P1"])), str(rng.choice(["DP0", "DP1", "P1"]))
    if cls == "p1":
        return "P1", "P1"
    if cls == "maxwell":
        return "RWG", "SNC"
    k = str(rng.choice(["DP0", "DP1", "P1", "RWG", "SNC"]))
    if k in ("RWG", "SNC"):
        return k, str(rng.choice(["RWG", "SNC"]))
    return k, str(rng.choice(["DP0", "DP1", "P1"]))


def random_rotation(rng):
    q, r = np.linalg.qr(rng.standard_normal((3, 3)))
    q = q * np.sign(np.diag(r))
    if np.linalg.det(q) < 0:
        q[:, 0] = -q[:, 0]
    return q


def flip_block(api, strength, out):
    """Deterministic in every check, for EVERY dense operator (all three hypersingular operators, V, K, K' of the three families,
    both Maxwell operators): swapped_normals on one domain of a fixed two-domain closed grid versus the grid with the elements
    of that domain physically reversed.  The regular part is exact; the singular part changes its Duffy parametrisation, so the
    two matrices agree up to singular-quadrature error at the fixed orders (3, 3) on this fixed, mildly perturbed octahedron:
    measured <= FLIP_MEASURED on the unchanged tree, bound FLIP_BOUND = 10x that; a wrong normal / sign / multiplier gives O(1).
    quick: assembler loops through .py_func with the library's own kernels; thorough: compiled code."""
    quick = strength == "quick"
    fixed = np.random.default_rng(20260923)            # geometry independent of VERIF_SEED
    verts = np.array(C.OCTA_V, dtype=float).T + fixed.integers(-2, 3, size=(3, 6)) / 32.0
    grid0 = api.Grid(np.ascontiguousarray(verts), np.array(C.OCTA_E, dtype="uint32").T.copy(),
                     np.array([1, 1, 1, 1, 2, 2, 2, 2], dtype="uint32"))
    grid1, pi, origin = transform_grid(grid0, fixed, "flip", 2)
    C.set_orders(3, 3)
    nel = grid0.number_of_elements
    with C.Patched(None, jit=not quick), np.errstate(all="ignore"):
        for name, mk, cls, _ in op_table(api):
            if name.startswith("sparse") or name in ("helmholtz.single_layer", "modified_helmholtz.single_layer"):
                continue          # (the single layer kernels do not see the normals; one of them is kept)
            dk, tk = {"scalar": ("P1", "DP1"), "p1": ("P1", "P1"), "maxwell": ("RWG", "SNC")}[cls]
            try:
                sd0, st0 = C.make_space(grid0, dk, {"swapped_normals": [2]}), C.make_space(grid0, tk, {"swapped_normals": [2]})
                sd1, st1 = C.make_space(grid1, dk, {}), C.make_space(grid1, tk, {})
                a0, a1 = dense(mk(sd0, st0, 1.0)), dense(mk(sd1, st1, 1.0))
                rt, sgt, _, okt = dof_maps(st0, st1, pi, [local_map(tk, origin[e]) for e in range(nel)])
                rd, sgd, _, okd = dof_maps(sd0, sd1, pi, [local_map(dk, origin[e]) for e in range(nel)])
            except Exception as e:
                out["failures"].append({"signature": "C03:%s raises %s" % (name, type(e).__name__), "what": repr(e),
                                        "data": {"block": "flip"}})
                continue
            err = relation_error(a0, a1, rt, rd, sgt, sgd) if (okt and okd) else 1.0
            out["worst"]["flip_fixed:%s" % name] = err
            out["evaluations"] += 1
            if not err <= FLIP_BOUND:
                out["failures"].append({
                    "signature": "C03:flip equivariance of %s" % name,
                    "what": "swapped_normals=[2] vs physically reversed elements of domain 2 on the fixed octahedron: relative "
                            "difference %.3e (bound %.1e = 10 x the singular-quadrature difference measured on the unchanged tree)"
                            % (err, FLIP_BOUND), "data": {"block": "flip", "operator": name, "err": err}})


FLIP_MEASURED = 1.3e-3      # worst operator (maxwell.electric_field) at orders (3, 3) on the unchanged tree
FLIP_BOUND = 2.0e-2


def far_translation_block(api, strength, out):
    """Deterministic in every check: a fixed small closed mesh translated by |T| in {1e3, 1e5} x diameter.  The geometry is
    computed from vertex differences, so normals / volumes / integration elements and the operators that use normals
    (Laplace K, K', W) lose accuracy only like eps*|T|/h (rounding of the translated coordinates); the tolerance is
    FAR_C * eps * |T| / h.  A formulation on absolute coordinates loses eps*|T|^2/h^2 and fails."""
    quick = strength == "quick"
    eps = np.finfo(float).eps
    fixed = np.random.default_rng(20260924)            # geometry independent of VERIF_SEED
    # non-dyadic coordinates, so that the translated coordinates are genuinely rounded
    verts = (np.array(C.OCTA_V, dtype=float).T + fixed.integers(-2, 3, size=(3, 6)) / 32.0) * 0.9137 + 0.0123
    els = np.array(C.OCTA_E, dtype="uint32").T.copy()
    grid0 = api.Grid(np.ascontiguousarray(verts), els.copy())
    diam = float(np.linalg.norm(verts.max(axis=1) - verts.min(axis=1)))
    h = float(grid0.diameters.min()) if hasattr(grid0, "diameters") else 1.0
    direction = np.array([3.0, -2.0, 1.0]) / np.linalg.norm([3.0, -2.0, 1.0])
    b = api.operators.boundary
    ops = [("laplace.double_layer", lambda d, t: b.laplace.double_layer(d, d, t, assembler="dense"), "P1", "DP0"),
           ("laplace.adjoint_double_layer", lambda d, t: b.laplace.adjoint_double_layer(d, d, t, assembler="dense"), "DP0", "P1"),
           ("laplace.hypersingular", lambda d, t: b.laplace.hypersingular(d, d, t, assembler="dense"), "P1", "P1")]
    C.set_orders(3, 3)
    with C.Patched(None, jit=not quick), np.errstate(all="ignore"):
        base = {name: dense(mk(C.make_space(grid0, dk, {}), C.make_space(grid0, tk, {}))) for name, mk, dk, tk in ops}
        for factor in (1e3, 1e5):
            tvec = factor * diam * direction
            tol = FAR_C * eps * float(np.linalg.norm(tvec)) / h
            g1 = api.Grid(np.ascontiguousarray(verts + tvec[:, None]), els.copy())
            geo = {"grid.normals": float(np.abs(g1.normals - grid0.normals).max()),
                   "grid.volumes": float(np.abs(g1.volumes / grid0.volumes - 1).max()),
                   "grid.integration_elements": float(np.abs(g1.integration_elements / grid0.integration_elements - 1).max()),
                   "grid.diameters": float(np.abs(g1.diameters / grid0.diameters - 1).max())}
            errs = dict(geo)
            for name, mk, dk, tk in ops:
                a1 = dense(mk(C.make_space(g1, dk, {}), C.make_space(g1, tk, {})))
                errs[name] = float(np.abs(a1 - base[name]).max()) / float(np.abs(base[name]).max())
            for key, err in errs.items():
                out["worst"]["far_translation_%g:%s" % (factor, key)] = err / tol      # in units of the tolerance
                out["evaluations"] += 1
                if not err <= tol:
                    out["failures"].append({
                        "signature": "C03:translation invariance far from the origin: %s" % key,
                        "what": "|T| = %g x diameter: %s changes by %.3e, tolerance %g*eps*|T|/h = %.3e" % (
                            factor, key, err, FAR_C, tol),
                        "data": {"block": "far_translation", "factor": factor, "quantity": key, "err": err, "tol": tol}})


FAR_C = 1.0e3


def barycentric_block(api, rng, strength, out):
    """Element renumbering / local rotation equivariance for operators whose spaces use barycentric_representation /
    dof_transformation: identity RWG(segment)->BC, SNC(segment)->RBC, P1(segment)->DUAL0 / DUAL1 (thorough: EFIE with RBC test
    space through the FMM glue with the exact evaluator).  Multi-domain non-uniform mesh; the segment is stored LAST (non-prefix
    support) in the reference numbering and FIRST, randomly renumbered (vertices + elements) and locally rotated in the others.
    Singular values are invariant under signed permutations of rows and columns, so they must agree."""
    from bempp_cl.api.operators.boundary import sparse, maxwell
    quick = strength == "quick"
    fails = out["failures"]
    for gname, dom in ([("octa", [2, 2, 2, 2, 1, 1, 1, 1])] if quick else
                       [("octa", [2, 2, 2, 2, 1, 1, 1, 1]), ("cube", [1, 1, 2, 2, 2, 2, 1, 1, 2, 2, 1, 3])]):
        base = C.make_grid(gname, rng, distorted=True, jitter=True)
        vv, ee = base.vertices, base.elements
        dom = np.array(dom, dtype="uint32")
        nel, nv = ee.shape[1], vv.shape[1]

        def grid_from(order, sigma=None, rot=None):
            els = ee[:, order].copy()
            if rot is not None:
                els = np.array([[els[(j + rot[c]) % 3, c] for c in range(nel)] for j in range(3)], dtype="uint32")
            v = vv
            if sigma is not None:
                v = np.empty_like(vv)
                v[:, sigma] = vv
                els = sigma[els].astype("uint32")
            return api.Grid(np.ascontiguousarray(v), np.ascontiguousarray(els), dom[order])
        seg_last = np.concatenate([np.flatnonzero(dom != 2), np.flatnonzero(dom == 2)])
        seg_first = np.concatenate([np.flatnonzero(dom == 2), np.flatnonzero(dom != 2)])
        variants = [("segment stored first", grid_from(seg_first)),
                    ("random vertex+element permutation", grid_from(rng.permutation(nel), rng.permutation(nv))),
                    ("local rotations", grid_from(seg_last, None, rng.integers(0, 3, size=nel)))]
        ref_grid = grid_from(seg_last)
        C.set_orders(3, 3)

        def matrix(g, which):
            fs = api.function_space
            if which == "identity RWG(segment)->BC":
                s, d = fs(g, "RWG", 0, segments=[2], include_boundary_dofs=True), fs(g, "BC", 0)
            elif which == "identity SNC(segment)->RBC":
                s, d = fs(g, "SNC", 0, segments=[2], include_boundary_dofs=True), fs(g, "RBC", 0)
            elif which == "identity P1(segment)->DUAL0":
                s, d = fs(g, "P", 1, segments=[2], include_boundary_dofs=True), fs(g, "DUAL", 0)
            elif which == "identity P1(segment)->DUAL1":
                s, d = fs(g, "P", 1, segments=[2], include_boundary_dofs=True), fs(g, "DUAL", 1)
            else:       # EFIE, RWG on the segment, RBC test space: only the FMM assembler accepts dof transformations
                s, d = fs(g, "RWG", 0, segments=[2], include_boundary_dofs=True), fs(g, "RBC", 0)
                op = maxwell.electric_field(s, s, d, 1.1, assembler="fmm").weak_form()
                eye = np.eye(op.shape[1], dtype=complex)
                return np.column_stack([op @ eye[:, j] for j in range(op.shape[1])])
            return sparse.identity(s, d, d).weak_form().to_sparse().toarray()
        ops = ["identity RWG(segment)->BC", "identity SNC(segment)->RBC", "identity P1(segment)->DUAL0",
               "identity P1(segment)->DUAL1"]
        if not quick and gname == "octa":
            ops.append("maxwell.electric_field RWG(segment) x RBC (fmm, exact evaluator)")
        for which in ops:
            try:
                ref = np.linalg.svd(matrix(ref_grid, which), compute_uv=False)
            except Exception as e:
                fails.append({"signature": "C03:%s raises %s" % (which, type(e).__name__), "what": repr(e),
                              "data": {"grid": gname}})
                continue
            for vname, g in variants:
                if which.startswith("maxwell") and vname == "local rotations":
                    continue      # singular quadrature changes with the local vertex order
                try:
                    sv = np.linalg.svd(matrix(g, which), compute_uv=False)
                except Exception as e:
                    fails.append({"signature": "C03:%s raises %s" % (which, type(e).__name__), "what": repr(e),
                                  "data": {"grid": gname, "variant": vname}})
                    continue
                err = (float(np.abs(sv - ref).max()) / float(ref.max())) if len(sv) == len(ref) else 1.0
                key = "barycentric:%s" % which
                out["worst"][key] = max(out["worst"].get(key, 0.0), err)
                out["evaluations"] += 1
                if not err <= 1e-9:
                    fails.append({
                        "signature": "C03:renumbering equivariance of %s (barycentric representation / dof transformation)"
                                     % which,
                        "what": "singular values change by %.3e (relative) between 'segment stored last' and '%s' on %s" % (
                            err, vname, gname),
                        "data": {"grid": gname, "variant": vname, "operator": which, "err": err}})


def run_search(cfg):
    import bempp_cl.api as api
    seed = int(os.environ.get("VERIF_SEED", "0"))
    rng = np.random.default_rng(seed + 3103)
    strength = cfg.get("strength", "quick")
    budget = float(cfg.get("budget", 1e9))
    out = {"evaluations": 0, "failures": [], "worst": {}, "skipped": 0, "operators_run": []}
    fails = out["failures"]
    t0 = time.time()
    ops = op_table(api)
    if strength == "quick":
        ops = ops[seed % len(ops):] + ops[:seed % len(ops)]
        # always one sparse and the rest in rotated order
        ops = sorted(ops, key=lambda o: 0 if o[0] == "sparse.identity" else 1)
    grids = ["octa", "screen22", "cube", "twocomp", "octa3", "tetra"]
    reps = 1 if strength == "quick" else 4

    def note(key, err):
        out["worst"][key] = max(out["worst"].get(key, 0.0), float(err))
        out["evaluations"] += 1

    for name, mk, cls, hexp in ops:
        if time.time() - t0 > budget and len(out["operators_run"]) >= 2:
            break
        out["operators_run"].append(name)
        for rep in range(reps):
            gname = grids[(rep + len(name) + seed) % len(grids)]
            grid0 = C.make_grid(gname, rng, distorted=True)
            dk, tk = pick_kinds(cls, rng)
            doms = sorted(set(int(x) for x in grid0.domain_indices))
            opts_d = {} if (cls == "maxwell" or rng.integers(0, 2)) else C.random_space_opts(grid0, dk, rng)
            opts_t = {} if (cls == "maxwell" or rng.integers(0, 2)) else C.random_space_opts(grid0, tk, rng)
            for o in (opts_d, opts_t):
                o.pop("swapped_normals", None)
            if cls in ("p1",):
                opts_d["include_boundary_dofs"] = opts_t["include_boundary_dofs"] = True
            C.set_orders(4, 4)
            try:
                sd0, st0 = C.make_space(grid0, dk, opts_d), C.make_space(grid0, tk, opts_t)
                if not (C.space_has_dofs(sd0) and C.space_has_dofs(st0)):
                    out["skipped"] += 1
                    continue
                if name.startswith("sparse") and not np.any(sd0.support & st0.support):
                    out["skipped"] += 1
                    continue
                a0 = dense(mk(sd0, st0, 1.0))
            except Exception as e:
                fails.append({"signature": "C03:%s raises %s" % (name, type(e).__name__), "what": repr(e),
                              "data": {"grid": gname, "dom": [dk, opts_d], "dual": [tk, opts_t]}})
                continue
            scale0 = max(float(np.abs(a0).max()), 1e-4)    # floor: K, K' vanish identically on planar screens
            ident_t = np.arange(a0.shape[0])
            ident_d = np.arange(a0.shape[1])
            ones_t, ones_d = np.ones(a0.shape[0]), np.ones(a0.shape[1])

            def spaces_on(grid1, pi):
                od, ot = dict(opts_d), dict(opts_t)
                for o, src in ((od, opts_d), (ot, opts_t)):
                    if "support_elements" in o:
                        o["support_elements"] = sorted(int(pi[e]) for e in src["support_elements"])
                return C.make_space(grid1, dk, od), C.make_space(grid1, tk, ot)

            # (a) rigid motion, (b) scaling
            qm, tv = random_rotation(rng), rng.standard_normal(3)
            s = float(rng.choice([0.5, 2.0, 3.0, 0.25]))
            for label, verts, sfac, expo in (("rigid", (qm @ grid0.vertices) + tv[:, None], 1.0, 0),
                                             ("scaling", s * grid0.vertices, s, hexp)):
                g1 = api.Grid(np.ascontiguousarray(verts), grid0.elements.copy(), grid0.domain_indices.copy())
                sd1, st1 = spaces_on(g1, np.arange(grid0.number_of_elements))
                a1 = dense(mk(sd1, st1, sfac))
                err = float(np.abs(a1 - sfac ** expo * a0).max()) / (sfac ** expo * scale0)
                note("%s:%s" % (label, name), err)
                if not err <= 1e-10:
                    fails.append({"signature": "C03:%s equivariance of %s" % (label, name),
                                  "what": "relative error %.3e (factor s^%d, s=%g) on %s with %s/%s" % (
                                      err, expo, sfac, gname, tk, dk),
                                  "data": {"grid": gname, "dom": [dk, opts_d], "dual": [tk, opts_t], "err": err}})
            # (c) relabelling, (d) local rotation, (e) flip vs swapped normals
            for mode in ("relabel", "rotate", "flip"):
                flip_dom = int(rng.choice(doms))
                g1, pi, origin = transform_grid(grid0, rng, mode, flip_dom)
                errs = []
                orders = [(4, 4)] if mode == "relabel" else [(4, 3), (4, 5), (4, 7)]
                if name.startswith("sparse"):
                    orders = orders[:1]
                for (oreg, osing) in orders:
                    C.set_orders(oreg, osing)
                    if mode == "flip":
                        od0, ot0 = dict(opts_d), dict(opts_t)
                        od0["swapped_normals"] = [flip_dom]
                        ot0["swapped_normals"] = [flip_dom]
                        sdA, stA = C.make_space(grid0, dk, od0), C.make_space(grid0, tk, ot0)
                    else:
                        sdA, stA = sd0, st0
                    aA = dense(mk(sdA, stA, 1.0))
                    sd1, st1 = spaces_on(g1, pi)
                    a1 = dense(mk(sd1, st1, 1.0))
                    lt = [local_map(tk, origin[e]) for e in range(grid0.number_of_elements)]
                    ld = [local_map(dk, origin[e]) for e in range(grid0.number_of_elements)]
                    rt, sgt, _, okt = dof_maps(stA, st1, pi, lt)
                    rd, sgd, _, okd = dof_maps(sdA, sd1, pi, ld)
                    if not (okt and okd):
                        fails.append({"signature": "C03:%s DOF maps of the transformed grid are not a renumbering" % mode,
                                      "what": "%s/%s on %s" % (tk, dk, gname),
                                      "data": {"grid": gname, "dom": [dk, opts_d], "dual": [tk, opts_t]}})
                        errs = None
                        break
                    errs.append(relation_error(aA, a1, rt, rd, sgt, sgd))
                if errs is None:
                    continue
                C.set_orders(4, 4)
                note("%s:%s" % (mode, name), errs[-1])
                if mode == "relabel" or name.startswith("sparse"):
                    bad = not errs[0] <= 1e-10
                    msg = "relative error %.3e" % errs[0]
                else:
                    # singular part changes its Duffy parametrisation: the two matrices converge to the same limit, so the
                    # difference must decay under order refinement (geometric convergence of the Sauter-Schwab rules; on
                    # sharp dihedral angles the rate is slow: 5e-2 -> 1e-2 -> 4e-3 was observed on a distorted tetrahedron
                    # with a correct tree).  A wrong vertex correspondence leaves a bias that does not decay.
                    # an O(1) discrepancy is never excused by decay: the difference at the highest order must be small
                    bad = not (errs[-1] <= 1e-9 or (errs[-1] <= 0.5 * errs[0] and errs[-1] <= 5e-2))
                    msg = "relative errors %s at singular orders 3,5,7" % (["%.2e" % x for x in errs],)
                if bad:
                    fails.append({"signature": "C03:%s equivariance of %s" % (mode, name),
                                  "what": "%s on %s with %s/%s" % (msg, gname, tk, dk),
                                  "data": {"grid": gname, "dom": [dk, opts_d], "dual": [tk, opts_t], "errs": errs}})
    flip_block(api, strength, out)
    far_translation_block(api, strength, out)
    with C.PyFuncMode(strength == "quick"):
        barycentric_block(api, rng, strength, out)
    out["wall"] = time.time() - t0
    return out


def main():
    cfg = json.load(sys.stdin)
    if cfg.get("strength") != "quick":
        # exafmm stand-in + the library's own exact evaluator (for the EFIE with a barycentric test space)
        sys.path.insert(0, os.path.join(os.path.dirname(os.path.abspath(__file__)), "stubs"))
        import bempp_cl.api as api
        api.GLOBAL_PARAMETERS.fmm.dense_evaluation = True
    mode = cfg.get("mode")
    out = {}
    if mode in ("corr", "both"):
        t = time.time()
        out["corr"] = run_corr(cfg)
        out["corr"]["wall"] = time.time() - t
    if mode in ("search", "both"):
        out["search"] = run_search(cfg)
    C.emit(out)


if __name__ == "__main__":
    main()
