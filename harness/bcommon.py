"""Shared implementation-side helpers of the AssemblyB checks (C06, C07, C17, C02).

Small mesh generators, exact-rational dumps of GridData / space arrays, surrogate kernels (coefficient tables that
the Coq side evaluates exactly) and the device that runs the *real* dense / potential pipelines of bempp-cl on the
pure-Python bodies (`.py_func`) of its Numba assemblers with a surrogate kernel passed as the kernel argument.
"""
import json
import os
import sys
from fractions import Fraction as F

import numpy as np


def fr(x):
    f = F(float(x))
    return [f.numerator, f.denominator]


def frc(z):
    z = complex(z)
    return [fr(z.real), fr(z.imag)]


def emit(obj):
    sys.stdout.write("\n@@JSON " + json.dumps(obj) + "\n")
    sys.stdout.flush()


# ---------------------------------------------------------------------------------------------------------
# meshes (vertices as exactly representable doubles, deliberately non-uniform and non-planar)
# ---------------------------------------------------------------------------------------------------------
def mesh(name, shift=(0.0, 0.0, 0.0), scale=1.0):
    if name == "strip2":      # two triangles sharing an edge, open, not coplanar
        V = [[0, 0, 0], [1, 0, 0], [0, 1.25, 0], [1, 1, 0.5]]
        E = [[0, 1, 2], [3, 2, 1]]
        D = [0, 1]
    elif name == "strip3":    # three triangles in a row (elements 0 and 2 only share a vertex)
        V = [[0, 0, 0], [1, 0, 0], [0, 1.25, 0], [1, 1, 0.5], [2, 0.25, 0.25]]
        E = [[0, 1, 2], [3, 2, 1], [1, 4, 3]]
        D = [0, 1, 1]
    elif name == "islands3":  # an adjacent pair and a separate triangle: the only tiny mesh with non-adjacent pairs
        V = [[0, 0, 0], [1, 0, 0], [0, 1.25, 0], [1, 1, 0.5], [2, 0.25, 0.25], [3, 0, 0.5], [2.25, 1.0, 0]]
        E = [[0, 1, 2], [3, 2, 1], [4, 5, 6]]
        D = [0, 1, 1]
    elif name == "fan4":      # four triangles around an interior vertex, open
        V = [[0, 0, 0.25], [1, 0, 0], [0, 1.5, 0], [-1, 0, 0.125], [0, -1, 0]]
        E = [[0, 1, 2], [0, 2, 3], [0, 3, 4], [0, 4, 1]]
        D = [0, 0, 1, 1]
    elif name == "tet":       # irregular tetrahedron, closed, outward oriented
        V = [[0, 0, 0], [1, 0, 0], [0, 1.25, 0], [0.25, 0.25, 0.75]]
        E = [[0, 2, 1], [0, 1, 3], [1, 2, 3], [0, 3, 2]]
        D = [0, 1, 1, 2]
    elif name == "octa":      # octahedron, closed, outward oriented, two domains
        V = [[1, 0, 0], [-1, 0, 0], [0, 1.25, 0], [0, -1, 0], [0, 0, 0.75], [0, 0, -1]]
        E = [[0, 2, 4], [2, 1, 4], [1, 3, 4], [3, 0, 4], [2, 0, 5], [1, 2, 5], [3, 1, 5], [0, 3, 5]]
        D = [0, 1, 0, 1, 0, 1, 0, 1]
    elif name == "cube12":    # unit cube, 12 triangles, outward oriented, three domains
        V = [[0, 0, 0], [1, 0, 0], [1, 1, 0], [0, 1, 0], [0, 0, 1], [1, 0, 1], [1, 1, 1], [0, 1, 1]]
        E = [[0, 2, 1], [0, 3, 2], [4, 5, 6], [4, 6, 7], [0, 1, 5], [0, 5, 4], [1, 2, 6], [1, 6, 5],
             [2, 3, 7], [2, 7, 6], [3, 0, 4], [3, 4, 7]]
        D = [0, 0, 1, 1, 2, 2, 2, 2, 2, 2, 2, 2]
    elif name == "screen22":  # 2x2 squares = 8 triangles, open, gently curved
        V = []
        for j in range(3):
            for i in range(3):
                V.append([i * 0.5, j * 0.625, 0.125 * ((i - 1) ** 2 + (j - 1))])
        E = []
        for j in range(2):
            for i in range(2):
                a, b, c, d = 3 * j + i, 3 * j + i + 1, 3 * j + i + 4, 3 * j + i + 3
                E += [[a, b, c], [a, c, d]]
        D = [0, 0, 1, 1, 0, 1, 1, 1]
    else:
        raise ValueError(name)
    V = np.array(V, dtype=np.float64).T * scale + np.array(shift, dtype=np.float64).reshape(3, 1)
    return V, np.array(E, dtype=np.uint32).T, np.array(D, dtype=np.uint32)


def make_grid(name, **kw):
    import bempp_cl.api as api
    V, E, D = mesh(name, **kw)
    return api.Grid(V, E, D)


def check_outward(grid):
    """Signed volume of a closed grid (positive = outward normals)."""
    v = grid.vertices
    vol = 0.0
    for e in range(grid.number_of_elements):
        a, b, c = (v[:, i] for i in grid.elements[:, e])
        vol += np.dot(a, np.cross(b, c)) / 6.0
    return vol


# ---------------------------------------------------------------------------------------------------------
# dumps
# ---------------------------------------------------------------------------------------------------------
def grid_dump(grid):
    """What GridData holds for the assemblers, per element, as exact rationals."""
    from bempp_cl.core import numba_kernels as nk
    gd = grid.data("double")
    n = grid.number_of_elements
    el = getattr(nk.get_edge_lengths, "py_func", nk.get_edge_lengths)(gd, np.arange(n, dtype=np.uint32))
    out = {"n": n, "corner": [], "jac": [], "normal": [], "intel": [], "jit": [], "elen": [], "verts": []}
    for e in range(n):
        out["corner"].append([fr(x) for x in gd.vertices[:, gd.elements[0, e]]])
        out["jac"].append([[fr(x) for x in gd.jacobians[e][:, c]] for c in range(2)])
        out["normal"].append([fr(x) for x in gd.normals[e]])
        out["intel"].append(fr(gd.integration_elements[e]))
        out["jit"].append([[fr(x) for x in gd.jac_inv_trans[e][:, c]] for c in range(2)])
        out["elen"].append([fr(x) for x in el[e]])
        out["verts"].append([int(x) for x in gd.elements[:, e]])
    return out


def space_dump(space):
    sid = space.shapeset.identifier
    return {"nshape": int(space.number_of_shape_functions),
            "l2g": [[int(x) for x in r] for r in space.local2global],
            "mult": [[fr(x) for x in r] for r in space.local_multipliers],
            "nmult": [fr(x) for x in space.normal_multipliers],
            "support": [int(x) for x in space.support_elements],
            "kind": 0 if sid == "p0_discontinuous" else 1,
            "ndof": int(space.global_dof_count), "identifier": space.identifier}


def quad_dump(points, weights):
    return [[fr(points[0, i]), fr(points[1, i]), fr(weights[i])] for i in range(len(weights))]


def singular_pairs_dump(grid, order, test_support, trial_support):
    """The adjacent pairs and their rules exactly as the singular assembler receives them."""
    from bempp_cl.core.singular_assembler import _SingularQuadratureRuleInterfaceGalerkin as Rule
    r = Rule(grid, order, test_support, trial_support)
    tp, sp, w, te, se, to, so, wo, nq = r.get_arrays()
    pairs = []
    for i in range(len(te)):
        n = int(nq[i])
        pts = [[[fr(tp[0, to[i] + k]), fr(tp[1, to[i] + k])], [fr(sp[0, so[i] + k]), fr(sp[1, so[i] + k])],
                fr(w[wo[i] + k])] for k in range(n)]
        pairs.append([int(te[i]), int(se[i]), pts])
    return pairs


def mat_dump(M):
    M = np.asarray(M)
    return [frc(x) for x in M.reshape(-1)]


# ---------------------------------------------------------------------------------------------------------
# surrogate kernels:  K(x,y,nx,ny) = c0 + ux.x + uy.y + x.(M y) + nx.(N ny) + (p.ny + r.nx) * d.(x - y)
# ---------------------------------------------------------------------------------------------------------
def random_surr(rng, is_complex, use_normals, symmetric=False):
    def num():
        v = float(rng.integers(-8, 9)) / 8.0
        if is_complex:
            return complex(v, float(rng.integers(-8, 9)) / 8.0)
        return v

    def vec():
        return [num() for _ in range(3)]

    zero = [0.0, 0.0, 0.0]
    s = {"c0": num() + 2.0, "ux": vec(), "uy": vec(), "M": [vec() for _ in range(3)],
         "N": [vec() for _ in range(3)] if use_normals else [zero, zero, zero],
         "p": vec() if use_normals else zero, "r": vec() if use_normals else zero, "d": vec()}
    if symmetric:        # K(x,y,nx,ny) = K(y,x,ny,nx)
        s["uy"] = list(s["ux"])
        s["M"] = [[(s["M"][a][b] + s["M"][b][a]) / 2 for b in range(3)] for a in range(3)]
        s["N"] = [[(s["N"][a][b] + s["N"][b][a]) / 2 for b in range(3)] for a in range(3)]
        s["p"] = zero
        s["r"] = zero
    return s


def surr_dump(s):
    return {"c0": frc(s["c0"]), "ux": [frc(v) for v in s["ux"]], "uy": [frc(v) for v in s["uy"]],
            "M": [[frc(v) for v in r] for r in s["M"]], "N": [[frc(v) for v in r] for r in s["N"]],
            "p": [frc(v) for v in s["p"]], "r": [frc(v) for v in s["r"]], "d": [frc(v) for v in s["d"]]}


def surr_functions(s, dtype):
    """(regular, singular) Python kernels with the calling conventions of numba_kernels.py."""
    c0 = dtype(s["c0"])
    ux, uy, p, r, d = (np.array(s[k], dtype=dtype) for k in ("ux", "uy", "p", "r", "d"))
    M, N = np.array(s["M"], dtype=dtype), np.array(s["N"], dtype=dtype)

    def value(x, y, nx, ny):
        # x, y: (3, n); nx, ny: (3, n) or None
        out = c0 + ux @ x + uy @ y + np.einsum("an,ab,bn->n", x, M, y)
        if nx is not None and ny is not None:
            out = out + np.einsum("an,ab,bn->n", nx, N, ny) + (p @ ny + r @ nx) * (d @ (x - y))
        return out.astype(dtype)

    def regular(test_point, trial_points, test_normal, trial_normals, kernel_parameters):
        n = trial_points.shape[1]
        x = np.repeat(np.asarray(test_point, dtype=np.float64).reshape(3, 1), n, axis=1)
        nx = None if test_normal is None else np.repeat(np.asarray(test_normal).reshape(3, 1), n, axis=1)
        return value(x, trial_points, nx, trial_normals)

    def singular(test_points, trial_points, test_normal, trial_normal, kernel_parameters):
        n = trial_points.shape[1]
        nx = None if test_normal is None else np.repeat(np.asarray(test_normal).reshape(3, 1), n, axis=1)
        ny = None if trial_normal is None else np.repeat(np.asarray(trial_normal).reshape(3, 1), n, axis=1)
        return value(test_points, trial_points, nx, ny)

    return regular, singular


class PurePython:
    """Context manager: the Numba assemblers run as plain Python (their `.py_func`) with a surrogate kernel.

    Patches bempp_cl.core.numba_kernels.select_numba_kernels (looked up at call time by core/numba_assemblers.py)
    and the small helper functions the assembler bodies call.  Everything else (operator factories, dense
    assembler, colour loop, singular rule interface, scatter through local2global / multipliers) is the real
    code path of the library."""
    HELPERS = ("get_normals", "get_global_points", "get_piola_transform", "get_edge_lengths", "elements_adjacent")

    def __init__(self, surr=None, is_complex=False):
        self.surr, self.is_complex = surr, is_complex

    def __enter__(self):
        from bempp_cl.core import numba_kernels as nk
        self.nk = nk
        self.saved = {n: getattr(nk, n) for n in self.HELPERS + ("select_numba_kernels",)}
        for n in self.HELPERS:
            f = getattr(nk, n)
            setattr(nk, n, getattr(f, "py_func", f))
        orig = self.saved["select_numba_kernels"]
        if self.surr is not None:
            reg, sing = surr_functions(self.surr, np.complex128 if self.is_complex else np.float64)

        def select(operator_descriptor, mode="regular"):
            fn, k = orig(operator_descriptor, mode)
            fn = getattr(fn, "py_func", fn)
            if self.surr is None:      # real Green's function kernels (small jitted functions), Python assembler body
                return fn, k
            return fn, (sing if mode == "singular" else reg)
        nk.select_numba_kernels = select
        return self

    def __exit__(self, *a):
        for n, f in self.saved.items():
            setattr(self.nk, n, f)
        return False


# ---------------------------------------------------------------------------------------------------------
# potential operators through the real pipeline (DensePotentialAssembler -> numba potential assembler body)
# ---------------------------------------------------------------------------------------------------------
def dof_transformation_dump(space):
    m = space.dof_transformation.tocoo()
    return [[int(r), int(c), fr(v)] for r, c, v in zip(m.row, m.col, m.data)]


def make_space(api, grid, spec):
    """spec = (kind, degree, kwargs); kind 'X-bary' = barycentric representation of the space of kind X"""
    if spec[0].endswith("-bary"):
        return api.function_space(grid, spec[0][:-5], spec[1], **spec[2]).barycentric_representation()
    return api.function_space(grid, spec[0], spec[1], **spec[2])


def potential_case(api, rng, mname, spec, family, k, points, ncoef=2, name=None):
    """Evaluate a potential operator with a surrogate kernel on the Python body of the potential assembler.

    family: 'scalar' (default_scalar_potential_kernel via the Laplace/Helmholtz single-layer factories),
            'efield' / 'mfield' (Maxwell potentials)."""
    from bempp_cl.api.integration.triangle_gauss import rule
    P = api.operators.potential
    grid = make_grid(mname)
    space = make_space(api, grid, spec)
    is_complex = k is not None
    surr = random_surr(rng, is_complex, use_normals=(family == "scalar"))
    if family == "scalar":
        surr["N"] = [[0.0] * 3] * 3          # the potential kernel receives a zero dummy test normal
        surr["r"] = [0.0] * 3
    nd = space.global_dof_count
    coefs = []
    for _ in range(ncoef):
        c = rng.integers(-4, 5, size=nd) / 4.0
        if is_complex:
            c = c + 1j * rng.integers(-4, 5, size=nd) / 4.0
        coefs.append(c)
    pts = np.array(points, dtype=np.float64).T
    with PurePython(surr, is_complex):
        if family == "scalar":
            op = P.laplace.double_layer(space, pts) if k is None else P.helmholtz.double_layer(space, pts, k)
        elif family == "efield":
            op = P.maxwell.electric_field(space, pts, k)
        else:
            op = P.maxwell.magnetic_field(space, pts, k)
        vals = [np.asarray(op.evaluate(api.GridFunction(space, coefficients=c))) for c in coefs]
    qp, qw = rule(api.GLOBAL_PARAMETERS.quadrature.regular)
    loc = space.localised_space
    allv = np.concatenate([v.reshape(-1) for v in vals])
    return {"name": name or "%s/%s%d%s/%s" % (mname, spec[0], spec[1], "seg" if spec[2] else "", family),
            "family": family, "mesh": mname, "k": None if k is None else frc(k),
            "grid": grid_dump(space.grid), "space": space_dump(space),
            # the model takes support and normal multipliers from the user's space; that the localised space handed
            # to the kernels inherits them is part of the model (localised_space) and corresponded separately
            "supp": [int(x) for x in space.support_elements], "nmult": [fr(x) for x in space.normal_multipliers],
            "loc": {"l2g": [[int(x) for x in r] for r in loc.local2global],
                    "mult": [[fr(x) for x in r] for r in loc.local_multipliers],
                    "nmult": [fr(x) for x in loc.normal_multipliers],
                    "supp": [int(x) for x in loc.support_elements], "nE": int(space.grid.number_of_elements),
                    "is_self": bool(loc is space)},
            "dt": dof_transformation_dump(space), "requires_dt": bool(space.requires_dof_transformation),
            "quad": quad_dump(qp, qw), "surr": surr_dump(surr),
            "points": [[fr(x) for x in p] for p in points],
            "coefs": [[frc(x) for x in c] for c in coefs],
            "dim": int(vals[0].shape[0]),
            # impl values in the order: coefficient vector, point, component
            "impl": [frc(v[d, p]) for v in vals for p in range(len(points)) for d in range(v.shape[0])],
            "scale": fr(float(np.max(np.abs(allv)))), "nonzero": int(np.count_nonzero(allv))}


# ---------------------------------------------------------------------------------------------------------
# FMM glue with the exafmm stand-in and a surrogate 4-component point kernel
# ---------------------------------------------------------------------------------------------------------
def enable_fmm_stub():
    stubs = os.path.join(os.path.dirname(os.path.abspath(__file__)), "stubs")
    if stubs not in sys.path:
        sys.path.insert(0, stubs)
    import bempp_cl.api as api
    api.GLOBAL_PARAMETERS.fmm.dense_evaluation = True
    return api


def random_g4(rng, is_complex):
    """four independent polynomial components (value, three 'gradient' components)"""
    comps = []
    for _ in range(4):
        s = random_surr(rng, is_complex, use_normals=False)
        s["d"] = [0.0, 0.0, 0.0]
        comps.append(s)
    return comps


def g4_function(comps, dtype):
    fns = [surr_functions(s, dtype)[1] for s in comps]      # "singular" convention: (3,n),(3,n) -> n

    def k4(target_points, source_points, kernel_parameters, dt, result_type):
        nt, ns = target_points.shape[1], source_points.shape[1]
        out = np.empty(4 * nt * ns, dtype=result_type)
        for t in range(nt):
            x = np.repeat(np.asarray(target_points[:, t], dtype=np.float64).reshape(3, 1), ns, axis=1)
            for i in range(4):
                out[t * 4 * ns + 4 * np.arange(ns) + i] = fns[i](x, np.asarray(source_points), None, None, None)
        return out
    return k4


class FmmPython:
    """Run the FMM glue with (a) the library's exact evaluator and near-field correction executing as Python bodies
    on a surrogate 4-component kernel (comps given) or (b) unchanged real kernels (comps None)."""
    PYF = [("bempp_cl.api.fmm.helpers", ["dense_interaction_evaluator_impl", "get_local_interaction_matrix_impl",
                                         "numba_evaluate_local_interactions"]),
           ("bempp_cl.api.space.space", ["map_space_to_points_impl"]),
           ("bempp_cl.api.fmm.fmm_assembler", ["compute_p1_curl_transformation_impl",
                                               "compute_rwg_basis_transform_impl", "compute_rwg_div_transform_impl"])]

    def __init__(self, comps=None, is_complex=False, python_bodies=False):
        self.comps, self.is_complex = comps, is_complex
        self.python_bodies = python_bodies or comps is not None

    def __enter__(self):
        import importlib
        self.saved = []
        if self.python_bodies:
            for modname, names in self.PYF:
                mod = importlib.import_module(modname)
                for n in names:
                    f = getattr(mod, n)
                    self.saved.append((mod, n, f))
                    setattr(mod, n, getattr(f, "py_func", f))
        if self.comps is not None:
            helpers = importlib.import_module("bempp_cl.api.fmm.helpers")
            k4 = g4_function(self.comps, np.complex128 if self.is_complex else np.float64)
            for n in ("laplace_kernel", "helmholtz_kernel", "modified_helmholtz_kernel"):
                self.saved.append((helpers, n, getattr(helpers, n)))
                setattr(helpers, n, k4)
        fa = importlib.import_module("bempp_cl.api.fmm.fmm_assembler")
        fa.clear_fmm_cache()
        return self

    def __exit__(self, *a):
        for mod, n, f in self.saved:
            setattr(mod, n, f)
        import importlib
        importlib.import_module("bempp_cl.api.fmm.fmm_assembler").clear_fmm_cache()
        return False


def neighbors_dump(grid):
    il = grid.element_neighbors
    return [[int(x) for x in il.indices[il.indexptr[e]:il.indexptr[e + 1]]] for e in range(grid.number_of_elements)]


def sparse_dump(mat):
    m = mat.tocoo()
    return [[int(r), int(c), frc(v)] for r, c, v in zip(m.row, m.col, m.data)]
