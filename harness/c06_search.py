"""C06 failing-input search on the implementation (real Green's function kernels, API level).

Builds the sparse maps C_c (surface curl), N_c (normal weighting), R_c (Cartesian components), D (divergence)
from `space.evaluate` at the reference vertices and the grid's dual basis (jac_inv_trans), assembles W / E and the
single-layer matrices V0 / V1 with the library and compares.  quick: the assemblers run as Python bodies
(bcommon.PurePython, real kernels); thorough: additionally the Numba-compiled path.
"""
import numpy as np

import bcommon as bc

REFV = np.array([[0.0, 1.0, 0.0], [0.0, 0.0, 1.0]])


def p1_maps(space):
    """C[c] (nE x ndof), N[c] (3nE x ndof) of a P1-type space, from space.evaluate + grid geometry."""
    grid = space.grid
    nE, nd = grid.number_of_elements, space.global_dof_count
    C = np.zeros((3, nE, nd))
    N = np.zeros((3, 3 * nE, nd))
    for e in space.support_elements:
        vals = space.evaluate(e, REFV)[0]                 # (nshape, 3 vertices), multipliers included
        jit = grid.jacobian_inverse_transposed[e]                       # 3 x 2, columns = dual basis
        n = grid.normals[e] * space.normal_multipliers[e]
        for i in range(3):
            gdof = space.local2global[e, i]
            grad = (vals[i, 1] - vals[i, 0]) * jit[:, 0] + (vals[i, 2] - vals[i, 0]) * jit[:, 1]
            curl = np.cross(n, grad)
            for c in range(3):
                C[c, e, gdof] += curl[c]
                for a in range(3):
                    N[c, 3 * e + a, gdof] += vals[i, a] * n[c]
    return C, N


def rwg_maps(space):
    """R[c] (3nE x ndof), D (nE x ndof) of an RWG space."""
    grid = space.grid
    nE, nd = grid.number_of_elements, space.global_dof_count
    R = np.zeros((3, 3 * nE, nd))
    D = np.zeros((nE, nd))
    for e in space.support_elements:
        vals = space.evaluate(e, REFV)                    # (3, nshape, 3 vertices)
        jit = grid.jacobian_inverse_transposed[e]
        for i in range(3):
            gdof = space.local2global[e, i]
            D[e, gdof] += (vals[:, i, 1] - vals[:, i, 0]) @ jit[:, 0] + (vals[:, i, 2] - vals[:, i, 0]) @ jit[:, 1]
            for c in range(3):
                for a in range(3):
                    R[c, 3 * e + a, gdof] += vals[c, i, a]
    return R, D


def congr(P, V, Q):
    return sum(P[c].T @ V @ Q[c] for c in range(P.shape[0]))


def dense(op):
    return np.asarray(op.weak_form().to_dense())


def rel(a, b):
    s = max(np.abs(a).max(), np.abs(b).max(), 1e-300)
    return float(np.abs(a - b).max() / s)


GRID_CFG = {
    "quick": [("octa", [{}, {"segments": [1], "include_boundary_dofs": True}, {"segments": [1]},
                        {"swapped_normals": [1]}]),
              ("screen22", [{"include_boundary_dofs": True}, {},
                            {"segments": [1], "include_boundary_dofs": True, "truncate_at_segment_edge": False}]),
              ("tet", [{}, {"segments": [1, 2], "include_boundary_dofs": True}, {"swapped_normals": [0, 2]}])],
    "thorough": [("octa", [{}, {"segments": [1], "include_boundary_dofs": True}, {"segments": [1]},
                           {"segments": [0], "include_boundary_dofs": True, "truncate_at_segment_edge": False},
                           {"swapped_normals": [1]}, {"swapped_normals": [0]}]),
                 ("cube12", [{}, {"segments": [2], "include_boundary_dofs": True}, {"segments": [0, 1]},
                             {"swapped_normals": [1]}, {"swapped_normals": [0, 2]}]),
                 ("screen22", [{"include_boundary_dofs": True}, {},
                               {"segments": [1], "include_boundary_dofs": True, "truncate_at_segment_edge": False},
                               {"segments": [0], "include_boundary_dofs": True}]),
                 ("tet", [{}, {"segments": [1, 2], "include_boundary_dofs": True}, {"segments": [2]},
                          {"swapped_normals": [1]}, {"swapped_normals": [0, 2]}])],
}
CLOSED = {"octa", "cube12", "tet"}


def run_family(api, grid_name, cfgs, ks, results, fails, tol, tag):
    B = api.operators.boundary
    grid = bc.make_grid(grid_name)
    d0 = api.function_space(grid, "DP", 0)
    d1 = api.function_space(grid, "DP", 1)
    for kind, k in ks:
        if kind == "laplace":
            V0, V1 = dense(B.laplace.single_layer(d0, d0, d0, assembler="dense")), \
                dense(B.laplace.single_layer(d1, d1, d1, assembler="dense"))
        elif kind == "helmholtz" or kind == "maxwell":
            V0, V1 = dense(B.helmholtz.single_layer(d0, d0, d0, k, assembler="dense")), \
                dense(B.helmholtz.single_layer(d1, d1, d1, k, assembler="dense"))
        else:
            V0, V1 = dense(B.modified_helmholtz.single_layer(d0, d0, d0, k, assembler="dense")), \
                dense(B.modified_helmholtz.single_layer(d1, d1, d1, k, assembler="dense"))
        for kw in cfgs:
            data = {"grid": grid_name, "space_options": kw, "family": kind, "k": None if k is None else str(k),
                    "path": tag}
            try:
                if kind == "maxwell":
                    rwg = api.function_space(grid, "RWG", 0, **kw)
                    snc = api.function_space(grid, "SNC", 0, **kw)
                    if rwg.global_dof_count == 0 or not len(rwg.support_elements):
                        continue
                    if not (np.array_equal(rwg.local2global, snc.local2global)
                            and np.array_equal(rwg.local_multipliers, snc.local_multipliers)):
                        fails.append({"signature": "C06:rwg-snc-numbering-differs", "data": data,
                                      "what": "RWG and SNC spaces with the same options are numbered differently"})
                        continue
                    E = dense(B.maxwell.electric_field(rwg, rwg, snc, k, assembler="dense"))
                    R, D = rwg_maps(rwg)
                    rhs = -1j * k * congr(R, V1, R) - (1.0 / (1j * k)) * (D.T @ V0 @ D)
                    err = rel(E, rhs)
                    results["efield_decomposition"] = max(results.get("efield_decomposition", 0.0), err)
                    results["n"] += 1
                    if not err <= tol:
                        fails.append({"signature": "C06:efield-decomposition", "data": dict(data, rel_err=err),
                                      "what": "electric field matrix differs from -ik R'V1R - (1/ik) D'V0D by %.2e" % err})
                else:
                    sp = api.function_space(grid, "P", 1, **kw)
                    if not len(sp.support_elements):
                        continue
                    if kind == "laplace":
                        W = dense(B.laplace.hypersingular(sp, sp, sp, assembler="dense"))
                        k2 = 0.0
                    elif kind == "helmholtz":
                        W = dense(B.helmholtz.hypersingular(sp, sp, sp, k, assembler="dense"))
                        k2 = -k * k
                    else:
                        W = dense(B.modified_helmholtz.hypersingular(sp, sp, sp, k, assembler="dense"))
                        k2 = k * k
                    C, N = p1_maps(sp)
                    rhs = congr(C, V0, C) + k2 * congr(N, V1, N)
                    err = rel(W, rhs)
                    results["hypersingular_decomposition"] = max(results.get("hypersingular_decomposition", 0.0), err)
                    results["n"] += 1
                    if not err <= tol:
                        fails.append({"signature": "C06:hypersingular-decomposition:" + kind,
                                      "data": dict(data, rel_err=err),
                                      "what": "%s hypersingular matrix differs from C'V0C -/+ k^2 N'V1N by %.2e" % (kind, err)})
                    if kind == "laplace" and grid_name in CLOSED and set(kw) <= {"swapped_normals"}:
                        r = float(np.abs(W @ np.ones(W.shape[1])).max() / np.abs(W).max())
                        results["W_times_one"] = max(results.get("W_times_one", 0.0), r)
                        results["n"] += 1
                        if not r <= 1e-12:
                            fails.append({"signature": "C06:hypersingular-constants", "data": dict(data, residual=r),
                                          "what": "Laplace hypersingular matrix on a closed grid does not annihilate "
                                                  "constants: |W 1|/|W| = %.2e" % r})
            except Exception as ex:   # an exception in the assembly of a legitimate configuration is a failure too
                fails.append({"signature": "C06:exception:" + type(ex).__name__, "data": data,
                              "what": "assembly raised %r" % (ex,)})


def symmetry_refinement(api, grid_name, k, results, fails, orders, tag):
    """E and M: asymmetry is singular-quadrature error only -> must not grow under refinement and end small."""
    B = api.operators.boundary
    grid = bc.make_grid(grid_name)
    rwg = api.function_space(grid, "RWG", 0)
    snc = api.function_space(grid, "SNC", 0)
    saved = api.GLOBAL_PARAMETERS.quadrature.singular
    try:
        for name, fac in (("E", B.maxwell.electric_field), ("M", B.maxwell.magnetic_field)):
            seq = []
            for o in orders:
                api.GLOBAL_PARAMETERS.quadrature.singular = o
                A = dense(fac(rwg, rwg, snc, k, assembler="dense"))
                seq.append(float(np.abs(A - A.T).max() / np.abs(A).max()))
            results["asym_%s_%s" % (name, grid_name)] = seq
            results["n"] += len(seq)
            ok = all(seq[i + 1] <= 0.7 * seq[i] + 1e-13 for i in range(len(seq) - 1)) and seq[-1] <= 5e-2
            if not ok:
                fails.append({"signature": "C06:maxwell-symmetry:" + name,
                              "data": {"grid": grid_name, "k": str(k), "orders": list(orders), "asymmetry": seq,
                                       "path": tag},
                              "what": "%s-field matrix asymmetry does not behave like singular quadrature error: %s"
                                      % (name, seq)})
    finally:
        api.GLOBAL_PARAMETERS.quadrature.singular = saved


def run(cfg):
    import bempp_cl.api as api
    strength = cfg.get("strength", "quick")
    api.GLOBAL_PARAMETERS.quadrature.regular = 3
    api.GLOBAL_PARAMETERS.quadrature.singular = 2
    results = {"n": 0}
    fails = []
    ks = [("laplace", None), ("helmholtz", 1.25), ("helmholtz", 1.0 + 0.5j), ("modified", 0.75),
          ("maxwell", 1.5), ("maxwell", 0.75 + 0.5j)]
    with bc.PurePython(), np.errstate(all="ignore"):
        for gname, cfgs in GRID_CFG["quick" if strength == "quick" else "thorough"]:  # thorough and escalated
            run_family(api, gname, cfgs, ks, results, fails, 1e-10, "python-body")
        symmetry_refinement(api, "tet", 1.25 + 0.25j, results, fails, (1, 2, 3), "python-body")
    if strength == "thorough":
        api.GLOBAL_PARAMETERS.quadrature.regular = 4
        api.GLOBAL_PARAMETERS.quadrature.singular = 4
        for gname, cfgs in GRID_CFG["thorough"][:2]:
            run_family(api, gname, cfgs, ks, results, fails, 1e-10, "numba")
        symmetry_refinement(api, "octa", 1.25 + 0.25j, results, fails, (2, 4, 6), "numba")
    # the exact configurations on which the correspondence disagreed (if any), with the real kernels
    for fc in cfg.get("focus") or []:
        kind = {"lap_hyp": "laplace", "helm_hyp": "helmholtz", "modhelm_hyp": "modified", "efield": "maxwell",
                "mfield": None, "slp": None, "slp_c": None}.get(fc.get("op"))
        if kind is None:
            continue
        k = fc.get("k")
        if k is not None:
            k = complex(k[0], k[1])
            if kind != "helmholtz" and kind != "maxwell":
                k = k.real
            elif k.imag == 0 and kind == "helmholtz":
                k = k.real
        api.GLOBAL_PARAMETERS.quadrature.regular = 3
        api.GLOBAL_PARAMETERS.quadrature.singular = 2
        with bc.PurePython(), np.errstate(all="ignore"):
            run_family(api, fc["mesh"], [fc.get("kw") or {}], [(kind, k)], results, fails, 1e-10, "python-body/focus")
    n = results.pop("n")
    return {"evaluations": n, "worst": results, "failures": fails}
