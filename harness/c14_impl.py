"""C14 implementation side.

Atoms are real API objects (BoundaryOperatorWithAssembler / PotentialOperator) whose assembler / evaluator is a stub
returning a given matrix, so that the *algebra classes of the library* are exercised with exactly known operands
and without kernel JIT; mass matrices and spaces are the library's own.  Thorough tier adds real Laplace / Helmholtz
operators to the pool.

stdin JSON {"strength": "quick"|"thorough"}; prints '@@JSON {...}':
  env      : spaces (ids, dof counts), atoms (spaces + exact matrices), inverse mass matrices, potential atoms
  cases    : user expressions + what the library returned (matrix or exception name)  -> correspondence with Coq
  failures : property violations found by the search (signature, what, data)
"""
import json
import sys
import traceback
import warnings

import numpy as np

from c14_common import emit, fr, rng, make_grid

warnings.filterwarnings("ignore")
import bempp_cl.api as api  # noqa: E402
from bempp_cl.api.assembly.boundary_operator import BoundaryOperatorWithAssembler, BoundaryOperator  # noqa: E402
from bempp_cl.api.assembly.potential_operator import PotentialOperator  # noqa: E402
from bempp_cl.api.assembly import discrete_boundary_operator as dbo  # noqa: E402
from bempp_cl.api.assembly import blocked_operator as blk  # noqa: E402
from bempp_cl.api.utils.helpers import get_inverse_mass_matrix, get_mass_matrix  # noqa: E402

TOL = 1e-9


class StubAssembler:
    def __init__(self, mat, sparse=False):
        self.parameters = api.GLOBAL_PARAMETERS
        self.mat, self.sparse = mat, sparse

    def assemble(self, descriptor, *a, **k):
        if self.sparse:
            from scipy.sparse import csc_matrix
            return dbo.SparseDiscreteBoundaryOperator(csc_matrix(self.mat))
        return dbo.DenseDiscreteBoundaryOperator(self.mat)


class StubEvaluator:
    def __init__(self, space, points, kdim, mat):
        self.space, self.points, self.kernel_dimension, self.mat = space, points, kdim, mat

    def evaluate(self, coeffs):
        return (self.mat @ coeffs).reshape(self.kernel_dimension, -1)


def cq(z):
    z = complex(z)
    return [fr(z.real), fr(z.imag)]


def mat_q(m):
    m = np.asarray(m)
    return [[cq(x) for x in row] for row in m]


class World:
    def __init__(self, r, thorough):
        self.r = r
        g1, g2 = make_grid("tetrahedron"), make_grid("octahedron")
        self.grids = [g1, g2]
        self.spaces = [api.function_space(g1, "P", 1), api.function_space(g1, "DP", 0),
                       api.function_space(g2, "P", 1), api.function_space(g1, "P", 1),
                       api.function_space(g2, "DP", 0)]
        # ids = equivalence classes of `==`
        self.sid = []
        for i, s in enumerate(self.spaces):
            for j in range(i):
                if s == self.spaces[j]:
                    self.sid.append(self.sid[j])
                    break
            else:
                self.sid.append(i)
        self.dim = {self.sid[i]: int(s.global_dof_count) for i, s in enumerate(self.spaces)}
        self.atoms = []          # (op, (d, r, u) indices into spaces, matrix)
        triples = [(0, 0, 0), (0, 0, 1), (1, 0, 0), (1, 1, 1), (0, 1, 1), (3, 0, 0), (2, 2, 2), (0, 0, 0), (1, 0, 1),
                   (2, 2, 4), (4, 2, 2)]
        for k, (d, q, u) in enumerate(triples):
            shape = (self.spaces[u].global_dof_count, self.spaces[d].global_dof_count)
            m = r.integers(-3, 4, size=shape).astype("float64")
            if k in (7, 8):
                m = m + 1j * r.integers(-2, 3, size=shape)
            op = BoundaryOperatorWithAssembler(self.spaces[d], self.spaces[q], self.spaces[u],
                                               StubAssembler(m, sparse=(k == 4)), None)
            self.atoms.append((op, (d, q, u), m))
        self.pristine = [np.array(a[2], copy=True) for a in self.atoms]
        self.invmass = {}
        for _, (d, q, u), _ in self.atoms:
            key = (self.sid[q], self.sid[u])
            if key not in self.invmass and len(self.invmass) < 99:
                try:
                    self.invmass[key] = np.asarray(get_inverse_mass_matrix(self.spaces[q], self.spaces[u]).to_dense())
                except RuntimeError:
                    # rank-deficient mass matrix (P1 against DP0 on the octahedron): such an operator cannot be the
                    # right factor of a product; it is only used for weak forms
                    pass
        self.nprog = 9            # atoms 0..8 take part in random programs; 9, 10 have a rank-deficient mass matrix
        self.mass = {}
        for (q, u) in list(self.invmass):
            sq = self.spaces[self.sid.index(q)]
            su = self.spaces[self.sid.index(u)]
            self.mass[(q, u)] = np.asarray(get_mass_matrix(sq, su).to_dense())
        # potentials: (space index, component count, points id)
        self.points = [np.array([[2.0, 0.1, 0.3], [0.1, 2.2, 0.05], [0.3, -2, 1]]).T,
                       np.array([[2.0, 0.1, 0.3], [0.1, 2.2, 0.05], [0.3, -2, 1.5]]).T]
        self.patoms = []
        for (s, c, p) in [(0, 1, 0), (0, 1, 0), (1, 1, 0), (0, 1, 1), (0, 3, 0), (0, 3, 0)]:
            npts = self.points[p].shape[1]
            m = r.integers(-3, 4, size=(c * npts, self.spaces[s].global_dof_count)).astype("float64")
            ev = StubEvaluator(self.spaces[s], self.points[p].copy(), c, m)
            self.patoms.append((PotentialOperator(ev), (s, c, p), m))

    def env_json(self):
        return {
            "dims": {str(k): v for k, v in self.dim.items()},
            "atoms": [{"spaces": [self.sid[x] for x in t], "mat": mat_q(m)} for _, t, m in self.atoms[:self.nprog]],
            "invmass": [{"range": k[0], "dual": k[1], "mat": mat_q(m)} for k, m in self.invmass.items()],
            "mass": [{"range": k[0], "dual": k[1], "mat": mat_q(m)} for k, m in self.mass.items()],
            "patoms": [{"type": [self.sid[t[0]], t[1], t[2]], "mat": mat_q(m)} for _, t, m in self.patoms],
        }


SCALARS = [("2", 2), ("-1.5", -1.5), ("0.5", 0.5), ("1+2j", 1 + 2j), ("np.float64(3)", np.float64(3.0)),
           ("np.complex128(0.5-1j)", np.complex128(0.5 - 1j)), ("np.float32(0.25)", np.float32(0.25)),
           ("np.int64(-2)", np.int64(-2)), ("True", True)]


def gen_expr(r, natoms, depth):
    """Random user expression as nested lists: ['atom', i] | ['add', a, b] | ['sub', a, b] | ['neg', a] |
    ['scall', k, a] | ['scalr', a, k] | ['mul', a, b] | ['matmul', a, b]"""
    if depth == 0 or r.random() < 0.25:
        return ["atom", int(r.integers(0, natoms))]
    k = r.choice(["add", "sub", "neg", "scall", "scalr", "mul", "matmul"], p=[.22, .12, .1, .12, .1, .24, .1])
    if k in ("add", "sub", "mul", "matmul"):
        return [str(k), gen_expr(r, natoms, depth - 1), gen_expr(r, natoms, depth - 1)]
    if k == "neg":
        return ["neg", gen_expr(r, natoms, depth - 1)]
    s = int(r.integers(0, len(SCALARS)))
    return ["scall", s, gen_expr(r, natoms, depth - 1)] if k == "scall" else ["scalr", gen_expr(r, natoms, depth - 1), s]


def build(w, e, pool):
    k = e[0]
    if k == "atom":
        return pool[e[1]][0]
    if k == "add":
        return build(w, e[1], pool) + build(w, e[2], pool)
    if k == "sub":
        return build(w, e[1], pool) - build(w, e[2], pool)
    if k == "neg":
        return -build(w, e[1], pool)
    if k == "scall":
        return SCALARS[e[1]][1] * build(w, e[2], pool)
    if k == "scalr":
        return build(w, e[1], pool) * SCALARS[e[2]][1]
    if k == "mul":
        return build(w, e[1], pool) * build(w, e[2], pool)
    if k == "matmul":
        return build(w, e[1], pool) @ build(w, e[2], pool)
    raise ValueError(k)


class IllTyped(Exception):
    pass


def ref(w, e):
    """Independent reference: (space-id triple, dense matrix) by the rules of the property; IllTyped otherwise."""
    k = e[0]
    if k == "atom":
        _, t, m = w.atoms[e[1]]
        return tuple(w.sid[x] for x in t), np.asarray(m, dtype=complex)
    if k in ("add", "sub"):
        (t1, m1), (t2, m2) = ref(w, e[1]), ref(w, e[2])
        if t1 != t2:
            raise IllTyped()
        return t1, m1 + m2 if k == "add" else m1 - m2
    if k == "neg":
        t, m = ref(w, e[1])
        return t, -m
    if k == "scall":
        t, m = ref(w, e[2])
        return t, complex(SCALARS[e[1]][1]) * m
    if k == "scalr":
        t, m = ref(w, e[1])
        return t, complex(SCALARS[e[2]][1]) * m
    if k in ("mul", "matmul"):
        (t1, m1), (t2, m2) = ref(w, e[1]), ref(w, e[2])
        if t2[1] != t1[0]:
            raise IllTyped()
        return (t2[0], t1[1], t1[2]), m1 @ (w.invmass[(t2[1], t2[2])] @ m2)
    raise ValueError(k)


def show(e):
    k = e[0]
    if k == "atom":
        return "A%d" % e[1]
    if k in ("add", "sub", "mul", "matmul"):
        return "(%s %s %s)" % (show(e[1]), {"add": "+", "sub": "-", "mul": "*", "matmul": "@"}[k], show(e[2]))
    if k == "neg":
        return "(-%s)" % show(e[1])
    if k == "scall":
        return "(%s * %s)" % (SCALARS[e[1]][0], show(e[2]))
    return "(%s * %s)" % (show(e[1]), SCALARS[e[2]][0])


def size(e):
    return 1 + sum(size(x) for x in e[1:] if isinstance(x, list))


def shrink(e, bad):
    """Smallest subtree (by size) on which `bad` still holds."""
    best = e
    todo = [x for x in e[1:] if isinstance(x, list)]
    while todo:
        s = todo.pop()
        try:
            if bad(s) and size(s) < size(best):
                best = s
        except Exception:
            pass
        todo.extend(x for x in s[1:] if isinstance(x, list))
    return best


def close(a, b):
    a, b = np.asarray(a), np.asarray(b)
    if a.shape != b.shape:
        return False
    return float(np.max(np.abs(a - b))) <= TOL * max(1.0, float(np.max(np.abs(b)))) if a.size else True


def boundary_programs(w, out, n, depth, ncoq):
    fails = out["failures"]
    r = w.r
    for idx in range(n):
        e = gen_expr(r, w.nprog, depth if idx >= ncoq else min(depth, 3))
        out["evaluations"] += 1
        try:
            t, m = ref(w, e)
            typed = True
        except IllTyped:
            typed, t, m = False, None, None
        obs = observe_boundary(w, e)
        case = {"expr": e, "show": show(e), "typed": typed, "result": obs["result"]}
        if obs["result"] == "ok":
            case["mat"] = mat_q(obs["dense"])
        if idx < ncoq:
            out["cases"].append(case)
        kind = classify_boundary(w, e, typed, t, m, obs)
        if kind is None:
            # no aliasing: evaluating an expression must leave the weak forms of all operands as they were
            for k in sorted(set(_atoms_of(e))):
                if not close(np.asarray(w.atoms[k][0].weak_form().to_dense()), w.pristine[k]):
                    kind = "evaluating-the-expression-changed-the-weak-form-of-an-operand"
        if kind:
            small = shrink(e, lambda s: classify_boundary(w, s, *_ref_or_none(w, s), observe_boundary(w, s)) == kind)
            fails.append({"signature": "C14:boundary-algebra:" + kind, "what": "expression %s: %s" % (show(small), kind),
                          "data": {"expr": show(small), "from": show(e), "observed": observe_boundary(w, small)["result"]}})
    out["hist"]["boundary_typed"] = sum(1 for c in out["cases"] if c["typed"])
    out["hist"]["boundary_illtyped"] = sum(1 for c in out["cases"] if not c["typed"])


def _ref_or_none(w, e):
    try:
        t, m = ref(w, e)
        return True, t, m
    except IllTyped:
        return False, None, None


def observe_boundary(w, e):
    obs = {}
    try:
        op = build(w, e, w.atoms)
        wf = op.weak_form()
        obs["dense"] = np.asarray(wf.to_dense())
        obs["result"] = "ok"
        obs["op"], obs["wf"] = op, wf
    except Exception as ex:
        obs["result"] = type(ex).__name__
        obs["message"] = str(ex)[:120]
    return obs


def classify_boundary(w, e, typed, t, m, obs):
    """None when the observation agrees with the property, else a short failure class."""
    if not typed:
        if obs["result"] == "ok":
            return "incompatible-spaces-accepted"
        if obs["result"] != "ValueError":
            return "incompatible-spaces-raise-%s-instead-of-ValueError" % obs["result"]
        return None
    if obs["result"] != "ok":
        return "compatible-operands-raise-%s" % obs["result"]
    op, wf = obs["op"], obs["wf"]
    got_t = tuple(w.sid[[i for i, s in enumerate(w.spaces) if s is x or s == x][0]]
                  for x in (op.domain, op.range, op.dual_to_range))
    if got_t != t:
        return "result-spaces-differ"
    if not close(obs["dense"], m):
        return "weak-form-differs-from-matrix-expression"
    if op.weak_form() is not wf:
        return "weak_form-not-cached"
    # matvec / matmat agree with to_dense, real operators split complex vectors
    r = w.r
    x = r.standard_normal(m.shape[1]) + 1j * r.standard_normal(m.shape[1])
    X = r.standard_normal((m.shape[1], 2)) + 1j * r.standard_normal((m.shape[1], 2))
    for name, arg in (("matvec-real", x.real.copy()), ("matvec-complex", x), ("matmat-real", X.real.copy()),
                      ("matmat-complex", X)):
        try:
            y = wf @ arg
        except Exception as ex:
            return "%s-raises-%s" % (name, type(ex).__name__)
        if not close(np.asarray(y), m @ arg):
            return "%s-differs-from-to_dense" % name
    # strong form
    try:
        sf = np.asarray(op.strong_form().to_dense())
    except Exception as ex:
        return "strong_form-raises-%s" % type(ex).__name__
    if not close(sf, w.invmass[(t[1], t[2])] @ m):
        return "strong_form-differs"
    # operator * function
    dom = [s for i, s in enumerate(w.spaces) if w.sid[i] == t[0]][0]
    c = r.integers(-4, 5, size=m.shape[1]).astype(float) + (1j * r.integers(-2, 3, size=m.shape[1]) if r.random() < .5 else 0)
    try:
        gf = op * api.GridFunction(dom, coefficients=c)
        if not close(gf.projections(), m @ c):
            return "operator-times-function-projections-differ"
        if not (gf.space == op.range and gf.dual_space == op.dual_to_range):
            return "operator-times-function-spaces-differ"
    except Exception as ex:
        return "operator-times-function-raises-%s" % type(ex).__name__
    other = [s for i, s in enumerate(w.spaces) if w.sid[i] != t[0]][0]
    try:
        op * api.GridFunction(other, coefficients=np.ones(other.global_dof_count))
        return "operator-times-function-of-foreign-space-accepted"
    except ValueError:
        pass
    except Exception as ex:
        return "operator-times-function-of-foreign-space-raises-%s" % type(ex).__name__
    return None


# ---- potentials -------------------------------------------------------------------------------------------------
def gen_pexpr(r, natoms, depth):
    if depth == 0 or r.random() < 0.3:
        return ["atom", int(r.integers(0, natoms))]
    k = r.choice(["add", "sub", "neg", "scall", "scalr"], p=[.35, .2, .15, .15, .15])
    if k in ("add", "sub"):
        return [str(k), gen_pexpr(r, natoms, depth - 1), gen_pexpr(r, natoms, depth - 1)]
    if k == "neg":
        return ["neg", gen_pexpr(r, natoms, depth - 1)]
    s = int(r.integers(0, len(SCALARS)))
    return ["scall", s, gen_pexpr(r, natoms, depth - 1)] if k == "scall" else ["scalr", gen_pexpr(r, natoms, depth - 1), s]


def pref(w, e):
    k = e[0]
    if k == "atom":
        _, t, m = w.patoms[e[1]]
        return (w.sid[t[0]], t[1], t[2]), np.asarray(m, dtype=complex)
    if k in ("add", "sub"):
        (t1, m1), (t2, m2) = pref(w, e[1]), pref(w, e[2])
        if t1 != t2:
            raise IllTyped()
        return t1, m1 + m2 if k == "add" else m1 - m2
    if k == "neg":
        t, m = pref(w, e[1])
        return t, -m
    if k == "scall":
        t, m = pref(w, e[2])
        return t, complex(SCALARS[e[1]][1]) * m
    t, m = pref(w, e[1])
    return t, complex(SCALARS[e[2]][1]) * m


def has_sum(e):
    return e[0] in ("add", "sub") or any(has_sum(x) for x in e[1:] if isinstance(x, list))


def potential_programs(w, out, n, depth):
    fails, r = out["failures"], w.r
    for idx in range(n):
        e = gen_pexpr(r, len(w.patoms), depth)
        out["evaluations"] += 1
        try:
            t, m = pref(w, e)
            typed = True
        except IllTyped:
            typed, t, m = False, None, None
        sp = w.spaces[[i for i in range(len(w.spaces)) if w.sid[i] == (t[0] if typed else 0)][0]]
        c = r.integers(-4, 5, size=sp.global_dof_count).astype(float)
        f = api.GridFunction(sp, coefficients=c)
        case = {"expr": e, "show": show(e).replace("A", "P"), "typed": typed, "coef": [cq(x) for x in c]}
        try:
            op = build(w, e, w.patoms)
            val = op * f
            case["result"] = "ok"
            case["vec"] = [cq(x) for x in np.asarray(val).ravel()]
            ok = typed and close(np.asarray(val).ravel(), m @ c)
            meta_ok = True
            if typed:
                try:
                    meta_ok = (op.space == sp and op.component_count == t[1]
                               and np.array_equal(op.evaluation_points, w.points[t[2]]))
                except Exception as ex:
                    meta_ok = False
                    case["meta_exc"] = type(ex).__name__
                    case["message"] = str(ex)[:120]
        except Exception as ex:
            case["result"] = type(ex).__name__
            case["message"] = str(ex)[:120]
            ok = (not typed) and case["result"] == "ValueError"
            meta_ok = True
        out["pcases"].append(case)
        if not ok or not meta_ok:
            import re as _re
            msg = case.get("message") or ""
            attr = _re.search(r"has no attribute '(\w+)'", msg)
            if (case["result"] == "AttributeError" or case.get("meta_exc") == "AttributeError") and attr:
                # one signature per missing name, whatever the expression around it
                sig = "C14:potential-algebra:AttributeError-no-attribute-%s" % attr.group(1)
                what = ("combining potential operators raises AttributeError: %s (potential_operator.py: "
                        "_SumPotentialOperator.__init__ calls _is__compatible; _Scaled/_SumPotentialOperator."
                        "evaluation_points read .points)" % msg)
            elif typed and case["result"] == "ok" and not meta_ok:
                sig, what = ("C14:potential-algebra:properties-of-result-raise-%s" % case.get("meta_exc", "wrong-value"),
                             "space/component_count/evaluation_points of the combined potential operator are wrong or raise")
            elif typed and case["result"] == "ok":
                sig, what = "C14:potential-algebra:value-differs", "potential expression evaluates to different numbers"
            elif typed:
                sig, what = ("C14:potential-algebra:compatible-operands-raise-%s" % case["result"],
                             "potential expression of compatible operands raises")
            elif case["result"] == "ok":
                sig, what = "C14:potential-algebra:incompatible-operands-accepted", "incompatible potentials are combined"
            else:
                sig, what = ("C14:potential-algebra:incompatible-operands-raise-%s-instead-of-ValueError" % case["result"],
                             "incompatible potential operators are rejected with the wrong exception")
            fails.append({"signature": sig, "what": what,
                          "data": {"expr": case["show"], "result": case["result"], "message": case.get("message")}})
    # the scaled operator's evaluation_points
    out["evaluations"] += 1
    try:
        pts = (2.0 * w.patoms[0][0]).evaluation_points
        if not np.array_equal(pts, w.points[0]):
            fails.append({"signature": "C14:potential-algebra:scaled.evaluation_points-wrong", "what": "wrong points",
                          "data": {}})
    except AttributeError as ex:
        import re as _re
        attr = _re.search(r"has no attribute '(\w+)'", str(ex))
        fails.append({"signature": "C14:potential-algebra:AttributeError-no-attribute-%s" % (attr.group(1) if attr else "?"),
                      "what": "(alpha * potential).evaluation_points raises AttributeError: %s" % str(ex)[:100],
                      "data": {"expr": "(2.0 * P0).evaluation_points"}})
    except Exception as ex:
        fails.append({"signature": "C14:potential-algebra:scaled.evaluation_points-raises-%s" % type(ex).__name__,
                      "what": "(alpha * potential).evaluation_points raises %s: %s" % (type(ex).__name__, str(ex)[:100]),
                      "data": {"expr": "(2.0 * P0).evaluation_points"}})


# ---- discrete operators ----------------------------------------------------------------------------------------
def discrete_pool(w):
    from scipy.sparse import csc_matrix, diags
    r = w.r
    n = 4

    class Ev:
        def __init__(self, m):
            self.m, self.shape, self.dtype = m, m.shape, m.dtype

        def matvec(self, x):
            return self.m @ x
    pool = []
    a = r.integers(-3, 4, (n, n)).astype(float)
    b = r.integers(-3, 4, (n, n)) + 1j * r.integers(-3, 4, (n, n))
    s = r.integers(-2, 3, (n, n)).astype(float) * (r.random((n, n)) < .5)
    d = r.integers(1, 5, n).astype(float)
    pool.append(("DenseReal", dbo.DenseDiscreteBoundaryOperator(a), a))
    pool.append(("DenseComplex", dbo.DenseDiscreteBoundaryOperator(b), b))
    pool.append(("Sparse", dbo.SparseDiscreteBoundaryOperator(csc_matrix(s)), s))
    pool.append(("Diagonal", dbo.DiagonalOperator(d), np.diag(d)))
    pool.append(("Zero", dbo.ZeroDiscreteBoundaryOperator(n, n), np.zeros((n, n))))
    col, row = r.integers(-2, 3, n).astype(float), r.integers(-2, 3, n) + 1j * r.integers(-2, 3, n)
    pool.append(("RankOne", dbo.DiscreteRankOneOperator(col, row), np.outer(col, row)))
    pool.append(("GenericReal", dbo.GenericDiscreteBoundaryOperator(Ev(a.copy())), a))
    pool.append(("GenericComplex", dbo.GenericDiscreteBoundaryOperator(Ev(b.copy())), b))
    sp = diags([2.0, 3.0, 4.0, 5.0]).tocsc() + csc_matrix(np.triu(np.ones((n, n)), 1) * 0.5)
    pool.append(("InverseSparse", dbo.InverseSparseDiscreteBoundaryOperator(dbo.SparseDiscreteBoundaryOperator(sp)),
                 np.linalg.inv(sp.toarray())))
    h = n // 2
    blocks = np.empty((2, 2), dtype=object)
    blocks[0, 0] = dbo.DenseDiscreteBoundaryOperator(a[:h, :h].copy())
    blocks[1, 1] = dbo.SparseDiscreteBoundaryOperator(csc_matrix(s[h:, h:]))
    blocks[1, 0] = dbo.DenseDiscreteBoundaryOperator(b[h:, :h].copy())
    ref_b = np.zeros((n, n), dtype=complex)
    ref_b[:h, :h], ref_b[h:, h:], ref_b[h:, :h] = a[:h, :h], s[h:, h:], b[h:, :h]
    pool.append(("Blocked", blk.BlockedDiscreteOperator(blocks), ref_b))
    g = blk.GeneralizedDiscreteBlockedOperator(
        [[dbo.DenseDiscreteBoundaryOperator(a[:h, :h].copy()), dbo.DenseDiscreteBoundaryOperator(b[:h, h:].copy())],
         [dbo.SparseDiscreteBoundaryOperator(csc_matrix(s[h:, :h])), dbo.DiagonalOperator(d[h:].copy())]])
    ref_g = np.zeros((n, n), dtype=complex)
    ref_g[:h, :h], ref_g[:h, h:], ref_g[h:, :h], ref_g[h:, h:] = a[:h, :h], b[:h, h:], s[h:, :h], np.diag(d[h:])
    pool.append(("GeneralizedBlocked", g, ref_g))
    return pool


def gen_dexpr(r, npool, depth):
    if depth == 0 or r.random() < 0.25:
        return ["atom", int(r.integers(0, npool))]
    k = r.choice(["add", "sub", "neg", "scall", "scalr", "mul", "matmul", "T", "H"],
                 p=[.2, .1, .08, .1, .1, .2, .1, .06, .06])
    if k in ("add", "sub", "mul", "matmul"):
        return [str(k), gen_dexpr(r, npool, depth - 1), gen_dexpr(r, npool, depth - 1)]
    if k in ("neg", "T", "H"):
        return [str(k), gen_dexpr(r, npool, depth - 1)]
    s = int(r.integers(0, len(SCALARS)))
    return ["scall", s, gen_dexpr(r, npool, depth - 1)] if k == "scall" else ["scalr", gen_dexpr(r, npool, depth - 1), s]


def dbuild(pool, e):
    k = e[0]
    if k == "atom":
        return pool[e[1]][1], np.asarray(pool[e[1]][2], dtype=complex)
    if k in ("add", "sub", "mul", "matmul"):
        (a, ma), (b, mb) = dbuild(pool, e[1]), dbuild(pool, e[2])
        if k == "add":
            return a + b, ma + mb
        if k == "sub":
            return a - b, ma - mb
        if k == "mul":
            return a * b, ma @ mb
        return a @ b, ma @ mb
    if k == "neg":
        a, ma = dbuild(pool, e[1])
        return -a, -ma
    if k == "T":
        a, ma = dbuild(pool, e[1])
        return a.T, ma.T
    if k == "H":
        a, ma = dbuild(pool, e[1])
        return a.H, ma.conj().T
    if k == "scall":
        a, ma = dbuild(pool, e[2])
        return SCALARS[e[1]][1] * a, complex(SCALARS[e[1]][1]) * ma
    a, ma = dbuild(pool, e[1])
    return a * SCALARS[e[2]][1], complex(SCALARS[e[2]][1]) * ma


def dshow(pool, e):
    k = e[0]
    if k == "atom":
        return pool[e[1]][0]
    if k in ("add", "sub", "mul", "matmul"):
        return "(%s %s %s)" % (dshow(pool, e[1]), {"add": "+", "sub": "-", "mul": "*", "matmul": "@"}[k], dshow(pool, e[2]))
    if k == "neg":
        return "(-%s)" % dshow(pool, e[1])
    if k in ("T", "H"):
        return "%s.%s" % (dshow(pool, e[1]), k)
    if k == "scall":
        return "(%s * %s)" % (SCALARS[e[1]][0], dshow(pool, e[2]))
    return "(%s * %s)" % (dshow(pool, e[1]), SCALARS[e[2]][0])


def dclassify(pool, e, r):
    try:
        op, m = dbuild(pool, e)
    except NotImplementedError:
        return None          # transposes of composite / blocked operators are documented as not implemented
    except Exception as ex:
        return "construction-raises-%s" % type(ex).__name__
    if not isinstance(op, dbo._DiscreteOperatorBase):
        if hasattr(op, "shape") and hasattr(op, "matvec"):
            # a plain scipy LinearOperator (e.g. transpose wrappers): only the action is promised
            pass
        else:
            return "result-is-%s" % type(op).__name__
    x = r.standard_normal(m.shape[1]) + 1j * r.standard_normal(m.shape[1])
    X = r.standard_normal((m.shape[1], 3)) + 1j * r.standard_normal((m.shape[1], 3))
    if hasattr(op, "to_dense"):
        try:
            d = np.asarray(op.to_dense())
            if not close(d, m):
                return "to_dense-differs"
        except NotImplementedError:
            pass
        except Exception as ex:
            return "to_dense-raises-%s" % type(ex).__name__
    for name, arg in (("matvec-real", x.real.copy()), ("matvec-complex", x), ("matmat-real", X.real.copy()),
                      ("matmat-complex", X), ("matvec-column", x.reshape(-1, 1))):
        try:
            y = np.asarray(op @ arg)
        except NotImplementedError:
            if _has_transpose(e):
                return "transpose-or-adjoint-of-operator-class-without-_adjoint-raises-NotImplementedError-when-applied"
            return "%s-raises-NotImplementedError" % name
        except Exception as ex:
            return "%s-raises-%s" % (name, type(ex).__name__)
        if not close(y, m @ arg):
            return "%s-differs" % name
    return None


def discrete_programs(w, out, n, depth):
    pool = discrete_pool(w)
    r = w.r
    for _ in range(n):
        e = gen_dexpr(r, len(pool), depth)
        out["evaluations"] += 1
        kind = dclassify(pool, e, r)
        if kind:
            small = shrink(e, lambda s: dclassify(pool, s, r) == kind)
            cls = sorted({pool[i][0] for i in _atoms_of(small)})
            if small[0] in ("T", "H"):
                try:
                    cls = ["transposed: " + type(dbuild(pool, small[1])[0]).__name__]
                except Exception:
                    pass
            out["failures"].append({"signature": "C14:discrete-algebra:%s" % kind,
                                    "what": "discrete operator expression %s: %s" % (dshow(pool, small), kind),
                                    "data": {"expr": dshow(pool, small), "classes": cls}})


def _has_transpose(e):
    return e[0] in ("T", "H") or any(_has_transpose(x) for x in e[1:] if isinstance(x, list))


def _atoms_of(e):
    if e[0] == "atom":
        return [e[1]]
    return [a for x in e[1:] if isinstance(x, list) for a in _atoms_of(x)]


def _shape_of(e):
    """Expression skeleton with atoms replaced by their class names (the 'input class' of a signature)."""
    return e[0] if e[0] != "atom" else "op"


# ---- blocked operators and pack / unpack --------------------------------------------------------------------------
def blocked_checks(w, out):
    fails, r = out["failures"], w.r
    sp = w.spaces
    A = {k: w.atoms[k][0] for k in range(len(w.atoms))}
    M = {k: np.asarray(w.atoms[k][2], dtype=complex) for k in range(len(w.atoms))}

    def rec(sig, what, data):
        fails.append({"signature": sig, "what": what, "data": data})

    def attempt(sig_prefix, fn):
        out["evaluations"] += 1
        try:
            return fn()
        except Exception as ex:
            rec("%s-raises-%s" % (sig_prefix, type(ex).__name__), "%s: %s" % (type(ex).__name__, str(ex)[:120]),
                {"trace": traceback.format_exc()[-400:]})
            return None
    # B1: 2x2, all spaces P1 / duals P1 (equal dimensions);  B2: range P1, dual DP0 rows (dims equal on the tetrahedron,
    # so use grid 2: P1 has 6 dofs, DP0 has 8)
    B1 = api.BlockedOperator(2, 2)
    B1[0, 0], B1[0, 1], B1[1, 1] = A[0], A[7], A[0]
    ref1 = np.block([[M[0], M[7]], [np.zeros_like(M[0]), M[0]]])
    wf = attempt("C14:blocked:weak_form", lambda: np.asarray(B1.weak_form().to_dense()))
    if wf is not None and not close(wf, ref1):
        rec("C14:blocked:weak_form-differs", "BlockedOperator.weak_form differs from the block matrix", {})
    S = attempt("C14:blocked:sum", lambda: np.asarray((B1 + B1).weak_form().to_dense()))
    if S is not None and not close(S, 2 * ref1):
        rec("C14:blocked:sum-differs", "sum of blocked operators differs", {})
    Sc = attempt("C14:blocked:scaled", lambda: np.asarray((B1 * 2.5).weak_form().to_dense()))
    if Sc is not None and not close(Sc, 2.5 * ref1):
        rec("C14:blocked:scaled-differs", "scaled blocked operator differs", {})
    Sc2 = attempt("C14:blocked:rscaled", lambda: np.asarray((np.float64(2.0) * B1).weak_form().to_dense()))
    if Sc2 is not None and not close(Sc2, 2.0 * ref1):
        rec("C14:blocked:rscaled-differs", "numpy-scalar * blocked operator differs", {})
    Ng = attempt("C14:blocked:neg", lambda: np.asarray((-B1).weak_form().to_dense()))
    if Ng is not None and not close(Ng, -ref1):
        rec("C14:blocked:neg-differs", "negated blocked operator differs", {})
    Df = attempt("C14:blocked:sub", lambda: np.asarray((B1 - B1).weak_form().to_dense()))
    if Df is not None and not close(Df, 0 * ref1):
        rec("C14:blocked:sub-differs", "difference of blocked operators differs", {})
    im = w.invmass[(w.sid[0], w.sid[0])]
    Im = np.block([[im, 0 * im], [0 * im, im]])
    P = attempt("C14:blocked:product", lambda: np.asarray((B1 * B1).weak_form().to_dense()))
    if P is not None and not close(P, ref1 @ (Im @ ref1)):
        rec("C14:blocked:product-differs", "product of blocked operators is not W1 M^-1 W2", {})
    St = attempt("C14:blocked:strong_form", lambda: np.asarray(B1.strong_form().to_dense()))
    if St is not None and not close(St, Im @ ref1):
        rec("C14:blocked:strong_form-differs", "strong form of a blocked operator is not M^-1 W", {})
    # foreign operand: must be rejected (TypeError via NotImplemented), not answered with an object
    out["evaluations"] += 1
    try:
        res = B1 + 3
        rec("C14:blocked:add-foreign-operand-returns-%s" % (res.__name__ if isinstance(res, type) else type(res).__name__),
            "BlockedOperator + 3 returns %r instead of raising" % (res,), {"expr": "BlockedOperator + 3"})
    except TypeError:
        pass
    except Exception as ex:
        rec("C14:blocked:add-foreign-operand-raises-%s" % type(ex).__name__, str(ex)[:100], {})
    # incompatible spaces must be rejected
    B3 = api.BlockedOperator(2, 2)
    B3[0, 0], B3[1, 1] = A[6], A[6]
    out["evaluations"] += 1
    try:
        (B1 + B3).weak_form()
        rec("C14:blocked:sum-of-incompatible-accepted", "blocked operators on different spaces are added", {})
    except ValueError:
        pass
    except Exception as ex:
        rec("C14:blocked:sum-of-incompatible-raises-%s" % type(ex).__name__, str(ex)[:100], {})
    out["evaluations"] += 1
    try:
        (B1 * B3).weak_form()
        rec("C14:blocked:product-of-incompatible-accepted", "blocked operators on different spaces are multiplied", {})
    except ValueError:
        pass
    except Exception as ex:
        rec("C14:blocked:product-of-incompatible-raises-%s" % type(ex).__name__, str(ex)[:100], {})
    # B * [f, g] with equal and with different primal/dual dimensions
    for name, (k00, dims_equal) in {"dual-dofs-equal-range-dofs": (0, True), "dual-dofs-differ-from-range-dofs": (9, False)}.items():
        op = A[k00]
        d, q, u = w.atoms[k00][1]
        B = api.BlockedOperator(2, 2)
        B[0, 0], B[1, 1] = op, op
        nd = sp[d].global_dof_count
        c1, c2 = r.integers(-3, 4, nd).astype(float), r.integers(-3, 4, nd).astype(float)
        fs = [api.GridFunction(sp[d], coefficients=c1), api.GridFunction(sp[d], coefficients=c2)]
        out["evaluations"] += 1
        try:
            res = B * fs
            want = [M[k00] @ c1, M[k00] @ c2]
            lens = [len(x.projections()) for x in res]
            if lens != [len(x) for x in want]:
                rec("C14:blocked:apply-to-function-list:projections-sliced-by-range-dofs[%s]" % name,
                    "BlockedOperator * [f, g] returns projection vectors of length %s (range dof count) instead of %s "
                    "(dual_to_range dof count)" % (lens, [len(x) for x in want]),
                    {"range_dofs": int(sp[q].global_dof_count), "dual_dofs": int(sp[u].global_dof_count), "lengths": lens})
            elif not all(close(x.projections(), y) for x, y in zip(res, want)):
                rec("C14:blocked:apply-to-function-list:values-differ[%s]" % name, "projections differ", {})
        except Exception as ex:
            rec("C14:blocked:apply-to-function-list-raises-%s[%s]" % (type(ex).__name__, name), str(ex)[:120], {})
    # pack / unpack
    fs = [api.GridFunction(sp[0], coefficients=r.integers(-3, 4, 4).astype(float)),
          api.GridFunction(sp[2], coefficients=r.integers(-3, 4, 6) + 1j * r.integers(-3, 4, 6))]
    out["evaluations"] += 1
    vec = blk.coefficients_from_grid_functions_list(fs)
    back = blk.grid_function_list_from_coefficients(vec, [sp[0], sp[2]])
    if not (len(vec) == 10 and all(close(a.coefficients, b.coefficients) for a, b in zip(fs, back))):
        rec("C14:blocked:pack-unpack-coefficients-not-inverse", "coefficient packing is not inverted by unpacking", {})
    out["evaluations"] += 1
    duals = [sp[1], sp[4]]        # DP0 on grid 1 (4 dofs), DP0 on grid 2 (8 dofs); primal P1: 4 and 6
    try:
        pv = blk.projections_from_grid_functions_list(fs, duals)
        gl = blk.grid_function_list_from_projections(pv, [sp[0], sp[2]], duals)
        lens = [len(g.projections()) for g in gl]
        want = [int(s.global_dof_count) for s in duals]
        if lens != want:
            rec("C14:blocked:grid_function_list_from_projections:sliced-by-primal-dofs",
                "grid_function_list_from_projections cuts the projection vector at the primal dof counts %s instead of the "
                "dual ones %s" % (lens, want), {"lengths": lens, "dual_dofs": want})
        elif not all(close(g.projections(), f.projections(d)) for g, f, d in zip(gl, fs, duals)):
            rec("C14:blocked:pack-unpack-projections-not-inverse", "projection packing is not inverted", {})
    except Exception as ex:
        rec("C14:blocked:pack-unpack-projections-raises-%s" % type(ex).__name__, str(ex)[:120], {})


# ---- grid functions ----------------------------------------------------------------------------------------------
def gridfun_checks(w, out, n):
    fails, r = out["failures"], w.r
    sp = w.spaces

    def mk(s, dual, rep, cplx):
        nd = sp[s].global_dof_count
        c = r.integers(-4, 5, nd).astype(float) + (1j * r.integers(-3, 4, nd) if cplx else 0)
        if rep == "coef":
            return api.GridFunction(sp[s], dual_space=sp[dual], coefficients=c), c
        p = np.asarray(get_mass_matrix(sp[s], sp[dual]).to_dense()) @ c
        return api.GridFunction(sp[s], dual_space=sp[dual], projections=p), c
    for _ in range(n):
        out["evaluations"] += 1
        s1, s2 = (0, 0) if r.random() < .7 else (0, int(r.choice([1, 2])))
        d1, d2 = int(r.choice([0, 1])), int(r.choice([0, 1]))
        f, cf = mk(s1, d1 if s1 == 0 else s1, r.choice(["coef", "proj"]), r.random() < .4)
        g, cg = mk(s2, d2 if s2 == 0 else s2, r.choice(["coef", "proj"]), r.random() < .4)
        k = int(r.integers(0, len(SCALARS)))
        alpha = SCALARS[k][1]
        tests = [("add", lambda: f + g, lambda: cf + cg, s1 == s2), ("sub", lambda: f - g, lambda: cf - cg, s1 == s2),
                 ("neg", lambda: -f, lambda: -cf, True), ("scalr", lambda: f * alpha, lambda: complex(alpha) * cf, True),
                 ("scall", lambda: alpha * f, lambda: complex(alpha) * cf, True),
                 ("div", lambda: f / alpha, lambda: cf / complex(alpha), True)]
        for name, fn, want, typed in tests:
            try:
                res = fn()
                if not typed:
                    fails.append({"signature": "C14:grid-function:%s-of-different-spaces-accepted" % name,
                                  "what": "grid functions on different spaces are combined", "data": {}})
                    continue
                if not isinstance(res, api.GridFunction):
                    fails.append({"signature": "C14:grid-function:%s-returns-%s" % (name, type(res).__name__),
                                  "what": "result is not a GridFunction", "data": {"scalar": SCALARS[k][0]}})
                    continue
                if not (res.space == f.space and close(res.coefficients, want())):
                    fails.append({"signature": "C14:grid-function:%s-coefficients-differ" % name,
                                  "what": "coefficients of the result differ from the vector expression",
                                  "data": {"scalar": SCALARS[k][0], "rep": [f.representation, g.representation]}})
            except ValueError as ex:
                if typed:
                    fails.append({"signature": "C14:grid-function:%s-raises-ValueError" % name, "what": str(ex)[:100],
                                  "data": {"scalar": SCALARS[k][0]}})
            except Exception as ex:
                fails.append({"signature": "C14:grid-function:%s-raises-%s" % (name, type(ex).__name__),
                              "what": str(ex)[:100], "data": {"scalar": SCALARS[k][0], "typed": typed}})


# ---- grid-function expressions for the correspondence with Algebra/GfLang.v ------------------------------------------------
def gf_correspondence(w, out, n):
    r, sp = w.r, w.spaces
    for q in (0, 1):
        for u_ in (0, 1):
            key = (w.sid[q], w.sid[u_])
            if key not in w.invmass:
                w.invmass[key] = np.asarray(get_inverse_mass_matrix(sp[q], sp[u_]).to_dense())
                w.mass[key] = np.asarray(get_mass_matrix(sp[q], sp[u_]).to_dense())
    specs = []
    for (s, d, rep, cplx) in [(0, 0, "coef", False), (0, 1, "proj", False), (0, 0, "proj", True), (0, 1, "proj", True),
                              (0, 1, "coef", False), (1, 1, "proj", False), (1, 0, "proj", False), (2, 2, "coef", False),
                              (0, 0, "proj", False), (1, 1, "coef", True)]:
        nd = sp[s].global_dof_count if rep == "coef" else sp[d].global_dof_count
        v = r.integers(-4, 5, nd).astype(float) + (1j * r.integers(-3, 4, nd) if cplx else 0)
        specs.append({"space": s, "dual": d, "rep": rep, "vec": v})
    out["gf_atoms"] = [{"space": w.sid[a["space"]], "dual": w.sid[a["dual"]], "rep": a["rep"],
                        "vec": [cq(x) for x in a["vec"]]} for a in specs]

    def fresh(i):
        a = specs[i]
        if a["rep"] == "coef":
            return api.GridFunction(sp[a["space"]], dual_space=sp[a["dual"]], coefficients=a["vec"].copy())
        return api.GridFunction(sp[a["space"]], dual_space=sp[a["dual"]], projections=a["vec"].copy())

    def gen(depth):
        if depth == 0 or r.random() < 0.3:
            return ["atom", int(r.integers(0, len(specs)))]
        k = r.choice(["add", "sub", "neg", "scall", "scalr", "div"], p=[.35, .25, .1, .1, .1, .1])
        if k in ("add", "sub"):
            return [str(k), gen(depth - 1), gen(depth - 1)]
        if k == "neg":
            return ["neg", gen(depth - 1)]
        return [str(k), int(r.integers(0, 6)), gen(depth - 1)]

    def ev(e):
        k = e[0]
        if k == "atom":
            return fresh(e[1])
        if k == "add":
            return ev(e[1]) + ev(e[2])
        if k == "sub":
            return ev(e[1]) - ev(e[2])
        if k == "neg":
            return -ev(e[1])
        a = SCALARS[e[1]][1]
        if k == "scall":
            return a * ev(e[2])
        if k == "scalr":
            return ev(e[2]) * a
        return ev(e[2]) / a

    def gshow(e):
        k = e[0]
        if k == "atom":
            return "f%d" % e[1]
        if k in ("add", "sub"):
            return "(%s %s %s)" % (gshow(e[1]), "+" if k == "add" else "-", gshow(e[2]))
        if k == "neg":
            return "(-%s)" % gshow(e[1])
        if k == "scall":
            return "(%s * %s)" % (SCALARS[e[1]][0], gshow(e[2]))
        return "(%s %s %s)" % (gshow(e[2]), "*" if k == "scalr" else "/", SCALARS[e[1]][0])
    for _ in range(n):
        e = gen(3)
        out["evaluations"] += 1
        case = {"expr": e, "show": gshow(e)}
        try:
            g = ev(e)
            case["result"] = "ok"
            case["space"] = w.sid[[i for i, x in enumerate(sp) if x is g.space or x == g.space][0]]
            case["coef"] = [cq(x) for x in np.asarray(g.coefficients)]
        except Exception as ex:
            case["result"] = type(ex).__name__
        out["gf_cases"].append(case)


# ---- aliasing: assembling a derived operator must not change its operands (double and single precision) -------------------
def aliasing_programs(w, out):
    from scipy.sparse import csc_matrix
    r, sp, fails = w.r, w.spaces, out["failures"]
    s0 = sp[0]
    n = s0.global_dof_count

    def fresh_pool():
        mats = {"dense-double": r.integers(-3, 4, (n, n)).astype("float64") + 5 * np.eye(n),
                "dense-single": (r.integers(-3, 4, (n, n)) + 5 * np.eye(n)).astype("float32"),
                "dense-complex64": (r.integers(-3, 4, (n, n)) + 1j * r.integers(-2, 3, (n, n)) + 5 * np.eye(n)).astype("complex64"),
                "dense-complex128": (r.integers(-3, 4, (n, n)) + 1j * r.integers(-2, 3, (n, n)) + 5 * np.eye(n)).astype("complex128")}
        pool = {k: (BoundaryOperatorWithAssembler(s0, s0, s0, StubAssembler(m), None), m.copy()) for k, m in mats.items()}
        sm = r.integers(-2, 3, (n, n)).astype("float64") + 4 * np.eye(n)
        pool["sparse-double"] = (BoundaryOperatorWithAssembler(s0, s0, s0, StubAssembler(sm, sparse=True), None), sm.copy())
        return pool
    f = api.GridFunction(s0, coefficients=r.integers(-3, 4, n).astype(float))
    programs = [("neg", lambda a, b: -a), ("3*A", lambda a, b: 3 * a), ("A*3.0", lambda a, b: a * 3.0),
                ("np.float32(2)*A", lambda a, b: np.float32(2) * a), ("(1+2j)*A", lambda a, b: (1 + 2j) * a),
                ("A-B", lambda a, b: a - b), ("A+B", lambda a, b: a + b), ("A*B", lambda a, b: a * b),
                ("(2*A)*B", lambda a, b: (2 * a) * b), ("A*(B*0.5)", lambda a, b: a * (b * 0.5)), ("A*f", lambda a, b: a * f),
                ("(A-B).strong_form", lambda a, b: (a - b).strong_form()), ("-(A+B)", lambda a, b: -(a + b))]
    for pname, prog in programs:
        for an in ("dense-double", "dense-single", "dense-complex64", "dense-complex128", "sparse-double"):
            for bn in ("dense-single", "dense-double"):
                pool = fresh_pool()
                a, b = pool[an][0], pool[bn][0]
                first = {k: np.asarray(v[0].weak_form().to_dense()).copy() for k, v in pool.items()}
                out["evaluations"] += 1
                try:
                    res = prog(a, b)
                    if hasattr(res, "weak_form"):
                        wf = res.weak_form()
                        wf.to_dense()
                        wf @ np.ones(wf.shape[1])
                    elif hasattr(res, "to_dense"):
                        res.to_dense()
                    elif hasattr(res, "projections"):
                        res.projections()
                except Exception as ex:
                    fails.append({"signature": "C14:aliasing:program-raises-%s" % type(ex).__name__,
                                  "what": "%s with A=%s B=%s: %s" % (pname, an, bn, str(ex)[:100]), "data": {}})
                    continue
                for k, (op, m0) in pool.items():
                    again = np.asarray(op.weak_form().to_dense())
                    if not (close(again, m0) and close(again, first[k])):
                        prec = "single" if k in ("dense-single", "dense-complex64") else "double"
                        fails.append({"signature": "C14:aliasing:assembling-a-derived-operator-changes-the-cached-weak-form-of-an-"
                                                   "operand[%s-precision-dense]" % prec if k.startswith("dense") else
                                      "C14:aliasing:assembling-a-derived-operator-changes-the-cached-weak-form-of-an-operand[sparse]",
                                      "what": "after assembling %s (A=%s, B=%s) the weak form of operand %s is no longer what it was "
                                              "(max deviation %.3g)" % (pname, an, bn, k, float(np.max(np.abs(again - m0)))),
                                      "data": {"program": pname, "A": an, "B": bn, "changed": k}})
    # discrete level and grid functions
    for dt in ("float64", "float32", "complex64"):
        m = (r.integers(-3, 4, (n, n)) + 5 * np.eye(n)).astype(dt)
        d = dbo.DenseDiscreteBoundaryOperator(m)
        m0 = m.copy()
        out["evaluations"] += 1
        for name, g in (("D*3", lambda: d * 3), ("3*D", lambda: 3 * d), ("-D", lambda: -d), ("D+D", lambda: d + d),
                        ("D*D", lambda: d * d), ("D*np.float64(2)", lambda: d * np.float64(2.0)), ("D.T", lambda: d.T)):
            try:
                x = g()
                x.to_dense() if hasattr(x, "to_dense") else None
            except Exception:
                continue
            if not close(np.asarray(d.to_dense()), m0):
                fails.append({"signature": "C14:aliasing:discrete-%s-changes-its-operand[%s]" % (
                    "scalar-multiple" if "3" in name or "2" in name else "operation", dt),
                              "what": "after %s the matrix of the %s operand D changed" % (name, dt), "data": {"op": name}})
                break
    c0 = r.integers(-3, 4, n).astype(float)
    g0 = api.GridFunction(s0, coefficients=c0.copy())
    for name, g in (("2*f", lambda: 2 * g0), ("-f", lambda: -g0), ("f+f", lambda: g0 + g0), ("f/2", lambda: g0 / 2), ("f-f", lambda: g0 - g0)):
        out["evaluations"] += 1
        g()
        if not close(g0.coefficients, c0):
            fails.append({"signature": "C14:aliasing:grid-function-arithmetic-changes-its-operand",
                          "what": "after %s the coefficients of f changed" % name, "data": {}})


# ---- blocked operators with domain != range: correspondence with the blocked tables + deterministic search --------------
def blocked_domain_range(w, out, thorough):
    from scipy.linalg import block_diag
    r, sp, fails = w.r, w.spaces, out["failures"]
    lists = [(2, 4), (4, 2), (0, 1), (1, 0)]           # indices into w.spaces: octahedron [P1, DP0], [DP0, P1]; tetrahedron
    lid = {L: i for i, L in enumerate(lists)}
    dims = {i: int(sum(sp[k].global_dof_count for k in L)) for L, i in lid.items()}
    # (domain list, range list, dual list) of the blocked atoms; the octahedron P1/DP0 mass matrix is rank deficient, so
    # dual = range there; on the tetrahedron also dual != range
    triples = [(0, 1, 1), (1, 0, 0), (0, 1, 1), (0, 0, 0), (2, 2, 3), (2, 3, 3), (3, 2, 2)]
    atoms = []
    for k, (d, q, u_) in enumerate(triples):
        D, Q, U = lists[d], lists[q], lists[u_]
        B = api.BlockedOperator(2, 2)
        blocks = [[None, None], [None, None]]
        for i in range(2):
            for j in range(2):
                shape = (sp[U[i]].global_dof_count, sp[D[j]].global_dof_count)
                m = r.integers(-3, 4, size=shape).astype("float64")
                if k == 2:
                    m = m + 1j * r.integers(-2, 3, size=shape)
                if k == 3 and i != j:
                    continue                      # missing off-diagonal blocks
                blocks[i][j] = m
                B[i, j] = BoundaryOperatorWithAssembler(sp[D[j]], sp[Q[i]], sp[U[i]], StubAssembler(m), None)
        dense = np.block([[blocks[i][j] if blocks[i][j] is not None else
                           np.zeros((sp[U[i]].global_dof_count, sp[D[j]].global_dof_count)) for j in range(2)] for i in range(2)])
        atoms.append((B, (d, q, u_), dense))
    inv1 = {}

    def single_inv(a, b):
        if (a, b) not in inv1:
            inv1[(a, b)] = np.asarray(get_inverse_mass_matrix(sp[a], sp[b]).to_dense())
        return inv1[(a, b)]
    invtab = {}
    for q in range(len(lists)):
        for u_ in range(len(lists)):
            try:
                if all(sp[a].grid == sp[b].grid for a, b in zip(lists[q], lists[u_])):
                    invtab[(q, u_)] = block_diag(*[single_inv(a, b) for a, b in zip(lists[q], lists[u_])])
            except RuntimeError:
                pass                               # rank-deficient pair: not used by any atom
    out["bb_env"] = {"dims": {str(k): v for k, v in dims.items()},
                     "atoms": [{"spaces": list(t), "mat": mat_q(m)} for _, t, m in atoms],
                     "invmass": [{"range": k[0], "dual": k[1], "mat": mat_q(m)} for k, m in invtab.items()]}

    class BW:            # adapter so that gen_expr / build / show can be reused
        pass
    pool = [(a[0], a[1], a[2]) for a in atoms]

    def tref(e):
        k = e[0]
        if k == "atom":
            return atoms[e[1]][1], np.asarray(atoms[e[1]][2], dtype=complex)
        if k in ("add", "sub"):
            (t1, m1), (t2, m2) = tref(e[1]), tref(e[2])
            if t1 != t2:
                raise IllTyped()
            return t1, m1 + m2 if k == "add" else m1 - m2
        if k == "neg":
            t, m = tref(e[1])
            return t, -m
        if k == "scall":
            t, m = tref(e[2])
            return t, complex(SCALARS[e[1]][1]) * m
        if k == "scalr":
            t, m = tref(e[1])
            return t, complex(SCALARS[e[2]][1]) * m
        (t1, m1), (t2, m2) = tref(e[1]), tref(e[2])
        if t2[1] != t1[0]:
            raise IllTyped()
        return (t2[0], t1[1], t1[2]), m1 @ (invtab[(t2[1], t2[2])] @ m2)

    def observe(e, what, coef=None):
        try:
            op = build(w, e, pool)
            if what == 0:
                return "ok", np.asarray(op.weak_form().to_dense())
            if what == 1:
                return "ok", np.asarray(op.strong_form().to_dense())
            fs, pos = [], 0
            for s_ in op.domain_spaces:
                n = s_.global_dof_count
                fs.append(api.GridFunction(s_, coefficients=coef[pos:pos + n]))
                pos += n
            res = op * fs
            return "ok", (np.concatenate([np.asarray(g.projections()) for g in res]),
                          [g.space == a and g.dual_space == b for g, a, b in
                           zip(res, op.range_spaces, op.dual_to_range_spaces)])
        except Exception as ex:
            return type(ex).__name__, str(ex)[:120]

    def rec(sig, what, data=None):
        fails.append({"signature": sig, "what": what, "data": data or {}})

    def pdepth(e):
        sub = [pdepth(x) for x in e[1:] if isinstance(x, list)]
        return (1 if e[0] in ("mul", "matmul") else 0) + (max(sub) if sub else 0)
    # deterministic list of expressions: every atom, typed and ill-typed sums, all ordered pairs as products, scalings
    exprs = [["atom", k] for k in range(len(atoms))]
    exprs += [["add", ["atom", 0], ["atom", 2]], ["sub", ["atom", 2], ["atom", 0]], ["add", ["atom", 0], ["atom", 1]],
              ["scall", 3, ["atom", 0]], ["neg", ["atom", 4]], ["scalr", ["atom", 5], 1]]
    exprs += [["mul", ["atom", a], ["atom", b]] for a in range(len(atoms)) for b in range(len(atoms))
              if (a, b) in ((0, 1), (1, 0), (1, 2), (3, 3), (0, 3), (5, 4), (4, 4), (6, 5), (0, 4), (4, 6), (2, 1))]
    exprs += [["matmul", ["add", ["atom", 0], ["atom", 2]], ["atom", 1]], ["mul", ["atom", 1], ["mul", ["atom", 0], ["atom", 1]]]]
    for _ in range(20 if thorough else 6):
        exprs.append(gen_expr(r, len(atoms), 2))
    for e in exprs:
        try:
            t, m = tref(e)
            typed = True
        except IllTyped:
            typed, t, m = False, None, None
        except KeyError:
            continue
        for what in (0, 1, 2):
            out["evaluations"] += 1
            coef = None
            if what == 2:
                if not typed:
                    continue
                coef = r.integers(-4, 5, dims[t[0]]).astype(float) + (1j * r.integers(-2, 3, dims[t[0]]) if r.random() < .4 else 0)
            status, val = observe(e, what, coef)
            case = {"what": what, "expr": e, "show": show(e).replace("A", "B"), "typed": typed, "result": status}
            if coef is not None:
                case["coef"] = [cq(x) for x in coef]
            if status == "ok":
                arr = val[0] if what == 2 else val
                case["mat"] = mat_q(arr.reshape(-1, 1) if what == 2 else arr)
            # the Coq side evaluates matrices as functions (no sharing): nested products are left to the numerical check
            if pdepth(e) <= 1:
                out["bb_cases"].append(case)
            tag = {0: "weak_form", 1: "strong_form", 2: "apply-to-function-list"}[what]
            neq = typed and any(a != b for a, b in zip(lists[t[0]], lists[t[1]]))
            cls = "domain!=range" if neq else "domain=range"
            if not typed:
                if status == "ok":
                    rec("C14:blocked:incompatible-space-lists-accepted", "expression %s" % case["show"])
                elif status != "ValueError":
                    rec("C14:blocked:incompatible-space-lists-raise-%s" % status, "expression %s: %s" % (case["show"], val))
                continue
            if status != "ok":
                rec("C14:blocked:%s-raises-%s[%s]" % (tag, status, cls), "expression %s: %s" % (case["show"], val))
                continue
            if what == 0 and not close(val, m):
                rec("C14:blocked:weak_form-differs-from-block-matrix-expression[%s]" % cls,
                    "expression %s (product = W1 blockdiag(M^-1) W2)" % case["show"])
            if what == 1:
                want = invtab[(t[1], t[2])] @ m          # block rows: M(range_i, dual_i)^-1 W_i.
                if not close(val, want):
                    rec("C14:blocked:strong_form-differs-from-blockwise-inverse-mass-times-weak[%s]" % cls,
                        "expression %s: strong_form() is not blockdiag(M(range_i, dual_i)^-1) * weak_form()" % case["show"],
                        {"expr": case["show"]})
            if what == 2:
                if not close(val[0], m @ coef):
                    rec("C14:blocked:apply-to-function-list-projections-differ[%s]" % cls, "expression %s" % case["show"])
                if not all(val[1]):
                    rec("C14:blocked:apply-to-function-list-result-spaces-differ[%s]" % cls, "expression %s" % case["show"])


def main():
    cfg = json.load(sys.stdin)
    thorough = cfg.get("strength") == "thorough"
    out = {"cases": [], "pcases": [], "gf_cases": [], "bb_cases": [], "failures": [], "evaluations": 0, "hist": {}}
    try:
        w = World(rng(), thorough)
        out["env"] = w.env_json()
        boundary_programs(w, out, 600 if thorough else 160, 4, 120 if thorough else 70)
        potential_programs(w, out, 120 if thorough else 40, 3)
        discrete_programs(w, out, 1500 if thorough else 300, 4 if thorough else 3)
        blocked_checks(w, out)
        gridfun_checks(w, out, 60 if thorough else 20)
        gf_correspondence(w, out, 150 if thorough else 60)
        blocked_domain_range(w, out, thorough)
        aliasing_programs(w, out)
        out["env"] = w.env_json()
    except Exception:
        out["crash"] = traceback.format_exc()
    # one failure per signature is enough for the verdict; keep counts
    counts = {}
    uniq = []
    for f in out["failures"]:
        counts[f["signature"]] = counts.get(f["signature"], 0) + 1
        if counts[f["signature"]] == 1:
            uniq.append(f)
    out["failure_counts"] = counts
    out["failures"] = uniq
    emit(out)


if __name__ == "__main__":
    main()
