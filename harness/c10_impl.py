"""C10 implementation side.

stdin JSON: {"strength": "quick"|"thorough", "parts": [...]}   ->   one line '@@JSON {...}' with
  geom_cases   barycentric grid of the implementation (exact rationals of its doubles), per coarse element
  table_cases  54 entries of dof_transformation per coarse element and space kind (+ the 9 lengths for RWG/SNC)
  dual_cases   dof_transformation of DUAL0/DUAL1 + the topology the hand model needs
  failures     failing inputs found by the search (pointwise agreement, nodal values, mixed mass matrices)
"""
import json
import os
import sys
import time
from fractions import Fraction as F

import numpy as np

import bempp_cl.api as api
from bempp_cl.api.integration import triangle_gauss

import c10_grids

T0 = time.time()
KINDS = [("DP", 0), ("P", 1), ("RWG", 0), ("SNC", 0)]
NAME = {"DP": "DP0", "P": "P1", "RWG": "RWG", "SNC": "SNC"}


def fr(x):
    f = F(float(x))
    return [f.numerator, f.denominator]


def log(*a):
    sys.stderr.write("[c10 %.0fs] %s\n" % (time.time() - T0, " ".join(str(x) for x in a)))


def make_grid(V, E, dom):
    return api.Grid(np.asarray(V, dtype=np.float64), np.asarray(E, dtype=np.uint32), np.asarray(dom, dtype=np.uint32))


def segment_options(dom, kind, thorough):
    """Space options to try on a grid: whole grid, one segment (non-prefix if possible), flags."""
    doms = sorted(set(int(x) for x in dom))
    opts = [{}]
    if len(doms) > 1:
        opts.append({"segments": [doms[-1]]})
        if kind in ("P", "RWG", "SNC"):
            opts.append({"segments": [doms[-1]], "include_boundary_dofs": True, "truncate_at_segment_edge": False})
            opts.append({"segments": [doms[0]], "include_boundary_dofs": True, "truncate_at_segment_edge": True})
        if thorough:
            opts.append({"swapped_normals": [doms[0]]})
            opts.append({"segments": [doms[-1]], "swapped_normals": [doms[-1]], "include_boundary_dofs": True})
            opts.append({"segments": [doms[0]]})
            opts.append({"segments": doms[:2]})
            if kind in ("P", "RWG", "SNC"):
                opts.append({"segments": [doms[-1]], "include_boundary_dofs": False, "truncate_at_segment_edge": False})
    return opts


def opt_name(o):
    return ",".join("%s=%s" % (k, o[k]) for k in sorted(o)) or "whole"


LOCAL_PTS = np.array([[1 / 3, 0.1, 0.7, 0.15, 0.0, 1.0, 0.0], [1 / 3, 0.2, 0.1, 0.75, 0.0, 0.0, 1.0]])


def coarse_local(grid, e, X):
    """Local coordinates in coarse element e of the global points X (3,n)."""
    P0 = grid.vertices[:, grid.elements[0, e]]
    J = grid.jacobians[e]
    return np.linalg.lstsq(J, X - P0[:, None], rcond=None)[0]


def bary_points(bg, be, loc):
    B = bg.vertices[:, bg.elements[:, be]]
    return B[:, [0]] + (B[:, [1]] - B[:, [0]]) * loc[0] + (B[:, [2]] - B[:, [0]]) * loc[1]


# ------------------------------------------------------------------------------------------------------
def search_pointwise(out, grids, rng, thorough):
    """GridFunction(space, c) vs GridFunction(space.barycentric_representation(), c) on every sub-triangle."""
    worst = {}
    for name, grid, dom in grids:
        bg = grid.barycentric_refinement
        for kind, deg in KINDS:
            for o in segment_options(dom, kind, thorough):
                try:
                    sp = api.function_space(grid, kind, deg, **o)
                    bs = sp.barycentric_representation()
                except Exception as e:  # constructing a representation must not fail
                    out["failures"].append({"signature": "C10:%s.barycentric_representation:raises" % NAME[kind],
                                            "what": "%s(%s) on %s: %s: %s" % (kind, opt_name(o), name, type(e).__name__, e),
                                            "data": {"grid": name, "kind": kind, "options": o}})
                    continue
                n = sp.global_dof_count
                nrep = 2 if thorough else 1
                for rep in range(nrep):
                    c = rng.uniform(-1, 1, n) + (0.5 if rep else 0.0)
                    gf = api.GridFunction(sp, coefficients=c)
                    gb = api.GridFunction(bs, coefficients=c)
                    bad = None
                    nbad = 0
                    for be in bs.support_elements:
                        e = int(be) // 6
                        X = bary_points(bg, int(be), LOCAL_PTS)
                        xi = coarse_local(grid, e, X)
                        v1 = gf.evaluate(e, xi)
                        v2 = gb.evaluate(int(be), LOCAL_PTS)
                        out["search_evals"] += LOCAL_PTS.shape[1]
                        scale = max(np.abs(v1).max(), np.abs(v2).max(), 1e-300)
                        err = np.abs(v1 - v2).max() / scale
                        key = kind
                        worst[key] = max(worst.get(key, 0.0), float(err))
                        if err > 1e-11:
                            nbad += 1
                            if bad is None or err > bad[0]:
                                q = int(np.argmax(np.abs(v1 - v2).max(axis=0)))
                                bad = (float(err), int(be), q, v1[:, q].tolist(), v2[:, q].tolist())
                    # support of the representation must be the six children of the coarse support
                    want = np.sort(np.concatenate([6 * sp.support_elements.astype(int) + j for j in range(6)])) \
                        if sp.number_of_support_elements else np.array([], int)
                    if not np.array_equal(np.sort(bs.support_elements.astype(int)), want):
                        out["failures"].append({"signature": "C10:%s.barycentric_representation:support" % NAME[kind],
                                                "what": "support of the barycentric representation is not 6e+j of the coarse "
                                                        "support on %s (%s)" % (name, opt_name(o)),
                                                "data": {"grid": name, "kind": kind, "options": o}})
                    if bad is not None:
                        out["failures"].append({
                            "signature": "C10:%s.barycentric_representation:pointwise" % NAME[kind],
                            "what": "%s(%d) on %s (%s): function and its barycentric representation differ on %d of %d "
                                    "sub-triangles; worst relative error %.3g on sub-triangle %d (coarse element %d, j=%d)"
                                    % (kind, deg, name, opt_name(o), nbad, len(bs.support_elements), bad[0], bad[1],
                                       bad[1] // 6, bad[1] % 6),
                            "data": {"grid": name, "kind": kind, "degree": deg, "options": o, "bary_element": bad[1],
                                     "local_point": LOCAL_PTS[:, bad[2]].tolist(), "coarse_value": bad[3],
                                     "bary_value": bad[4], "coefficients": c.tolist(),
                                     "vertices": grid.vertices.tolist(), "elements": grid.elements.tolist(),
                                     "domain_indices": grid.domain_indices.tolist()}})
                        break
    out["worst"]["pointwise_rel_err"] = worst


# ------------------------------------------------------------------------------------------------------
def dump_geometry(out, grids, max_elems=12):
    """Barycentric grid as built by the implementation, per coarse element, exact rationals."""
    cases = []
    for name, grid, dom in grids:
        bg = grid.barycentric_refinement
        ok_shape = (bg.number_of_elements == 6 * grid.number_of_elements and
                    bg.number_of_vertices == grid.number_of_vertices + grid.number_of_elements + grid.number_of_edges)
        if not ok_shape:
            out["failures"].append({"signature": "C10:barycentric_refinement:counts",
                                    "what": "barycentric grid of %s has %d elements / %d vertices" % (
                                        name, bg.number_of_elements, bg.number_of_vertices), "data": {"grid": name}})
            continue
        if not np.array_equal(bg.domain_indices, np.repeat(grid.domain_indices, 6)):
            out["failures"].append({"signature": "C10:barycentric_refinement:domain_indices",
                                    "what": "domain indices of the barycentric grid of %s are not repeated 6 times" % name,
                                    "data": {"grid": name}})
        for e in range(min(grid.number_of_elements, max_elems)):
            P = [[fr(x) for x in grid.vertices[:, grid.elements[k, e]]] for k in range(3)]
            B = [[[fr(x) for x in bg.vertices[:, bg.elements[v, 6 * e + j]]] for v in range(3)] for j in range(6)]
            # vertex identity: corner symbols must be the coarse vertex ids, shared midpoints must be shared ids
            ids = [[int(bg.elements[v, 6 * e + j]) for v in range(3)] for j in range(6)]
            cases.append({"grid": name, "e": e, "P": P, "B": B, "ids": ids,
                          "coarse_ids": [int(x) for x in grid.elements[:, e]],
                          "edge_ids": [int(x) for x in grid.element_edges[:, e]]})
    out["geom_cases"] = cases
    # whole element arrays for the connectivity-loop model (vertex ids, exact)
    out["conn_cases"] = [{"grid": name, "nv": int(grid.number_of_vertices),
                          "elements": grid.elements.T.astype(int).tolist(),
                          "element_edges": grid.element_edges.T.astype(int).tolist(),
                          "bary": grid.barycentric_refinement.elements.T.astype(int).tolist()}
                         for name, grid, dom in grids if grid.number_of_elements <= 40]


def dump_tables(out, grids, thorough, max_elems=4):
    """54 entries per coarse element of the dof_transformation of each barycentric representation,
    divided by the coarse local multiplier (so that they are the entries of the `transform` matrix)."""
    cases = []
    lc = np.array([[0, 0], [0.5, 0], [1, 0], [0.5, 0.5], [0, 1], [0, 0.5], [1.0 / 3, 1.0 / 3]]).T
    for name, grid, dom in grids:
        for kind, deg in KINDS:
            for o in segment_options(dom, kind, thorough)[:(4 if thorough else 2)]:
                try:
                    sp = api.function_space(grid, kind, deg, **o)
                    bs = sp.barycentric_representation()
                except Exception:
                    continue                      # reported (with the input) by search_pointwise
                D = bs.dof_transformation.tocsr()
                nd = 1 if kind == "DP" else 3
                nb = 1 if kind == "DP" else 3
                # structural facts of the representation (exact)
                l2g_ok = True
                sup = bs.support_elements.astype(int)
                for pos, be in enumerate(sup):
                    if list(bs.local2global[be]) != list(range(nb * pos, nb * pos + nb)) or \
                            any(int(m) != 1 for m in bs.local_multipliers[be]):
                        l2g_ok = False
                if not l2g_ok or D.shape != (nb * len(sup), sp.global_dof_count):
                    out["failures"].append({"signature": "C10:%s.barycentric_representation:dofmap" % NAME[kind],
                                            "what": "local2global/local_multipliers/dof_transformation shape of the "
                                                    "barycentric representation are not the identity numbering on %s (%s)"
                                                    % (name, opt_name(o)), "data": {"grid": name, "options": o}})
                    continue
                for pos, e in enumerate(sp.support_elements.astype(int)[:max_elems]):
                    vals = []
                    skip = False
                    for a in range(nd):
                        g = int(sp.local2global[e, a])
                        m = float(sp.local_multipliers[e, a])
                        if m == 0:
                            vals.append(None)
                            continue
                        # another local dof of this element mapping to the same global dof with non-zero multiplier
                        if sum(1 for a2 in range(nd) if int(sp.local2global[e, a2]) == g
                               and sp.local_multipliers[e, a2] != 0) != 1:
                            skip = True
                        col = D[6 * nb * pos: 6 * nb * (pos + 1), g].toarray().ravel() / m
                        vals.append([fr(x) for x in col])
                    if skip:
                        continue
                    case = {"grid": name, "kind": kind, "options": opt_name(o), "e": int(e), "vals": vals}
                    if kind in ("RWG", "SNC"):
                        LV = grid.data().local2global(int(e), lc)
                        case["LV"] = [[fr(x) for x in LV[:, i]] for i in range(7)]
                        # the nine lengths, exactly as doubles, keyed by index pair
                        case["len"] = {"%d,%d" % (i, j): fr(np.linalg.norm(LV[:, i] - LV[:, j]))
                                       for i in range(7) for j in range(i)}
                    cases.append(case)
    out["table_cases"] = cases


# ------------------------------------------------------------------------------------------------------
def main():
    cfg = json.load(sys.stdin)
    thorough = cfg.get("strength") == "thorough"
    parts = cfg.get("parts") or ["geometry", "tables", "pointwise", "dual", "bc", "mass"]
    seed = int(os.environ.get("VERIF_SEED", "0") or 0)
    rng = np.random.default_rng(seed)
    out = {"failures": [], "search_evals": 0, "worst": {}, "timing": {}}
    cat = c10_grids.catalogue(rng, thorough)
    grids = [(name, make_grid(V, E, d), np.asarray(d)) for name, V, E, d in cat]
    out["grids"] = [{"name": n, "elements": int(g.number_of_elements), "vertices": int(g.number_of_vertices),
                     "closed": bool(not np.any(g.edge_on_boundary))} for n, g, _ in grids]
    import c10_dual
    import c10_mass
    import c10_bc
    steps = [("geometry", lambda: dump_geometry(out, grids)),
             ("tables", lambda: dump_tables(out, grids, thorough)),
             ("pointwise", lambda: search_pointwise(out, grids, rng, thorough)),
             ("dual", lambda: c10_dual.run(out, grids, rng, thorough)),
             ("bc", lambda: c10_mass.bc_conformity(out, grids, rng, thorough)),
             ("bcmodel", lambda: c10_bc.dump(out, grids if thorough else grids[:5], rng, thorough, c10_mass.bc_optsets)),
             ("bcborder", lambda: c10_bc.border_search(out, grids, rng, thorough, c10_mass.bc_optsets)),
             ("mass", lambda: c10_mass.mixed_mass(out, grids, rng, thorough)),
             ("mass_scalar", lambda: c10_mass.mixed_mass(out, grids, rng, thorough, "scalar")),
             ("mass_vector", lambda: c10_mass.mixed_mass(out, grids, rng, thorough, "vector")),
             ("mass_border", lambda: c10_mass.mass_border(out, rng, thorough))]
    for nm, fn in steps:
        if nm in parts:
            t = time.time()
            try:
                fn()
            except Exception:
                import traceback
                out.setdefault("crashed", {})[nm] = traceback.format_exc()[-3000:]
            out["timing"][nm] = round(time.time() - t, 1)
            log(nm, "done", out["timing"][nm], "s; failures so far:", len(out["failures"]))
    print("@@JSON " + json.dumps(out))


if __name__ == "__main__":
    main()
