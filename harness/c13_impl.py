"""C13 implementation side.
corr:   run the library's sparse assembler (identity, laplace_beltrami), the grid-function routines (_project_function,
        _integrate, evaluate_on_element_centers, evaluate_on_vertices) and MultiplicationOperator on small grids and
        dump inputs + outputs as exact dyadic numbers for the Coq model.
search: API-level differential checks: mass matrices vs exact integrals, entries sum to the area, Laplace-Beltrami
        symmetric / PSD / annihilates constants, projection of in-space callables (jit, non-jit, vectorised, complex),
        integrate / l2_norm / evaluate_* vs direct quadrature, MultiplicationOperator vs direct assembly.
Input JSON {"mode": "corr"|"search"|"both", "strength"}; output '@@JSON {...}'."""
import json
import os
import sys
import time

import numpy as np

import asm_common as C

BASIS_KIND = {"DP0": 0, "DP1": 1, "P1": 1, "RWG": 2, "SNC": 3}


PyFuncMode = C.PyFuncMode


def gx_dump(grid):
    g = C.dump_grid(grid)
    return {"jit": g["jit"], "vol": g["vol"], "ratio": C.edge_ratio(grid)}


def designed_group(grid, kinds, rng, tries=60):
    """Designed (non-prefix, non-unit-multiplier) options for several spaces whose COMMON support is non-empty, not a leading
    block, and whose integration elements differ from those of the leading block of the same length."""
    ie = grid.integration_elements
    for _ in range(tries):
        got = [C.designed_opts(grid, k, rng) for k in kinds]
        common = np.ones(grid.number_of_elements, dtype=bool)
        for _, sp in got:
            common &= sp.support
        idx = np.flatnonzero(common)
        n = len(idx)
        if n == 0 or np.all(common[:n]) or np.allclose(ie[idx], ie[:n], rtol=1e-3):
            continue
        return [o for o, _ in got]
    raise RuntimeError("no designed group")


def tol_of(m):
    return C.dy(max(1e-11 * float(np.abs(m).max()) if np.size(m) else 0.0, 1e-13))


# ---- correspondence ------------------------------------------------------------------------------------------
def run_corr(cfg):
    import bempp_cl.api as api
    from bempp_cl.api.integration.triangle_gauss import rule
    rng = np.random.default_rng(int(os.environ.get("VERIF_SEED", "0")) + 1313)
    strength = cfg.get("strength", "quick")
    out = {"sparse": [], "gridfun": [], "mult": [], "errors": []}
    kinds = ["DP0", "DP1", "P1", "RWG", "SNC"]
    grids = ["two", "screen21", "tetra", "screen31", "octa", "screen22"]
    n = 20 if strength == "quick" else 90
    for i in range(n):
        gname = grids[i % len(grids)]
        grid = C.make_grid(gname, rng, distorted=bool(i % 2), jitter=bool(i % 2))
        tk = kinds[i % 5]
        if i % 4 == 3:
            tk, rk, opn = "P1", "P1", 1
        else:
            vec = C.SHAPE_ID[tk] == 2
            rk = str(rng.choice([k for k in kinds if (C.SHAPE_ID[k] == 2) == vec]))
            opn = 0
        full = rng.integers(0, 3) == 0
        topt = {} if full else C.random_space_opts(grid, tk, rng)
        ropt = {} if full else C.random_space_opts(grid, rk, rng)
        if i % 2 == 1 and grid.number_of_elements >= 6:
            # deterministic share of designed cases: common support not a leading block, areas differ, multipliers not all 1
            try:
                topt, ropt = designed_group(grid, [tk, rk], rng)
            except RuntimeError:
                pass
        # GridFunction / sparse operators require equal normal multipliers on both spaces: use the same flag
        sw = topt.get("swapped_normals")
        topt.pop("swapped_normals", None)
        ropt.pop("swapped_normals", None)
        if sw:
            topt["swapped_normals"] = sw
            ropt["swapped_normals"] = sw
        try:
            st = C.make_space(grid, tk, topt)
            sr = C.make_space(grid, rk, ropt)
        except Exception as e:
            out["errors"].append({"where": "space", "error": repr(e)})
            continue
        order = int(1 + i % 4)
        C.set_orders(order, 2)
        try:
            if opn == 0:
                op = api.operators.boundary.sparse.identity(sr, sr, st)
            else:
                op = api.operators.boundary.sparse.laplace_beltrami(sr, sr, st)
            mat = np.asarray(op.weak_form().to_sparse().todense())
        except Exception as e:
            out["errors"].append({"where": "sparse", "spec": [gname, tk, topt, rk, ropt, opn], "error": repr(e)})
            continue
        out["sparse"].append({
            "spec": {"grid": gname, "test": [tk, topt], "trial": [rk, ropt], "op": opn, "order": order},
            "grid": C.dump_grid(grid), "gx": gx_dump(grid), "test": C.dump_space(st, tk), "trial": C.dump_space(sr, rk),
            "kt": BASIS_KIND[tk], "kr": BASIS_KIND[rk], "op": opn, "rule": C.rule_dump(order),
            "rows": int(mat.shape[0]), "cols": int(mat.shape[1]), "matrix": C.dump_matrix(mat), "tol": tol_of(mat),
            "maxabs": float(np.abs(mat).max()) if mat.size else 0.0})

    # grid functions
    @api.real_callable
    def fun1(x, n, d, res):
        res[0] = 0.5 + x[0] - 2.0 * x[1] * x[2] + 0.25 * n[2] + d

    @api.real_callable
    def fun3(x, n, d, res):
        res[0] = 0.5 + x[0] - 2.0 * x[1] * x[2]
        res[1] = n[0] + 0.25 * x[2] + d
        res[2] = x[0] * x[1] - 0.125
    n = 14 if strength == "quick" else 60
    for i in range(n):
        gname = grids[(i + 1) % len(grids)]
        designed = i % 2 == 1 or i < 5        # non-prefix support, non-uniform areas (every kind at least once)
        if designed and gname in ("two", "screen21"):
            gname = "screen22"
        grid = C.make_grid(gname, rng, distorted=True, jitter=designed or bool(i % 3))
        kind = kinds[i % 5]
        try:
            if designed:
                opts, sp = C.designed_opts(grid, kind, rng)
            else:
                opts = {} if i % 3 == 0 else C.random_space_opts(grid, kind, rng)
            sp = C.make_space(grid, kind, opts)
        except Exception as e:
            out["errors"].append({"where": "space", "error": repr(e)})
            continue
        order = int(1 + i % 3)
        C.set_orders(order, 2)
        pts, wts = rule(order)
        dim = 1 if C.SHAPE_ID[kind] != 2 else 3
        coef = rng.integers(-8, 9, size=sp.global_dof_count) / 8.0

        fun = fun1 if dim == 1 else fun3
        try:
            gf = api.GridFunction(sp, coefficients=coef)
            integ = np.atleast_1d(gf.integrate())
            centers = gf.evaluate_on_element_centers()
            verts = gf.evaluate_on_vertices()
            gfp = api.GridFunction(sp, fun=fun)
            proj = gfp.projections()
            # vectorised flavour (real and complex): record the function_data the library hands to
            # _project_function_vectorized, by position in the support and number of the quadrature point
            captured = {}

            def vfun(x, n, dom, res):
                if dim == 1:
                    res[0, :] = 0.5 + x[0] - 2.0 * x[1] * x[2] + 0.25 * n[2] + dom
                else:
                    res[0, :] = 0.5 + x[0] - 2.0 * x[1] * x[2]
                    res[1, :] = n[0] + 0.25 * x[2] + dom
                    res[2, :] = x[0] * x[1] - 0.125
                captured["re"] = np.array(res)

            def vfunc(x, n, dom, res):
                tmp = np.zeros((dim, x.shape[1]))
                vfun(x, n, dom, tmp)
                res[:, :] = tmp * (1.0 - 0.5j) + 0.25j * x[1]
                captured["c"] = np.array(res)
            projv = api.GridFunction(sp, fun=api.callable(vfun, vectorized=True)).projections()
            projc = api.GridFunction(sp, fun=api.callable(vfunc, vectorized=True, complex=True)).projections()
        except Exception as e:
            out["errors"].append({"where": "gridfun", "spec": [gname, kind, opts], "error": repr(e)})
            continue
        # table of callable values at the implementation's quadrature points
        d = grid.data("double")
        ftab = []
        for e in range(grid.number_of_elements):
            row = []
            v = [d.vertices[:, d.elements[k, e]] for k in range(3)]
            for q in range(pts.shape[1]):
                x = np.array([(1.0 - pts[0, q] - pts[1, q]) * v[0][j] + pts[0, q] * v[1][j] + pts[1, q] * v[2][j]
                              for j in range(3)])
                res = np.zeros(dim)
                nrm = d.normals[e] * sp.normal_multipliers[e]
                dom = d.domain_indices[e]
                if dim == 1:
                    res[0] = 0.5 + x[0] - 2.0 * x[1] * x[2] + 0.25 * nrm[2] + dom
                else:
                    res[0] = 0.5 + x[0] - 2.0 * x[1] * x[2]
                    res[1] = nrm[0] + 0.25 * x[2] + dom
                    res[2] = x[0] * x[1] - 0.125
                row.append(C.dyl(res))
            ftab.append(row)
        npts = pts.shape[1]
        nsup = int(sp.number_of_support_elements)

        def fdata(arr):
            return [[C.dyl(arr[:, pos * npts + k]) for k in range(npts)] for pos in range(nsup)]
        scale = max(float(np.abs(proj).max()), float(np.abs(integ).max()), float(np.abs(verts).max()),
                    float(np.abs(projc).max()), 1e-3)
        sup = np.flatnonzero(sp.support)
        out["gridfun"].append({
            "spec": {"grid": gname, "space": [kind, opts], "order": order, "designed_non_prefix_non_uniform": bool(designed),
                     "non_prefix": bool(not np.all(sp.support[:nsup])),
                     "areas_differ_from_leading_block": bool(not np.allclose(
                         grid.integration_elements[sup], grid.integration_elements[:nsup], rtol=1e-3))},
            "fdata_re": fdata(captured["re"]), "projv_re": C.dyl(projv),
            "fdata_im": fdata(np.imag(captured["c"])), "projv_im": C.dyl(np.imag(projc)),
            "projc_re_consistent": bool(np.allclose(np.real(projc), projv, rtol=1e-12, atol=1e-14)),
            "grid": C.dump_grid(grid), "gx": gx_dump(grid), "space": C.dump_space(sp, kind), "kind": BASIS_KIND[kind],
            "rule": C.rule_dump(order), "coef": C.dyl(gf.grid_coefficients), "ftab": ftab,
            "nvert": int(grid.number_of_vertices), "proj": C.dyl(proj), "int": C.dyl(integ),
            "centers": [C.dyl(centers[k]) for k in range(dim)], "vertices": [C.dyl(verts[k]) for k in range(dim)],
            "third": C.dy(1.0 / 3), "tol": C.dy(1e-11 * scale), "ndof": int(sp.global_dof_count)})

    # MultiplicationOperator: scalar and vector-valued 'component' mode, 'inner' mode; restricted supports
    n = 7 if strength == "quick" else 24
    sc, vec = ["DP0", "DP1", "P1"], ["RWG", "SNC"]
    for i in range(n):
        gname = ["octa", "screen22", "cube", "screen31", "octa3"][i % 5]
        grid = C.make_grid(gname, rng, distorted=True, jitter=True)
        kindsel = i % 7
        if kindsel in (0, 1, 2):
            mode, tk, rk, fk = "component", sc[i % 3], sc[(i + 1) % 3], sc[(i + 2) % 3]
        elif kindsel in (3, 4):
            mode, tk, rk, fk = "component", vec[i % 2], "RWG", vec[(i + 1) % 2]
        else:
            mode, tk, rk, fk = "inner", sc[i % 3], vec[i % 2], vec[(i + 1) % 2]
        opts = [{} if i in (0, 3) else C.random_space_opts(grid, k, rng) for k in (tk, rk, fk)]
        for o in opts:
            o.pop("swapped_normals", None)
        if i not in (0, 3) and grid.number_of_elements >= 6:
            try:
                opts = designed_group(grid, [tk, rk, fk], rng)
            except RuntimeError:
                pass
        try:
            st, sr, sf = [C.make_space(grid, k, o) for k, o in zip((tk, rk, fk), opts)]
            C.set_orders(2, 2)
            gco = rng.integers(-8, 9, size=sf.global_dof_count) / 8.0
            g = api.GridFunction(sf, coefficients=gco)
            mop = api.MultiplicationOperator(g, sr, sr, st, mode=mode)
            mat = np.asarray(mop.weak_form().to_sparse().todense())
        except Exception as e:
            out["errors"].append({"where": "mult", "spec": [gname, mode, tk, rk, fk, opts], "error": repr(e)})
            continue
        out["mult"].append({
            "spec": {"grid": gname, "mode": mode, "test": [tk, opts[0]], "trial": [rk, opts[1]], "fun": [fk, opts[2]]},
            "mode": 0 if mode == "component" else 1,
            "grid": C.dump_grid(grid), "gx": gx_dump(grid), "test": C.dump_space(st, tk), "trial": C.dump_space(sr, rk),
            "fun": C.dump_space(sf, fk), "kt": BASIS_KIND[tk], "kr": BASIS_KIND[rk], "kf": BASIS_KIND[fk],
            "gcoef": C.dyl(g.grid_coefficients), "rule": C.rule_dump(2), "rows": int(mat.shape[0]),
            "cols": int(mat.shape[1]), "matrix": C.dump_matrix(mat), "tol": tol_of(mat),
            "maxabs": float(np.abs(mat).max()) if mat.size else 0.0})
    return out


# ---- search ---------------------------------------------------------------------------------------------------
def direct_quadrature(gf, order, what="integrate"):
    """sum_e J_e sum_q w_q u(e, q) (or |u|^2) from GridFunction.evaluate, independent of _integrate."""
    from bempp_cl.api.integration.triangle_gauss import rule
    pts, wts = rule(order)
    sp = gf.space
    grid = sp.grid
    acc = 0.0
    for e in sp.support_elements:
        vals = gf.evaluate(e, pts)
        j = grid.integration_elements[e]
        if what == "integrate":
            acc = acc + (vals * wts).sum(axis=1) * j
        else:
            acc = acc + float((np.abs(vals) ** 2 * wts).sum()) * j
    return acc


def exact_p1_mass(grid, space):
    """Exact P1/DP1 mass matrix from the closed formulas area/6, area/12."""
    n = space.global_dof_count
    m = np.zeros((n, n))
    for e in space.support_elements:
        a = grid.volumes[e]
        for i in range(3):
            for j in range(3):
                m[space.local2global[e, i], space.local2global[e, j]] += \
                    (a / 6 if i == j else a / 12) * space.local_multipliers[e, i] * space.local_multipliers[e, j]
    return m


def flavour_matrix(api, grid, sp, kind, cname, rng, note, fails):
    """Every callable flavour (jit / non-jit / vectorised / parameterised, real and complex) must produce the projections
    obtained by direct quadrature of the callable against space.evaluate, and the same integrate() / l2_norm()."""
    from bempp_cl.api.integration.triangle_gauss import rule
    order = 4
    C.set_orders(order, 2)
    pts, wts = rule(order)
    dim = 1 if C.SHAPE_ID[kind] != 2 else 3
    par = np.array([0.75, -1.5])

    # the reference function (polynomial in x, n, domain index); component c is shifted by c
    def val(x, n, d, c, p0, p1):
        return p0 + x[0] - p1 * x[1] * x[2] + 0.25 * n[2] + 0.125 * d + c

    d3 = dim

    def f_real(x, n, d, res):
        for c in range(d3):
            res[c] = 0.75 + x[0] + 1.5 * x[1] * x[2] + 0.25 * n[2] + 0.125 * d + c

    def f_cplx(x, n, d, res):
        for c in range(d3):
            res[c] = (0.75 + x[0] + 1.5 * x[1] * x[2] + 0.25 * n[2] + 0.125 * d + c) * (1.0 - 0.5j) + 0.25j * x[1]

    def f_real_par(x, n, d, res, p):
        for c in range(d3):
            res[c] = p[0] + x[0] - p[1] * x[1] * x[2] + 0.25 * n[2] + 0.125 * d + c

    def f_cplx_par(x, n, d, res, p):
        for c in range(d3):
            res[c] = (p[0] + x[0] - p[1] * x[1] * x[2] + 0.25 * n[2] + 0.125 * d + c) * (1.0 - 0.5j) + 0.25j * x[1]

    def v_real(x, n, d, res):
        for c in range(d3):
            res[c, :] = 0.75 + x[0] + 1.5 * x[1] * x[2] + 0.25 * n[2] + 0.125 * d + c

    def v_cplx(x, n, d, res):
        for c in range(d3):
            res[c, :] = (0.75 + x[0] + 1.5 * x[1] * x[2] + 0.25 * n[2] + 0.125 * d + c) * (1.0 - 0.5j) + 0.25j * x[1]

    def v_real_par(x, n, d, res, p):
        for c in range(d3):
            res[c, :] = p[0] + x[0] - p[1] * x[1] * x[2] + 0.25 * n[2] + 0.125 * d + c

    def v_cplx_par(x, n, d, res, p):
        for c in range(d3):
            res[c, :] = (p[0] + x[0] - p[1] * x[1] * x[2] + 0.25 * n[2] + 0.125 * d + c) * (1.0 - 0.5j) + 0.25j * x[1]

    key = (dim,)
    cache = flavour_matrix.cache
    if key not in cache:       # the wrappers are compiled once per codomain dimension
        cache[key] = [
            ("jit_real", api.callable(f_real, jit=True), None, False),
            ("jit_complex", api.callable(f_cplx, complex=True, jit=True), None, True),
            ("jit_parameterized_real", api.callable(f_real_par, jit=True, parameterized=True), par, False),
            ("jit_parameterized_complex", api.callable(f_cplx_par, complex=True, jit=True, parameterized=True), par, True),
        ("nonjit_real", api.callable(f_real, jit=False), None, False),
        ("nonjit_complex", api.callable(f_cplx, complex=True, jit=False), None, True),
        ("nonjit_parameterized_real", api.callable(f_real_par, jit=False, parameterized=True), par, False),
        ("vectorized_real", api.callable(v_real, vectorized=True), None, False),
        ("vectorized_complex", api.callable(v_cplx, vectorized=True, complex=True), None, True),
        ("vectorized_parameterized_real", api.callable(v_real_par, vectorized=True, parameterized=True), par, False),
        ("vectorized_parameterized_complex",
         api.callable(v_cplx_par, vectorized=True, complex=True, parameterized=True), par, True)]
    flavours = cache[key]
    # direct quadrature of the reference function against the basis
    d = grid.data("double")
    ref = np.zeros(sp.global_dof_count, dtype=complex)
    for e in sp.support_elements:
        ev = sp.evaluate(e, pts)
        v = [d.vertices[:, d.elements[k, e]] for k in range(3)]
        nrm = d.normals[e] * sp.normal_multipliers[e]
        for q in range(pts.shape[1]):
            x = (1.0 - pts[0, q] - pts[1, q]) * v[0] + pts[0, q] * v[1] + pts[1, q] * v[2]
            base = np.array([0.75 + x[0] + 1.5 * x[1] * x[2] + 0.25 * nrm[2] + 0.125 * d.domain_indices[e] + c
                             for c in range(dim)])
            fc = base * (1.0 - 0.5j) + 0.25j * x[1]
            for i in range(sp.number_of_shape_functions):
                ref[sp.local2global[e, i]] += (ev[:, i, q] * (base + 1j * (fc.imag))).sum() * wts[q] * \
                    grid.integration_elements[e]
    # ref.real = projection of the real function, ref.imag = imaginary part of the projection of the complex function
    scale = max(float(np.abs(ref).max()), 1e-3)
    base_int = base_l2 = None
    for fname, fun, p, cplx in flavours:
        try:
            g = api.GridFunction(sp, fun=fun, function_parameters=p)
            pr = np.asarray(g.projections())
        except Exception as e:
            fails.append({"signature": "C13:projection raises %s (%s, %s)" % (type(e).__name__, kind, fname),
                          "what": repr(e), "data": {"kind": kind, "support": cname}})
            continue
        # complex function = real*(1-0.5j) + 0.25j*x1 ; ref.imag holds the projection of its imaginary part
        want = (ref.real + 1j * ref.imag) if cplx else ref.real
        err = float(np.abs(pr - want).max()) / scale
        note("flavour_projection_%s" % fname, err)
        if not err <= 1e-11:
            fails.append({"signature": "C13:projections of a %s callable differ from direct quadrature (%s support)" % (
                fname.split("_")[0], "restricted" if cname != "whole" else "whole-grid"),
                "what": "%s callable, %s on %s: relative error %.3e" % (fname, kind, cname, err),
                "data": {"kind": kind, "support": cname, "flavour": fname, "err": err}})
        # integrate / l2_norm of the projected function agree between flavours (real ones with real, complex with complex)
        try:
            gi, gl = np.atleast_1d(g.integrate()), g.l2_norm()
        except Exception as e:
            fails.append({"signature": "C13:integrate/l2_norm raises %s (%s, %s)" % (type(e).__name__, kind, fname),
                          "what": repr(e), "data": {"kind": kind, "support": cname}})
            continue
        slot = 1 if cplx else 0
        if flavour_matrix.refs.get((id(sp), slot)) is None:
            flavour_matrix.refs[(id(sp), slot)] = (gi, gl, fname)
        ri, rl, rname = flavour_matrix.refs[(id(sp), slot)]
        e1 = float(np.abs(gi - ri).max()) / max(float(np.abs(ri).max()), 1e-3)
        e2 = abs(gl - rl) / max(abs(rl), 1e-3)
        note("flavour_integrate_l2norm", max(e1, e2))
        if not max(e1, e2) <= 1e-9:
            fails.append({"signature": "C13:integrate/l2_norm differ between callable flavours (%s vs %s)" % (
                fname.split("_")[0], rname.split("_")[0]),
                "what": "%s on %s: integrate %.3e, l2_norm %.3e relative difference (%s vs %s)" % (
                    kind, cname, e1, e2, fname, rname), "data": {"kind": kind, "support": cname}})
    flavour_matrix.refs.clear()


flavour_matrix.cache = {}
flavour_matrix.refs = {}


def exact_p1_stiffness(grid, space):
    """Exact P1 Laplace-Beltrami matrix: sum_e area_e grad(phi_i).grad(phi_j), gradients from the vertex coordinates."""
    n = space.global_dof_count
    k = np.zeros((n, n))
    ref = np.array([[-1.0, 1.0, 0.0], [-1.0, 0.0, 1.0]])          # reference gradients (2 x 3)
    for e in space.support_elements:
        v = [grid.vertices[:, grid.elements[j, e]] for j in range(3)]
        jac = np.column_stack([v[1] - v[0], v[2] - v[0]])             # 3 x 2
        g = jac @ np.linalg.inv(jac.T @ jac) @ ref                    # 3 x 3: column i = surface gradient of phi_i
        a = grid.volumes[e]
        for i in range(3):
            for j in range(3):
                k[space.local2global[e, i], space.local2global[e, j]] += \
                    a * (g[:, i] @ g[:, j]) * space.local_multipliers[e, i] * space.local_multipliers[e, j]
    return k


def run_search(cfg):
    import bempp_cl.api as api
    seed = int(os.environ.get("VERIF_SEED", "0"))
    rng = np.random.default_rng(seed + 1413)
    strength = cfg.get("strength", "quick")
    out = {"evaluations": 0, "failures": [], "worst": {}, "skipped": 0}
    fails = out["failures"]
    t0 = time.time()

    def note(key, err):
        out["worst"][key] = max(out["worst"].get(key, 0.0), float(err))
        out["evaluations"] += 1

    grids = ["octa", "screen22", "cube", "tetra", "twocomp", "octa3"]
    orders = [1, 2, 3, 4, 7, 11, 16, 20] if strength == "quick" else list(range(1, 21))
    # --- mass matrices: exact entries, symmetry, sum = area, PSD; Laplace-Beltrami -----------------------------
    for gi, gname in enumerate(grids if strength != "quick" else grids[:3]):
        grid = C.make_grid(gname, rng, distorted=True)
        area = float(grid.volumes.sum())
        for order in orders:
            C.set_orders(order, 2)
            for kind in ("DP0", "DP1", "P1"):
                sp = C.make_space(grid, kind, {"include_boundary_dofs": True})
                m = np.asarray(api.operators.boundary.sparse.identity(sp, sp, sp).weak_form().to_sparse().todense())
                err = abs(m.sum() - area) / area
                note("mass_sum_area", err)
                if not err <= 1e-12:
                    fails.append({"signature": "C13:identity entries do not sum to the area (%s)" % kind,
                                  "what": "sum of %s mass matrix = %.15g, area = %.15g at order %d" % (
                                      kind, m.sum(), area, order), "data": {"grid": gname, "order": order}})
                err = float(np.abs(m - m.T).max())
                note("mass_symmetry", err)
                if not err <= 1e-14:
                    fails.append({"signature": "C13:identity not symmetric (%s)" % kind, "what": "asymmetry %.3e" % err,
                                  "data": {"grid": gname, "order": order}})
                if kind != "DP0" and order >= 2:
                    ex = exact_p1_mass(grid, sp)
                    err = float(np.abs(m - ex).max()) / float(np.abs(ex).max())
                    note("mass_exact_entries", err)
                    if not err <= 1e-12:
                        fails.append({"signature": "C13:identity entries differ from exact integrals (%s)" % kind,
                                      "what": "max relative entry error %.3e at order %d" % (err, order),
                                      "data": {"grid": gname, "order": order}})
                    ev = np.linalg.eigvalsh(0.5 * (m + m.T))
                    note("mass_min_eig_neg", max(0.0, -ev.min()))
                    if not ev.min() > 0:
                        fails.append({"signature": "C13:identity not positive definite (%s)" % kind,
                                      "what": "min eigenvalue %.3e at order %d" % (ev.min(), order),
                                      "data": {"grid": gname, "order": order}})
            sp = C.make_space(grid, "P1", {"include_boundary_dofs": True})
            k = np.asarray(api.operators.boundary.sparse.laplace_beltrami(sp, sp, sp).weak_form().to_sparse().todense())
            scale = float(np.abs(k).max())
            e1 = float(np.abs(k - k.T).max()) / scale
            e2 = float(np.abs(k @ np.ones(k.shape[1])).max()) / scale
            ev = np.linalg.eigvalsh(0.5 * (k + k.T))
            ex = exact_p1_stiffness(grid, sp)
            e3 = float(np.abs(k - ex).max()) / float(np.abs(ex).max())
            note("lb_exact_entries", e3)
            if not e3 <= 1e-12:
                fails.append({"signature": "C13:laplace_beltrami entries differ from exact surface-gradient integrals",
                              "what": "max relative entry error %.3e at order %d" % (e3, order),
                              "data": {"grid": gname, "order": order}})
            note("lb_symmetry", e1)
            note("lb_constants", e2)
            note("lb_min_eig_neg", max(0.0, -ev.min() / scale))
            if not (e1 <= 1e-13 and e2 <= 1e-12 and ev.min() >= -1e-12 * scale):
                fails.append({"signature": "C13:laplace_beltrami symmetric/PSD/constants",
                              "what": "asym %.2e, K1 %.2e, min eig %.2e (order %d)" % (e1, e2, ev.min(), order),
                              "data": {"grid": gname, "order": order}})
        # edge spaces: identity at order >= 2 is order independent (degree 2 integrand) and symmetric PD
        for kind in ("RWG", "SNC"):
            sp = C.make_space(grid, kind, {})
            ms = []
            for order in (2, 4, 9):
                C.set_orders(order, 2)
                ms.append(np.asarray(api.operators.boundary.sparse.identity(sp, sp, sp).weak_form().to_sparse().todense()))
            err = max(float(np.abs(ms[0] - ms[k]).max()) for k in (1, 2)) / float(np.abs(ms[0]).max())
            note("edge_mass_order_independent", err)
            ev = np.linalg.eigvalsh(0.5 * (ms[0] + ms[0].T))
            if not (err <= 1e-12 and ev.min() > 0 and np.abs(ms[0] - ms[0].T).max() <= 1e-14):
                fails.append({"signature": "C13:identity on %s not exact/symmetric/PD" % kind,
                              "what": "order dependence %.3e, min eig %.3e" % (err, ev.min()), "data": {"grid": gname}})

    # --- grid functions ------------------------------------------------------------------------------------------
    nrep = 1 if strength == "quick" else 4
    gf_grids = ["cube", "screen22", "octa", "twocomp"]
    for rep in range(nrep):
        gname = gf_grids[(rep + seed) % len(gf_grids)]
        nel = C.make_grid(gname, rng).number_of_elements
        # non-uniform areas (affine distortion + per-vertex jitter); every element its own domain index so that a
        # callable can know the element it is evaluated on and a segment is a list of element numbers
        grid = C.make_grid(gname, rng, distorted=True, domains=list(range(nel)), jitter=True)
        verts, els = grid.vertices, grid.elements
        configs = []
        for kind in ("DP0", "DP1", "P1", "RWG", "SNC"):
            _, dsp = C.designed_opts(grid, kind, rng)
            sel = sorted(int(x) for x in np.flatnonzero(dsp.support))
            flags = {"include_boundary_dofs": True} if kind in ("P1", "RWG", "SNC") else {}
            configs.append((kind, "whole", dict(flags)))
            configs.append((kind, "segments", dict(flags, segments=sel)))                     # non-prefix segment
            _, dsp2 = C.designed_opts(grid, kind, rng, avoid=dsp.support)
            configs.append((kind, "support_elements",
                            dict(flags, support_elements=sorted(int(x) for x in np.flatnonzero(dsp2.support)))))
        for kind, cname, opts in configs:
            sp = C.make_space(grid, kind, opts)
            if not C.space_has_dofs(sp):
                out["skipped"] += 1
                continue
            flavour_matrix(api, grid, sp, kind, cname, rng, note, fails)
            order = int(rng.choice([2, 3, 4, 6, 9, 13, 17, 20]))
            C.set_orders(order, 2)
            for cplx in (False, True):
                coef = rng.standard_normal(sp.global_dof_count)
                if cplx:
                    coef = coef + 1j * rng.standard_normal(sp.global_dof_count)
                gf = api.GridFunction(sp, coefficients=coef)
                # integrate / l2_norm / centres / vertices against direct quadrature of gf.evaluate
                ref = direct_quadrature(gf, order)
                got = np.atleast_1d(gf.integrate())
                scale = max(float(np.abs(ref).max()), float(np.abs(coef).max()) * float(grid.volumes.sum()) * 1e-3)
                err = float(np.abs(got - ref).max()) / scale
                note("integrate_" + kind, err)
                if not err <= 1e-11:
                    edge = kind in ("RWG", "SNC")
                    fails.append({
                        "signature": ("C13:GridFunction.integrate wrong for spaces with negative local multipliers "
                                      "(_integrate applies local_multipliers twice)") if edge else
                        "C13:GridFunction.integrate differs from direct quadrature (%s)" % kind,
                        "what": "integrate() = %s, direct quadrature of evaluate() = %s (%s, order %d)" % (
                            got, ref, kind, order),
                        "data": {"grid": gname, "kind": kind, "opts": opts, "order": order, "err": err}})
                ref2 = direct_quadrature(gf, order, "l2")
                got2 = gf.l2_norm() ** 2
                err = abs(got2 - ref2) / max(ref2, 1e-300)
                note("l2_norm_" + kind, err)
                if not err <= 1e-10:
                    fails.append({"signature": "C13:GridFunction.l2_norm differs from direct quadrature (%s)" % kind,
                                  "what": "l2_norm^2 = %.15g vs %.15g" % (got2, ref2),
                                  "data": {"grid": gname, "kind": kind, "order": order}})
                cen = gf.evaluate_on_element_centers()
                refc = np.zeros_like(cen)
                for e in sp.support_elements:
                    refc[:, e] = gf.evaluate(e, np.array([[1.0 / 3], [1.0 / 3]]))[:, 0]
                err = float(np.abs(cen - refc).max())
                note("centers_" + kind, err)
                if not err <= 1e-13:
                    fails.append({"signature": "C13:evaluate_on_element_centers (%s)" % kind, "what": "err %.3e" % err,
                                  "data": {"grid": gname}})
                ver = gf.evaluate_on_vertices()
                num = np.zeros_like(ver)
                den = np.zeros(grid.number_of_vertices)
                lc = np.array([[0.0, 1.0, 0.0], [0.0, 0.0, 1.0]])
                for e in sp.support_elements:
                    v = gf.evaluate(e, lc)
                    for k in range(3):
                        num[:, els[k, e]] += v[:, k] * grid.volumes[e]
                        den[els[k, e]] += grid.volumes[e]
                refv = np.where(den > 0, num / np.where(den > 0, den, 1), 0)
                err = float(np.abs(ver - refv).max())
                note("vertices_" + kind, err)
                if not err <= 1e-12 * max(1.0, float(np.abs(refv).max())):
                    fails.append({"signature": "C13:evaluate_on_vertices (%s)" % kind, "what": "err %.3e" % err,
                                  "data": {"grid": gname}})
            # projection of a callable that lies in the space recovers its coefficients
            coef = rng.standard_normal(sp.global_dof_count)
            gf = api.GridFunction(sp, coefficients=coef)
            gc = np.asarray(gf.grid_coefficients)
            l2g, lm = sp.local2global, sp.local_multipliers
            dimn = gf.component_count
            vtx = np.array([[verts[:, els[k, e]] for k in range(3)] for e in range(nel)])   # (nel, 3, 3)

            def local_coords(x, e):
                a = vtx[e, 1] - vtx[e, 0]
                b = vtx[e, 2] - vtx[e, 0]
                r = x - vtx[e, 0]
                g11, g12, g22 = a @ a, a @ b, b @ b
                det = g11 * g22 - g12 * g12
                r1, r2 = r @ a, r @ b
                return np.array([[(g22 * r1 - g12 * r2) / det], [(g11 * r2 - g12 * r1) / det]])

            def pyfun(x, n, d, res):
                e = int(d)
                if not sp.support[e]:
                    res[:] = 0
                    return
                res[:] = gf.evaluate(e, local_coords(np.asarray(x), e))[:, 0]

            variants = [("nonjit", api.real_callable(pyfun, jit=False), 1.0)]

            def vecfun(x, n, d, res):
                for k in range(x.shape[1]):
                    tmp = np.zeros(dimn)
                    pyfun(x[:, k], n[:, k], d[k], tmp)
                    res[:, k] = tmp
            variants.append(("vectorized", api.callable(vecfun, vectorized=True), 1.0))

            def cfun(x, n, d, res):
                tmp = np.zeros(dimn)
                pyfun(x, n, d, tmp)
                res[:] = (1.0 + 2.0j) * tmp
            variants.append(("complex_nonjit", api.complex_callable(cfun, jit=False), 1.0 + 2.0j))
            for vname, fun, fac in variants:
                try:
                    got = api.GridFunction(sp, fun=fun).coefficients
                except Exception as e:
                    fails.append({"signature": "C13:projection raises %s (%s, %s)" % (type(e).__name__, kind, vname),
                                  "what": repr(e), "data": {"grid": gname, "kind": kind}})
                    continue
                err = float(np.abs(got - fac * coef).max()) / float(np.abs(coef).max())
                note("projection_%s_%s" % (kind, vname), err)
                if not err <= 1e-9:
                    fails.append({"signature": "C13:projection does not recover coefficients (%s, %s)" % (kind, vname),
                                  "what": "relative coefficient error %.3e at order %d" % (err, order),
                                  "data": {"grid": gname, "kind": kind, "opts": opts, "order": order}})
        # jit callable, parameterised: affine function lies in P1/DP1
        sp = C.make_space(grid, "P1", {"include_boundary_dofs": True})
        C.set_orders(4, 2)

        @api.callable(parameterized=True)
        def aff(x, n, d, res, par):
            res[0] = par[0] + par[1] * x[0] - x[2]
        par = np.array([0.5, 2.0])
        got = api.GridFunction(sp, fun=aff, function_parameters=par).coefficients
        # P1 dof of a vertex: read from local2global
        ref = np.zeros(sp.global_dof_count)
        for e in range(nel):
            for k in range(3):
                x = verts[:, els[k, e]]
                ref[sp.local2global[e, k]] = 0.5 + 2.0 * x[0] - x[2]
        err = float(np.abs(got - ref).max())
        note("projection_P1_jit_parameterized", err)
        if not err <= 1e-10:
            fails.append({"signature": "C13:projection of an affine function onto P1 (jit, parameterized)",
                          "what": "coefficient error %.3e" % err, "data": {"grid": gname}})

    # --- MultiplicationOperator -----------------------------------------------------------------------------------
    grid = C.make_grid("octa", rng, distorted=True)
    C.set_orders(3, 2)
    from bempp_cl.api.integration.triangle_gauss import rule
    pts, wts = rule(3)
    for seg in (None, [0], [1]):
        opts = {} if seg is None else {"segments": seg}
        sp = C.make_space(grid, "DP1", opts)
        g = api.GridFunction(sp, coefficients=rng.standard_normal(sp.global_dof_count))
        try:
            m = np.asarray(api.MultiplicationOperator(g, sp, sp, sp).weak_form().to_sparse().todense())
        except Exception as e:
            fails.append({"signature": "C13:MultiplicationOperator raises %s" % type(e).__name__, "what": repr(e),
                          "data": {"segments": seg}})
            continue
        ref = np.zeros_like(m)
        for e in sp.support_elements:
            tv = sp.evaluate(e, pts)
            gv = g.evaluate(e, pts)
            j = grid.integration_elements[e]
            for a in range(3):
                for b in range(3):
                    ref[sp.local2global[e, a], sp.local2global[e, b]] += (tv[0, a] * tv[0, b] * gv[0] * wts).sum() * j
        err = float(np.abs(m - ref).max()) / float(np.abs(ref).max())
        note("multiplication_operator_segments_%s" % seg, err)
        if not err <= 1e-12:
            fails.append({
                "signature": "C13:MultiplicationOperator on a restricted support uses integration_elements[position]",
                "what": "relative error %.3e against direct assembly on segments=%s" % (err, seg),
                "data": {"segments": seg, "err": err}})
    # vector-valued spaces: component mode and inner mode against direct assembly
    sp = C.make_space(grid, "RWG", {})
    dp = C.make_space(grid, "DP0", {})
    g = api.GridFunction(sp, coefficients=rng.standard_normal(sp.global_dof_count))
    for mode, dual in (("component", sp), ("inner", dp)):
        out["evaluations"] += 1
        try:
            m = np.asarray(api.MultiplicationOperator(g, sp, dual, dual, mode=mode).weak_form().to_sparse().todense())
        except Exception as e:
            fails.append({"signature": "C13:MultiplicationOperator mode='%s' raises %s" % (mode, type(e).__name__),
                          "what": repr(e), "data": {}})
            continue
        ref = np.zeros_like(m)
        for e in sp.support_elements:
            dv = sp.evaluate(e, pts)
            tv = dual.evaluate(e, pts)
            gv = g.evaluate(e, pts)
            j = grid.integration_elements[e]
            for a in range(dual.number_of_shape_functions):
                for b in range(3):
                    if mode == "component":
                        val = (tv[:, a, :] * dv[:, b, :] * gv * wts).sum() * j
                    else:
                        val = (tv[0, a, :] * (dv[:, b, :] * gv).sum(axis=0) * wts).sum() * j
                    ref[dual.local2global[e, a], sp.local2global[e, b]] += val * 1.0
        err = float(np.abs(m - ref).max()) / float(np.abs(ref).max())
        out["worst"]["multiplication_operator_vector_%s" % mode] = err
        if not err <= 1e-12:
            fails.append({
                "signature": "C13:MultiplicationOperator mode='%s' on vector-valued spaces differs from direct assembly "
                             "(scale values broadcast over the shape-function axis)" % mode,
                "what": "relative error %.3e against direct assembly (RWG, whole grid)" % err, "data": {"err": err}})
    out["wall"] = time.time() - t0
    return out


def main():
    cfg = json.load(sys.stdin)
    mode = cfg.get("mode")
    out = {}
    if mode in ("corr", "both"):
        t = time.time()
        with PyFuncMode(True):
            out["corr"] = run_corr(cfg)
        out["corr"]["wall"] = time.time() - t
    if mode in ("search", "both"):
        quick = cfg.get("strength", "quick") == "quick"
        with PyFuncMode(quick):
            out["search"] = run_search(cfg)
        out["search"]["py_func_mode"] = quick
    C.emit(out)


if __name__ == "__main__":
    main()
