"""C16 thread-count runs: assemble a fixed set of operators in THIS process (NUMBA_NUM_THREADS is set by the driver,
fresh process per thread count) and print the SHA-256 of the bytes of every result.
stdin JSON: {"families": [...], "reps": int}.  Output: '@@JSON {"threads": n, "hashes": {name: [sha, ...]}, "variants": ...}'.

Every job is a pair (build, apply): `build()` creates the operator / evaluator object, `apply(obj)` produces the array.
(a) build+apply under the process's thread count, `reps` times  -> "hashes" (compared across fresh processes);
(b) in processes with more than one thread: build under numba.set_num_threads(1) and apply under 1, 2 and the maximum,
    and build under the maximum and apply under 1 -> "variants" (all must be bitwise equal inside the process).
Family "fmm_near" drives the prange kernels of api/fmm/helpers.py: the near-field evaluator and sparse matrix
(get_local_interaction_operator) and the dense point evaluator used by the exafmm stand-in."""
import hashlib
import json
import sys

import numpy as np
import numba

import bempp_cl.api
from bempp_cl.api.operators.boundary import laplace, sparse, maxwell, helmholtz
from bempp_cl.api.operators.potential import laplace as laplace_pot

import c09_grids as G


def sha(a):
    a = np.ascontiguousarray(a)
    return hashlib.sha256(a.tobytes()).hexdigest()[:24]


def main():
    cfg = json.load(sys.stdin)
    fams = cfg.get("families", ["laplace_sl", "identity", "potential"])
    reps = int(cfg.get("reps", 2))
    bempp_cl.api.DEFAULT_DEVICE_INTERFACE = "numba"
    grid = G.torus(8, 6)                     # 96 elements, closed, three domain indices
    scr = G.screen(7, 6)                     # 84 elements, open
    p1 = G.make_space(grid, "P1", incl=True, trunc=True)
    block = list(range(0, 40))
    # zero-multiplier entries: the support is extended by the neighbours of the block, whose other vertices carry no dof
    p1seg = G.make_space(grid, "P1", se=block, incl=True, trunc=False)
    dp0 = G.make_space(grid, "DP0")
    p1s = G.make_space(scr, "P1", incl=False, trunc=True)
    rwg = G.make_space(grid, "RWG", incl=False, trunc=True)
    snc = G.make_space(grid, "SNC", incl=False, trunc=True)
    rwgseg = G.make_space(grid, "RWG", se=block, incl=True, trunc=False)
    sncseg = G.make_space(grid, "SNC", se=block, incl=True, trunc=False)
    pts = np.array([[3.0, 0.1, -2.5, 0.3], [0.2, 2.9, 0.4, -3.1], [1.5, -1.7, 2.2, 0.9]])
    from bempp_cl.api.integration.triangle_gauss import rule as tri_rule
    from bempp_cl.api.fmm import helpers as fmm_helpers
    lp, _ = tri_rule(3)
    cf = (np.arange(lp.shape[1] * grid.number_of_elements) % 11 - 5.0) / 3.0
    tg = np.ascontiguousarray(grid.centroids[:40] + 0.05)
    src = np.ascontiguousarray(grid.centroids)
    ch = np.arange(src.shape[0]) % 5 - 2.0
    gf_p1 = bempp_cl.api.GridFunction(p1, coefficients=np.arange(p1.global_dof_count) % 7 - 3.0)

    def near(mode):
        def build():
            old = bempp_cl.api.GLOBAL_PARAMETERS.fmm.near_field_representation
            bempp_cl.api.GLOBAL_PARAMETERS.fmm.near_field_representation = mode
            try:
                return fmm_helpers.get_local_interaction_operator(grid, lp, "laplace", np.array([], dtype="float64"),
                                                                  "double", False, "numba")
            finally:
                bempp_cl.api.GLOBAL_PARAMETERS.fmm.near_field_representation = old
        return build

    wf = lambda op: (lambda: op())          # build = create the boundary operator object
    dense = lambda o: o.weak_form().to_dense()
    jobs = {
        "laplace_sl": [("laplace.single_layer(P1,P1,P1)", lambda: laplace.single_layer(p1, p1, p1), dense),
                       ("laplace.single_layer(P1seg,DP0,P1seg)", lambda: laplace.single_layer(p1seg, dp0, p1seg), dense),
                       ("laplace.double_layer(screen P1)", lambda: laplace.double_layer(p1s, p1s, p1s), dense)],
        # quick tier: one JIT of the regular + singular scalar assemblers only
        "laplace_sl_only": [("laplace.single_layer(P1,P1,P1)", lambda: laplace.single_layer(p1, p1, p1), dense),
                            ("laplace.single_layer(P1seg,DP0,P1seg)", lambda: laplace.single_layer(p1seg, dp0, p1seg), dense)],
        "identity_p1": [("sparse.identity(P1seg,P1,P1)", lambda: sparse.identity(p1seg, p1, p1), dense)],
        "identity": [("sparse.identity(P1seg,P1,P1)", lambda: sparse.identity(p1seg, p1, p1), dense),
                     ("sparse.identity(RWG,RWG,SNC)", lambda: sparse.identity(rwg, rwg, snc), dense)],
        "potential": [("potential.laplace.single_layer(P1)", lambda: laplace_pot.single_layer(p1, pts),
                       lambda o: o.evaluate(gf_p1))],
        "fmm_near": [("fmm.near_field evaluator (numba_evaluate_local_interactions)", near("evaluate"), lambda o: o.matvec(cf)),
                     ("fmm.near_field sparse matrix (get_local_interaction_matrix_impl)", near("sparse"), lambda o: o.matvec(cf)),
                     ("fmm.dense_interaction_evaluator (exafmm stand-in)", lambda: None,
                      lambda o: fmm_helpers.dense_interaction_evaluator(tg, src, ch, "laplace", np.array([], dtype="float64")))],
        "hypersingular": [("laplace.hypersingular(P1seg)", lambda: laplace.hypersingular(p1seg, p1, p1seg), dense),
                          ("helmholtz.hypersingular(P1,k=1.3)", lambda: helmholtz.hypersingular(p1, p1, p1, 1.3), dense)],
        "maxwell": [("maxwell.electric_field(RWGseg,RWG,SNCseg,k=1.1)",
                     lambda: maxwell.electric_field(rwgseg, rwg, sncseg, 1.1), dense),
                    ("maxwell.magnetic_field(RWG,RWG,SNC,k=1.1)", lambda: maxwell.magnetic_field(rwg, rwg, snc, 1.1), dense)],
    }
    out, times, variants = {}, {}, {}
    import time
    maxt = int(numba.config.NUMBA_NUM_THREADS)

    def run(build, apply):
        r = apply(build())
        if hasattr(r, "todense"):
            r = np.asarray(r.todense())
        return sha(np.asarray(r))

    for fam in fams:
        for name, build, apply in jobs[fam]:
            t0 = time.time()
            out[name] = [run(build, apply) for _ in range(reps)]
            if maxt > 1:
                v = {}
                numba.set_num_threads(1)
                obj = build()
                for n in sorted({1, 2, maxt}):
                    numba.set_num_threads(n)
                    for rep in range(2):
                        r = apply(obj) if not hasattr(obj, "weak_form") else apply(build_fresh(build, 1))
                        if hasattr(r, "todense"):
                            r = np.asarray(r.todense())
                        v["built@1 applied@%d #%d" % (n, rep)] = sha(np.asarray(r))
                numba.set_num_threads(maxt)
                obj = build()
                numba.set_num_threads(1)
                r = apply(obj)
                v["built@%d applied@1" % maxt] = sha(np.asarray(r.todense()) if hasattr(r, "todense") else np.asarray(r))
                numba.set_num_threads(maxt)
                variants[name] = v
            times[name] = round(time.time() - t0, 1)
    print("@@JSON " + json.dumps({"threads": int(numba.get_num_threads()), "hashes": out, "variants": variants,
                                  "seconds": times,
                                  "zero_multiplier_entries": int(np.count_nonzero(p1seg.local_multipliers[p1seg.support] == 0))}))


def build_fresh(build, nthreads):
    """Boundary operators cache their weak form: for (b) a fresh object is built under `nthreads` and assembled under the
    thread count that is active at the call."""
    cur = numba.get_num_threads()
    numba.set_num_threads(nthreads)
    try:
        return build()
    finally:
        numba.set_num_threads(cur)


if __name__ == "__main__":
    main()
