"""C16 thread-count runs: assemble a fixed set of operators in THIS process (NUMBA_NUM_THREADS is set by the driver,
fresh process per thread count) and print the SHA-256 of the bytes of every result.
stdin JSON: {"families": [...], "reps": int}.  Output: '@@JSON {"threads": n, "hashes": {name: [sha, ...]}}'."""
import hashlib
import json
import sys

import numpy as np
import numba

import bempp_cl.api
from bempp_cl.api.operators.boundary import laplace, sparse, maxwell, helmholtz
from bempp_cl.api.operators.potential import laplace as laplace_pot

import c09_grids as G


def sha(a):
    a = np.ascontiguousarray(a)
    return hashlib.sha256(a.tobytes()).hexdigest()[:24]


def main():
    cfg = json.load(sys.stdin)
    fams = cfg.get("families", ["laplace_sl", "identity", "potential"])
    reps = int(cfg.get("reps", 2))
    bempp_cl.api.DEFAULT_DEVICE_INTERFACE = "numba"
    grid = G.torus(8, 6)                     # 96 elements, closed, three domain indices
    scr = G.screen(7, 6)                     # 84 elements, open
    p1 = G.make_space(grid, "P1", incl=True, trunc=True)
    block = list(range(0, 40))
    # zero-multiplier entries: the support is extended by the neighbours of the block, whose other vertices carry no dof
    p1seg = G.make_space(grid, "P1", se=block, incl=True, trunc=False)
    dp0 = G.make_space(grid, "DP0")
    p1s = G.make_space(scr, "P1", incl=False, trunc=True)
    rwg = G.make_space(grid, "RWG", incl=False, trunc=True)
    snc = G.make_space(grid, "SNC", incl=False, trunc=True)
    rwgseg = G.make_space(grid, "RWG", se=block, incl=True, trunc=False)
    sncseg = G.make_space(grid, "SNC", se=block, incl=True, trunc=False)
    pts = np.array([[3.0, 0.1, -2.5, 0.3], [0.2, 2.9, 0.4, -3.1], [1.5, -1.7, 2.2, 0.9]])
    jobs = {
        "laplace_sl": [("laplace.single_layer(P1,P1,P1)", lambda: laplace.single_layer(p1, p1, p1).weak_form().to_dense()),
                       ("laplace.single_layer(P1seg,DP0,P1seg)", lambda: laplace.single_layer(p1seg, dp0, p1seg).weak_form().to_dense()),
                       ("laplace.double_layer(screen P1)", lambda: laplace.double_layer(p1s, p1s, p1s).weak_form().to_dense())],
        # quick tier: one JIT of the regular + singular scalar assemblers only
        "laplace_sl_only": [("laplace.single_layer(P1,P1,P1)", lambda: laplace.single_layer(p1, p1, p1).weak_form().to_dense()),
                            ("laplace.single_layer(P1seg,DP0,P1seg)", lambda: laplace.single_layer(p1seg, dp0, p1seg).weak_form().to_dense())],
        "identity": [("sparse.identity(P1seg,P1,P1)", lambda: sparse.identity(p1seg, p1, p1).weak_form().to_dense()),
                     ("sparse.identity(RWG,RWG,SNC)", lambda: sparse.identity(rwg, rwg, snc).weak_form().to_dense())],
        "potential": [("potential.laplace.single_layer(P1)", lambda: laplace_pot.single_layer(p1, pts).evaluate(
            bempp_cl.api.GridFunction(p1, coefficients=np.arange(p1.global_dof_count) % 7 - 3.0)))],
        "hypersingular": [("laplace.hypersingular(P1seg)", lambda: laplace.hypersingular(p1seg, p1, p1seg).weak_form().to_dense()),
                          ("helmholtz.hypersingular(P1,k=1.3)", lambda: helmholtz.hypersingular(p1, p1, p1, 1.3).weak_form().to_dense())],
        "maxwell": [("maxwell.electric_field(RWGseg,RWG,SNCseg,k=1.1)",
                     lambda: maxwell.electric_field(rwgseg, rwg, sncseg, 1.1).weak_form().to_dense()),
                    ("maxwell.magnetic_field(RWG,RWG,SNC,k=1.1)",
                     lambda: maxwell.magnetic_field(rwg, rwg, snc, 1.1).weak_form().to_dense())],
    }
    out, times = {}, {}
    import time
    for fam in fams:
        for name, f in jobs[fam]:
            hs = []
            t0 = time.time()
            for _ in range(reps):
                r = f()
                if hasattr(r, "todense"):
                    r = np.asarray(r.todense())
                hs.append(sha(np.asarray(r)))
            out[name] = hs
            times[name] = round(time.time() - t0, 1)
    print("@@JSON " + json.dumps({"threads": int(numba.get_num_threads()), "hashes": out, "seconds": times,
                                  "zero_multiplier_entries": int(np.count_nonzero(p1seg.local_multipliers[p1seg.support] == 0))}))


if __name__ == "__main__":
    main()
