"""C20 implementation side.

 * translator self-test (reported as correspondence): the IR emitted by translators/py_kernels.py is evaluated in Python
   and compared with the real Numba kernels / FMM point kernels / shapesets; the IR emitted by translators/c_kernels.py is
   compared with kernels.h / *_shapeset.h compiled by g++ against harness/c20_opencl_shim.h (both precisions, all widths);
 * failing-input search: the compiled OpenCL C kernels against the Numba kernels on random point pairs at distance
   1e-3..1e3, unit normals, real / imaginary / complex wavenumbers, both precisions, all vector widths.
"""
import ctypes
import math
import os
import subprocess
import sys
import time

import numpy as np

import kernel_ir as K

REPO = os.environ.get("VERIF_REPO", "/repo")
INC = os.path.join(REPO, "bempp_cl/core/sources/include")
HERE = os.path.dirname(os.path.abspath(__file__))
MODES = {"novec": 1, "vec4": 4, "vec8": 8, "vec16": 16}


def build_shim(cl, precision, workdir):
    """Generate extern "C" wrappers around every kernel variant and compile kernels.h with g++."""
    src = ['#include "c20_opencl_shim.h"', '#include "kernels.h"', '#include "bempp_spaces.h"', 'extern "C" {']
    rt = "REALTYPE"

    def wrap(base, mode, cells):
        n = MODES[mode]
        name = "%s_%s" % (base, mode)
        lines = ["void w_%s(const %s* x, const %s* y, const %s* nx, const %s* ny, %s* p, %s* res) {" % (
            name, rt, rt, rt, rt, rt, rt)]
        lines.append("  REALTYPE3 tp = {x[0], x[1], x[2]}; REALTYPE3 tn = {nx[0], nx[1], nx[2]};")
        if n == 1:
            lines.append("  REALTYPE3 trp = {y[0], y[1], y[2]}; REALTYPE3 trn = {ny[0], ny[1], ny[2]};")
            if cells == 2:
                lines.append("  REALTYPE r[2] = {0, 0}; %s(tp, trp, tn, trn, p, r); res[0] = r[0]; res[1] = r[1];" % name)
            else:
                lines.append("  REALTYPE r[3][2]; %s(tp, trp, tn, trn, p, r);" % name)
                lines.append("  for (int d = 0; d < 3; ++d) for (int c = 0; c < 2; ++c) res[2 * d + c] = r[d][c];")
        else:
            vt = "REALTYPE%d" % n
            lines.append("  %s trp[3]; %s trn[3];" % (vt, vt))
            lines.append("  for (int d = 0; d < 3; ++d) for (int l = 0; l < %d; ++l) { trp[d].s[l] = y[d * %d + l]; trn[d].s[l] = ny[d * %d + l]; }" % (n, n, n))
            if cells == 2:
                lines.append("  %s r[2]; %s(tp, trp, tn, trn, p, r);" % (vt, name))
                lines.append("  for (int c = 0; c < 2; ++c) for (int l = 0; l < %d; ++l) res[c * %d + l] = r[c].s[l];" % (n, n))
            else:
                lines.append("  %s r[3][2]; %s(tp, trp, tn, trn, p, r);" % (vt, name))
                lines.append("  for (int d = 0; d < 3; ++d) for (int c = 0; c < 2; ++c) for (int l = 0; l < %d; ++l) res[(2 * d + c) * %d + l] = r[d][c].s[l];" % (n, n))
        lines.append("}")
        return lines
    for base, modes in cl["kernels"].items():
        for mode in modes:
            src += wrap(base, mode, 2)
    for base, modes in cl["gradient"].items():
        for mode in modes:
            src += wrap(base, mode, 6)
    for ident in ("p0_discontinuous", "p1_discontinuous", "rwg0", "snc0"):
        src.append("void w_shape_%s(%s u, %s v, %s* res) { REALTYPE2 pt = {u, v}; %s_evaluate(&pt, res); }" % (
            ident, rt, rt, rt, ident))
    src.append("}")
    cpp = os.path.join(workdir, "c20_wrap_%d.cpp" % precision)
    so = os.path.join(workdir, "c20_wrap_%d.so" % precision)
    with open(cpp, "w") as f:
        f.write("\n".join(src) + "\n")
    cmd = ["g++", "-std=c++14", "-O1", "-fPIC", "-shared", "-w", "-DPRECISION=%d" % precision, "-DVEC_LENGTH=4",
           "-I", HERE, "-I", INC, cpp, "-o", so]
    p = subprocess.run(cmd, stdout=subprocess.PIPE, stderr=subprocess.STDOUT, text=True, timeout=300)
    if p.returncode != 0:
        return None, p.stdout[-3000:]
    return ctypes.CDLL(so), ""


def call_cl(lib, name, mode, cells, dtype, x, ys, nx, nys, p):
    """ys, nys: (3, n) arrays, n = lane count of the mode. -> (cells, n) array"""
    n = MODES[mode]
    ct = ctypes.c_float if dtype == np.float32 else ctypes.c_double
    ptr = ctypes.POINTER(ct)

    def arr(a):
        a = np.ascontiguousarray(a, dtype=dtype)
        return a, a.ctypes.data_as(ptr)
    keep = [arr(x), arr(ys), arr(nx), arr(nys), arr(np.array(p))]
    res = np.zeros((cells, n), dtype=dtype)
    fn = getattr(lib, "w_%s_%s" % (name, mode))
    fn.restype = None
    fn(*[k[1] for k in keep], res.ctypes.data_as(ptr))
    return res


def main():
    pl = K.payload()
    strength = pl.get("strength", "quick")
    nb, cl = pl["numba"], pl["cl"]
    rng = np.random.default_rng(int(os.environ.get("VERIF_SEED", "0")))
    t0 = time.time()
    res = {"corr": {"evaluations": 0, "nontrivial": 0, "disagreements": [], "hist": {}, "samples": []},
           "search": {"evaluations": 0, "worst": {}}, "failures": [], "notes": []}
    corr = res["corr"]

    def disagree(kind, what, data):
        if len(corr["disagreements"]) < 40:
            corr["disagreements"].append({"kind": kind, "what": what, "data": data})

    def count(kind, n=1, nontrivial=0):
        corr["evaluations"] += n
        corr["nontrivial"] += nontrivial
        corr["hist"][kind] = corr["hist"].get(kind, 0) + n

    ncases = 40 if strength == "quick" else 400
    wnk = K.wnk

    # ---------------- A/B. Numba kernels and FMM point kernels vs their IR ------------------------------------------
    import bempp_cl.core.numba_kernels as nk
    K.selftest_numba(nb, rng, ncases, disagree, count, corr["samples"], jit=True)

    # ---------------- C. shapesets (Python) vs IR --------------------------------------------------------------------
    from bempp_cl.api.space.shapesets import Shapeset
    uv = rng.uniform(0, 1, (2, 12))
    uv[:, 0] = (0, 0)
    uv[:, 1] = (1, 0)
    uv[:, 2] = (0, 1)
    shape_vals = {}
    for ident, fv in pl["shapes_py"].items():
        vals = np.asarray(Shapeset(ident).evaluate(uv))           # (dim, nfun, npoints)
        shape_vals[ident] = vals
        if vals.shape != (len(fv[0]), len(fv), uv.shape[1]):
            disagree("shapeset-ir", "%s: evaluate returns shape %s" % (ident, vals.shape), {})
            continue
        for q in range(uv.shape[1]):
            env = {"u": uv[0, q], "v": uv[1, q]}
            for f in range(len(fv)):
                for d in range(len(fv[f])):
                    v, _ = K.ev(fv[f][d], env)
                    count("python shapeset values", 1, 1)
                    if abs(v - vals[d, f, q]) > 1e-14:
                        disagree("shapeset-ir", "translated shapeset %s differs from shapesets.py" % ident,
                                 {"u": env["u"], "v": env["v"], "function": f, "component": d, "impl": vals[d, f, q], "ir": v})

    # ---------------- D. kernels.h compiled by g++ vs the C translator's IR -------------------------------------------
    libs = {}
    for prec, dt in ((1, np.float64), (0, np.float32)):
        lib, err = build_shim(cl, prec, os.getcwd())
        if lib is None:
            disagree("shim", "g++ could not compile kernels.h against the OpenCL shim (PRECISION=%d)" % prec, err)
        else:
            libs[prec] = (lib, dt)
    res["notes"].append("shim build + numba self-test %.1fs" % (time.time() - t0))
    lit = {1: cl["macros"]["double"]["M_INV_4PI"], 0: cl["macros"]["single"]["M_INV_4PI"]}
    all_cl = [(b, m, 2, i) for b, ms in cl["kernels"].items() for m, i in ms.items()] + \
             [(b, m, 6, i) for b, ms in cl["gradient"].items() for m, i in ms.items()]
    n_cl = max(6, ncases // 4)
    for prec, (lib, dt) in libs.items():
        c4 = lit[prec][0] / lit[prec][1]
        if dt == np.float32:
            c4 = float(np.float32(c4))
        rel = 2e-13 if dt == np.float64 else 1e-5
        for base, mode, cells, info in all_cl:
            n = MODES[mode]
            for c in range(n_cl):
                x, ys, nx, nys, p = K.sample_batch(rng, n, dmin=1e-2, dmax=1e2, wavenumber=wnk(base, c))
                if dt == np.float32:
                    x, ys, nx, nys = [np.asarray(a, dtype=np.float32).astype(np.float64) for a in (x, ys, nx, nys)]
                    p = tuple(float(np.float32(v)) for v in p)
                got = call_cl(lib, base, mode, cells, dt, x, ys, nx, nys, p)
                for l in range(n):
                    env = K.env_of(x, ys[:, l], nx, nys[:, l], p, c4=c4)
                    if cells == 2:
                        exprs = [info["re"], info["im"]]
                    else:
                        exprs = [info["comps"][d][c2] for d in range(3) for c2 in ("re", "im")]
                    for j, e in enumerate(exprs):
                        v, mg = K.ev(e, env)
                        count("compiled kernels.h cells (%s)" % ("double" if prec else "single"), 1,
                              1 if got[j, l] != 0 else 0)
                        if not (abs(v - float(got[j, l])) <= rel * mg + 1e-300):
                            disagree("cl-ir", "translated %s_%s cell %d differs from the compiled header (%s)" % (
                                base, mode, j, "double" if prec else "single"),
                                {"env": env, "compiled": float(got[j, l]), "ir": v, "lane": l})
        # shapesets
        ct = ctypes.c_float if dt == np.float32 else ctypes.c_double
        for ident, cells_ir in pl["shapes_cl"].items():
            fn = getattr(lib, "w_shape_" + ident)
            fn.restype = None
            fn.argtypes = [ct, ct, ctypes.POINTER(ct)]
            for q in range(uv.shape[1]):
                buf = (ct * 8)()
                fn(uv[0, q], uv[1, q], buf)
                env = {"u": float(dt(uv[0, q])), "v": float(dt(uv[1, q]))}
                for j, e in enumerate(cells_ir):
                    v, _ = K.ev(e, env)
                    count("compiled shapeset cells", 1, 1)
                    if abs(v - buf[j]) > (1e-14 if prec else 1e-6):
                        disagree("cl-ir", "translated %s_evaluate differs from the compiled header" % ident,
                                 {"u": env["u"], "v": env["v"], "cell": j, "compiled": buf[j], "ir": v})
                    # search: the C shapeset against the Python shapeset (result[dim * i + j])
                    if ident in shape_vals:
                        vals = shape_vals[ident]
                        dim = vals.shape[0]
                        f_, d_ = divmod(j, dim)
                        res["search"]["evaluations"] += 1
                        if abs(vals[d_, f_, q] - buf[j]) > (1e-14 if prec else 1e-6):
                            res["failures"].append({
                                "signature": "C20 shapeset %s: %s_shapeset.h differs from shapesets.py" % (ident, ident),
                                "what": "OpenCL shape function value differs from the Numba shapeset",
                                "data": {"u": uv[0, q], "v": uv[1, q], "function": f_, "component": d_,
                                         "opencl": buf[j], "numba": float(vals[d_, f_, q]),
                                         "precision": "double" if prec else "single"}})

    # ---------------- E. search: compiled OpenCL kernels vs Numba kernels -----------------------------------------------
    table = cl["table"]
    nbreg = nb["tables"]["kernel_functions_regular"]
    nsearch = 12 if strength == "quick" else 150
    for kt, nbname in nbreg.items():
        clname = table.get(kt)
        if clname is None or clname not in cl["kernels"]:
            res["failures"].append({"signature": "C20 selection: kernel type %s has no OpenCL kernel" % kt,
                                    "what": "select_cl_kernel/kernels.h do not provide kernel type " + kt, "data": {}})
            continue
        fn = getattr(nk, nbname)
        info = nb["kernels"][nbname]
        for prec, (lib, dt) in libs.items():
            rel = 2e-13 if dt == np.float64 else 3e-5
            for mode in cl["kernels"][clname]:
                n = MODES[mode]
                worst = 0.0
                for c in range(nsearch):
                    x, ys, nx, nys, p = K.sample_batch(rng, n, wavenumber=wnk(kt, c))
                    xa, ysa, nxa, nysa = [np.asarray(a, dtype=dt) for a in (x, ys, nx, nys)]
                    pa = np.asarray(p, dtype=dt)
                    ref = np.asarray(fn(xa, ysa, nxa, nysa, pa))
                    got = call_cl(lib, clname, mode, 2, dt, xa, ysa, nxa, nysa, pa)
                    for l in range(n):
                        env = K.env_of(xa.astype(float), ysa[:, l].astype(float), nxa.astype(float),
                                       nysa[:, l].astype(float), pa.astype(float))
                        _, mr = K.ev(info["re"], env)
                        _, mi = K.ev(info["im"], env)
                        g = complex(float(got[0, l]), float(got[1, l]))
                        err = abs(g - complex(ref[l]))
                        tol = rel * (mr + mi) + 1e-300
                        res["search"]["evaluations"] += 1
                        worst = max(worst, err / tol)
                        if not (err <= tol):
                            res["failures"].append({
                                "signature": "C20 kernel %s: kernels.h %s_%s differs from numba_kernels.%s" % (
                                    kt, clname, mode, nbname),
                                "what": "OpenCL kernel value differs from the Numba kernel beyond the precision of the type",
                                "data": {"precision": "double" if prec else "single", "lane": l, "env": env,
                                         "opencl": [g.real, g.imag], "numba": [complex(ref[l]).real, complex(ref[l]).imag],
                                         "err": err, "tol": tol}})
                            break
                    else:
                        continue
                    break
                res["search"]["worst"]["%s_%s_%s" % (clname, mode, "d" if prec else "s")] = round(worst, 4)
    res["notes"].append("total %.1fs" % (time.time() - t0))
    K.out(res)


if __name__ == "__main__":
    main()
