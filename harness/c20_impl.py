"""C20 implementation side.

 * translator self-test (reported as correspondence): the IR emitted by translators/py_kernels.py is evaluated in Python
   and compared with the real Numba kernels / FMM point kernels / shapesets; the IR emitted by translators/c_kernels.py is
   compared with kernels.h / *_shapeset.h compiled by g++ against harness/c20_opencl_shim.h (both precisions, all widths);
 * failing-input search: the compiled OpenCL C kernels against the Numba kernels on random point pairs at distance
   1e-3..1e3, unit normals, real / imaginary / complex wavenumbers, both precisions, all vector widths.
"""
import ctypes
import math
import os
import subprocess
import sys
import time

import numpy as np

import kernel_ir as K

REPO = os.environ.get("VERIF_REPO", "/repo")
INC = os.path.join(REPO, "bempp_cl/core/sources/include")
HERE = os.path.dirname(os.path.abspath(__file__))
MODES = {"novec": 1, "vec4": 4, "vec8": 8, "vec16": 16}


def build_shim(cl, precision, workdir):
    """Generate extern "C" wrappers around every kernel variant and compile kernels.h with g++."""
    src = ['#include "c20_opencl_shim.h"', '#include "kernels.h"', '#include "bempp_spaces.h"', 'extern "C" {']
    rt = "REALTYPE"

    def wrap(base, mode, cells):
        n = MODES[mode]
        name = "%s_%s" % (base, mode)
        lines = ["void w_%s(const %s* x, const %s* y, const %s* nx, const %s* ny, %s* p, %s* res) {" % (
            name, rt, rt, rt, rt, rt, rt)]
        lines.append("  REALTYPE3 tp = {x[0], x[1], x[2]}; REALTYPE3 tn = {nx[0], nx[1], nx[2]};")
        if n == 1:
            lines.append("  REALTYPE3 trp = {y[0], y[1], y[2]}; REALTYPE3 trn = {ny[0], ny[1], ny[2]};")
            if cells == 2:
                lines.append("  REALTYPE r[2] = {0, 0}; %s(tp, trp, tn, trn, p, r); res[0] = r[0]; res[1] = r[1];" % name)
            else:
                lines.append("  REALTYPE r[3][2]; %s(tp, trp, tn, trn, p, r);" % name)
                lines.append("  for (int d = 0; d < 3; ++d) for (int c = 0; c < 2; ++c) res[2 * d + c] = r[d][c];")
        else:
            vt = "REALTYPE%d" % n
            lines.append("  %s trp[3]; %s trn[3];" % (vt, vt))
            lines.append("  for (int d = 0; d < 3; ++d) for (int l = 0; l < %d; ++l) { trp[d].s[l] = y[d * %d + l]; trn[d].s[l] = ny[d * %d + l]; }" % (n, n, n))
            if cells == 2:
                lines.append("  %s r[2]; %s(tp, trp, tn, trn, p, r);" % (vt, name))
                lines.append("  for (int c = 0; c < 2; ++c) for (int l = 0; l < %d; ++l) res[c * %d + l] = r[c].s[l];" % (n, n))
            else:
                lines.append("  %s r[3][2]; %s(tp, trp, tn, trn, p, r);" % (vt, name))
                lines.append("  for (int d = 0; d < 3; ++d) for (int c = 0; c < 2; ++c) for (int l = 0; l < %d; ++l) res[(2 * d + c) * %d + l] = r[d][c].s[l];" % (n, n))
        lines.append("}")
        return lines
    for base, modes in cl["kernels"].items():
        for mode in modes:
            src += wrap(base, mode, 2)
    for base, modes in cl["gradient"].items():
        for mode in modes:
            src += wrap(base, mode, 6)
    for ident in ("p0_discontinuous", "p1_discontinuous", "rwg0", "snc0"):
        src.append("void w_shape_%s(%s u, %s v, %s* res) { REALTYPE2 pt = {u, v}; %s_evaluate(&pt, res); }" % (
            ident, rt, rt, rt, ident))
    src.append("REALTYPE w_const_inv_4pi() { return M_INV_4PI; }")
    src.append("REALTYPE w_const_4pi() { return M_4PI; }")
    src.append("REALTYPE w_const_one() { return M_ONE; }")
    src.append("REALTYPE w_const_zero() { return M_ZERO; }")
    src.append("}")
    cpp = os.path.join(workdir, "c20_wrap_%d.cpp" % precision)
    so = os.path.join(workdir, "c20_wrap_%d.so" % precision)
    with open(cpp, "w") as f:
        f.write("\n".join(src) + "\n")
    cmd = ["g++", "-std=c++14", "-O1", "-fPIC", "-shared", "-w", "-DPRECISION=%d" % precision, "-DVEC_LENGTH=4",
           "-I", HERE, "-I", INC, cpp, "-o", so]
    p = subprocess.run(cmd, stdout=subprocess.PIPE, stderr=subprocess.STDOUT, text=True, timeout=300)
    if p.returncode != 0:
        return None, p.stdout[-3000:]
    return ctypes.CDLL(so), ""


def call_cl(lib, name, mode, cells, dtype, x, ys, nx, nys, p):
    """ys, nys: (3, n) arrays, n = lane count of the mode. -> (cells, n) array"""
    n = MODES[mode]
    ct = ctypes.c_float if dtype == np.float32 else ctypes.c_double
    ptr = ctypes.POINTER(ct)

    def arr(a):
        a = np.ascontiguousarray(a, dtype=dtype)
        return a, a.ctypes.data_as(ptr)
    keep = [arr(x), arr(ys), arr(nx), arr(nys), arr(np.array(p))]
    res = np.zeros((cells, n), dtype=dtype)
    fn = getattr(lib, "w_%s_%s" % (name, mode))
    fn.restype = None
    fn(*[k[1] for k in keep], res.ctypes.data_as(ptr))
    return res


def fallback(pl):
    """Translators failed closed: differential test of the compiled headers against the Numba kernels without any IR.
    Kernel lists are read from the headers by regex and from the two selection functions themselves."""
    import re
    import types
    import collections
    res = {"corr": {"evaluations": 0, "nontrivial": 0, "disagreements": [], "hist": {}, "samples": []},
           "search": {"evaluations": 0, "worst": {}}, "failures": [], "notes": ["fallback search (no translated model)"]}
    rng = np.random.default_rng(int(os.environ.get("VERIF_SEED", "0")))
    txt = open(os.path.join(INC, "kernels.h")).read()
    kernels, gradient = {}, {}
    for m in re.finditer(r"inline\s+void\s+(\w+?)_(novec|vec4|vec8|vec16)\s*\(([^)]*)\)", txt):
        if m.group(1) == "diff":
            continue
        tgt = gradient if "result[3][2]" in m.group(3) else kernels
        tgt.setdefault(m.group(1), {})[m.group(2)] = {}
    cl = {"kernels": kernels, "gradient": gradient}
    sys.modules.setdefault("pyopencl", types.ModuleType("pyopencl"))
    import bempp_cl.core.numba_kernels as nk
    try:
        import bempp_cl.core.opencl_kernels as ok
    except Exception as e:
        res["notes"].append("cannot import opencl_kernels: %r" % (e,))
        return res
    D = collections.namedtuple("D", "kernel_type assembly_type")
    kts = ["%s_%s" % (f, k) for f in ("laplace", "helmholtz", "modified_helmholtz")
           for k in ("single_layer", "double_layer", "adjoint_double_layer")] + \
          ["helmholtz_far_field_single_layer", "helmholtz_far_field_double_layer"]
    libs = {}
    for prec, dt in ((1, np.float64), (0, np.float32)):
        lib, err = build_shim(cl, prec, os.getcwd())
        if lib is not None:
            libs[prec] = (lib, dt)
        else:
            res["notes"].append("g++ failed: " + err[-500:])
    for kt in kts:
        try:
            nbfn = nk.select_numba_kernels(D(kt, "default_scalar"), "regular")[1]
            clname = ok.select_cl_kernel(D(kt, "default_scalar"), "regular")[1]
        except Exception as e:
            res["failures"].append({"signature": "C20 selection: kernel type %s not selectable" % kt,
                                    "what": "selection functions raise for kernel type %s" % kt, "data": {"exception": repr(e)}})
            continue
        for prec, (lib, dt) in libs.items():
            rel = 1e-9 if dt == np.float64 else 1e-3
            for mode in kernels.get(clname, {}):
                n = MODES[mode]
                for c in range(100):
                    x, ys, nx, nys, p = K.sample_batch(rng, n, dmin=1e-2, dmax=1e2, wavenumber=K.wnk(kt, c))
                    xa, ysa, nxa, nysa = [np.asarray(a, dtype=dt) for a in (x, ys, nx, nys)]
                    pa = np.asarray(p, dtype=dt)
                    ref = np.asarray(nbfn(xa, ysa, nxa, nysa, pa))
                    got = call_cl(lib, clname, mode, 2, dt, xa, ysa, nxa, nysa, pa)
                    d = np.linalg.norm(ys - x[:, None], axis=0)
                    ak = math.hypot(*p)
                    mag = K.M_INV_4PI * (1 + ak + 1 / d + (1 + ak * d) / d ** 2)
                    g = got[0].astype(float) + 1j * got[1].astype(float)
                    res["search"]["evaluations"] += n
                    bad = np.abs(g - ref) > rel * mag
                    if bad.any():
                        l = int(np.argmax(bad))
                        res["failures"].append({
                            "signature": "C20 kernel %s: kernels.h %s_%s differs from numba_kernels.%s" % (
                                kt, clname, mode, nbfn.__name__),
                            "what": "OpenCL kernel value differs from the Numba kernel",
                            "data": {"precision": "double" if prec else "single", "x": x.tolist(), "y": ys[:, l].tolist(),
                                     "nx": nx.tolist(), "ny": nys[:, l].tolist(), "p": list(p),
                                     "opencl": [g[l].real, g[l].imag], "numba": [complex(ref[l]).real, complex(ref[l]).imag]}})
                        break
    return res


def replay_case(pl):
    """Re-evaluate one recorded failing input (kernel comparison) on the current tree."""
    import re
    rp = pl["replay"]
    res = {"corr": {"evaluations": 0, "nontrivial": 0, "disagreements": [], "hist": {}, "samples": []},
           "search": {"evaluations": 0, "worst": {}}, "failures": [], "notes": ["replay of one recorded input"]}
    m = re.match(r"C20 kernel (\w+): kernels.h (\w+)_(novec|vec4|vec8|vec16) differs from numba_kernels.(\w+)$", rp["signature"])
    data = rp.get("input") or {}
    if not m or "env" not in data:
        res["notes"].append("replay not applicable to this signature: rerun the search instead")
        res["not_applicable"] = True
        return res
    kt, clname, mode, nbname = m.groups()
    import bempp_cl.core.numba_kernels as nk
    prec = 1 if data.get("precision", "double") == "double" else 0
    dt = np.float64 if prec else np.float32
    lib, err = build_shim({"kernels": {clname: {mode: {}}}, "gradient": {}}, prec, os.getcwd())
    if lib is None:
        res["failures"].append({"signature": rp["signature"], "what": "kernels.h no longer compiles: " + err[-300:], "data": data})
        return res
    e = data["env"]
    n = MODES[mode]
    x = np.array([e["x0"], e["x1"], e["x2"]], dtype=dt)
    y = np.array([e["y0"], e["y1"], e["y2"]], dtype=dt)
    nx = np.array([e["nx0"], e["nx1"], e["nx2"]], dtype=dt)
    ny = np.array([e["ny0"], e["ny1"], e["ny2"]], dtype=dt)
    p = np.array([e["p0"], e["p1"]], dtype=dt)
    ys, nys = np.repeat(y[:, None], n, axis=1), np.repeat(ny[:, None], n, axis=1)
    fn = getattr(nk, nbname)
    ref = np.asarray(fn(np.repeat(x[:, None], n, axis=1), ys, nx, ny, p) if nbname.endswith("_singular")
                     else fn(x, ys, nx, nys, p))
    got = call_cl(lib, clname, mode, 2, dt, x, ys, nx, nys, p)
    g = complex(float(got[0, 0]), float(got[1, 0]))
    tol = data.get("tol") or (1e-12 if prec else 1e-4) * (abs(complex(ref[0])) + K.M_INV_4PI)
    res["search"]["evaluations"] = 1
    if not abs(g - complex(ref[0])) <= tol:
        res["failures"].append({"signature": rp["signature"], "what": "recorded input still fails",
                                "data": dict(data, opencl_now=[g.real, g.imag], numba_now=[complex(ref[0]).real, complex(ref[0]).imag])})
    return res


def main():
    pl = K.payload()
    if pl.get("replay"):
        K.out(replay_case(pl))
        return
    if pl.get("fallback"):
        K.out(fallback(pl))
        return
    strength = pl.get("strength", "quick")
    nb, cl = pl["numba"], pl["cl"]
    rng = np.random.default_rng(int(os.environ.get("VERIF_SEED", "0")))
    t0 = time.time()
    res = {"corr": {"evaluations": 0, "nontrivial": 0, "disagreements": [], "hist": {}, "samples": []},
           "search": {"evaluations": 0, "worst": {}}, "failures": [], "notes": []}
    corr = res["corr"]

    def disagree(kind, what, data):
        if len(corr["disagreements"]) < 40:
            corr["disagreements"].append({"kind": kind, "what": what, "data": data})

    def count(kind, n=1, nontrivial=0):
        corr["evaluations"] += n
        corr["nontrivial"] += nontrivial
        corr["hist"][kind] = corr["hist"].get(kind, 0) + n

    ncases = 40 if strength == "quick" else 400
    wnk = K.wnk

    # ---------------- A/B. Numba kernels and FMM point kernels vs their IR ------------------------------------------
    import bempp_cl.core.numba_kernels as nk
    K.selftest_numba(nb, rng, ncases, disagree, count, corr["samples"], jit=True)

    # ---------------- C. shapesets (Python) vs IR --------------------------------------------------------------------
    from bempp_cl.api.space.shapesets import Shapeset
    uv = rng.uniform(0, 1, (2, 12))
    uv[:, 0] = (0, 0)
    uv[:, 1] = (1, 0)
    uv[:, 2] = (0, 1)
    shape_vals = {}
    for ident, fv in pl["shapes_py"].items():
        vals = np.asarray(Shapeset(ident).evaluate(uv))           # (dim, nfun, npoints)
        shape_vals[ident] = vals
        if vals.shape != (len(fv[0]), len(fv), uv.shape[1]):
            disagree("shapeset-ir", "%s: evaluate returns shape %s" % (ident, vals.shape), {})
            continue
        for q in range(uv.shape[1]):
            env = {"u": uv[0, q], "v": uv[1, q]}
            for f in range(len(fv)):
                for d in range(len(fv[f])):
                    v, _ = K.ev(fv[f][d], env)
                    count("python shapeset values", 1, 1)
                    if abs(v - vals[d, f, q]) > 1e-14:
                        disagree("shapeset-ir", "translated shapeset %s differs from shapesets.py" % ident,
                                 {"u": env["u"], "v": env["v"], "function": f, "component": d, "impl": vals[d, f, q], "ir": v})

    # ---------------- D. kernels.h compiled by g++ vs the C translator's IR -------------------------------------------
    libs = {}
    for prec, dt in ((1, np.float64), (0, np.float32)):
        lib, err = build_shim(cl, prec, os.getcwd())
        if lib is None:
            disagree("shim", "g++ could not compile kernels.h against the OpenCL shim (PRECISION=%d)" % prec, err)
        else:
            libs[prec] = (lib, dt)
    res["notes"].append("shim build + numba self-test %.1fs" % (time.time() - t0))
    lit = {1: cl["macros"]["double"]["M_INV_4PI"], 0: cl["macros"]["single"]["M_INV_4PI"]}
    all_cl = [(b, m, 2, i) for b, ms in cl["kernels"].items() for m, i in ms.items()] + \
             [(b, m, 6, i) for b, ms in cl["gradient"].items() for m, i in ms.items()]
    n_cl = max(6, ncases // 4)
    for prec, (lib, dt) in libs.items():
        c4 = lit[prec][0] / lit[prec][1]
        if dt == np.float32:
            c4 = float(np.float32(c4))
        rel = 2e-13 if dt == np.float64 else 1e-5
        for base, mode, cells, info in all_cl:
            n = MODES[mode]
            for c in range(n_cl):
                x, ys, nx, nys, p = K.sample_batch(rng, n, dmin=1e-2, dmax=1e2, wavenumber=wnk(base, c))
                if dt == np.float32:
                    x, ys, nx, nys = [np.asarray(a, dtype=np.float32).astype(np.float64) for a in (x, ys, nx, nys)]
                    p = tuple(float(np.float32(v)) for v in p)
                got = call_cl(lib, base, mode, cells, dt, x, ys, nx, nys, p)
                for l in range(n):
                    env = K.env_of(x, ys[:, l], nx, nys[:, l], p, c4=c4)
                    if cells == 2:
                        exprs = [info["re"], info["im"]]
                    else:
                        exprs = [info["comps"][d][c2] for d in range(3) for c2 in ("re", "im")]
                    for j, e in enumerate(exprs):
                        v, mg = K.ev(e, env)
                        count("compiled kernels.h cells (%s)" % ("double" if prec else "single"), 1,
                              1 if got[j, l] != 0 else 0)
                        if not (abs(v - float(got[j, l])) <= rel * mg + 1e-300):
                            disagree("cl-ir", "translated %s_%s cell %d differs from the compiled header (%s)" % (
                                base, mode, j, "double" if prec else "single"),
                                {"env": env, "compiled": float(got[j, l]), "ir": v, "lane": l})
        # search: the macro constants as the compiler reads them, against 1/(4 pi), 4 pi in the type (one ulp)
        ct = ctypes.c_float if dt == np.float32 else ctypes.c_double
        for cname, want in (("inv_4pi", 1.0 / (4 * math.pi)), ("4pi", 4 * math.pi), ("one", 1.0), ("zero", 0.0)):
            fn = getattr(lib, "w_const_" + cname)
            fn.restype = ct
            fn.argtypes = []
            got = float(fn())
            ulp = float(np.spacing(dt(want))) if want else 0.0
            res["search"]["evaluations"] += 1
            if got != float(dt(want)):       # the shipped literals round to exactly the correctly rounded constants
                res["failures"].append({
                    "signature": "C20 constant M_%s (%s precision) is not the rounded real constant" % (
                        cname.upper(), "double" if prec else "single"),
                    "what": "macro of bempp_base_types.h is not the correctly rounded constant of its type",
                    "data": {"macro": got, "expected": float(dt(want)), "ulp": ulp}})
        # shapesets
        for ident, cells_ir in pl["shapes_cl"].items():
            fn = getattr(lib, "w_shape_" + ident)
            fn.restype = None
            fn.argtypes = [ct, ct, ctypes.POINTER(ct)]
            for q in range(uv.shape[1]):
                buf = (ct * 8)()
                fn(uv[0, q], uv[1, q], buf)
                env = {"u": float(dt(uv[0, q])), "v": float(dt(uv[1, q]))}
                for j, e in enumerate(cells_ir):
                    v, _ = K.ev(e, env)
                    count("compiled shapeset cells", 1, 1)
                    if abs(v - buf[j]) > (1e-14 if prec else 1e-6):
                        disagree("cl-ir", "translated %s_evaluate differs from the compiled header" % ident,
                                 {"u": env["u"], "v": env["v"], "cell": j, "compiled": buf[j], "ir": v})
                    # search: the C shapeset against the Python shapeset (result[dim * i + j])
                    if ident in shape_vals:
                        vals = shape_vals[ident]
                        dim = vals.shape[0]
                        f_, d_ = divmod(j, dim)
                        res["search"]["evaluations"] += 1
                        if abs(vals[d_, f_, q] - buf[j]) > (1e-14 if prec else 1e-6):
                            res["failures"].append({
                                "signature": "C20 shapeset %s: %s_shapeset.h differs from shapesets.py" % (ident, ident),
                                "what": "OpenCL shape function value differs from the Numba shapeset",
                                "data": {"u": uv[0, q], "v": uv[1, q], "function": f_, "component": d_,
                                         "opencl": buf[j], "numba": float(vals[d_, f_, q]),
                                         "precision": "double" if prec else "single"}})

    # ---------------- E. search: compiled OpenCL kernels vs Numba kernels -----------------------------------------------
    table = cl["table"]
    nbreg = nb["tables"]["kernel_functions_regular"]
    nsearch = 12 if strength == "quick" else 150
    for kt, nbname in nbreg.items():
        clname = table.get(kt)
        if clname is None or clname not in cl["kernels"]:
            res["failures"].append({"signature": "C20 selection: kernel type %s has no OpenCL kernel" % kt,
                                    "what": "select_cl_kernel/kernels.h do not provide kernel type " + kt, "data": {}})
            continue
        fn = getattr(nk, nbname)
        info = nb["kernels"][nbname]
        for prec, (lib, dt) in libs.items():
            rel = 2e-13 if dt == np.float64 else 3e-5
            for mode in cl["kernels"][clname]:
                n = MODES[mode]
                worst = 0.0
                for c in range(nsearch):
                    x, ys, nx, nys, p = K.sample_batch(rng, n, wavenumber=wnk(kt, c))
                    xa, ysa, nxa, nysa = [np.asarray(a, dtype=dt) for a in (x, ys, nx, nys)]
                    pa = np.asarray(p, dtype=dt)
                    ref = np.asarray(fn(xa, ysa, nxa, nysa, pa))
                    got = call_cl(lib, clname, mode, 2, dt, xa, ysa, nxa, nysa, pa)
                    for l in range(n):
                        env = K.env_of(xa.astype(float), ysa[:, l].astype(float), nxa.astype(float),
                                       nysa[:, l].astype(float), pa.astype(float))
                        _, mr = K.ev(info["re"], env)
                        _, mi = K.ev(info["im"], env)
                        g = complex(float(got[0, l]), float(got[1, l]))
                        err = abs(g - complex(ref[l]))
                        tol = rel * (mr + mi) + 1e-300
                        res["search"]["evaluations"] += 1
                        worst = max(worst, err / tol)
                        if not (err <= tol):
                            res["failures"].append({
                                "signature": "C20 kernel %s: kernels.h %s_%s differs from numba_kernels.%s" % (
                                    kt, clname, mode, nbname),
                                "what": "OpenCL kernel value differs from the Numba kernel beyond the precision of the type",
                                "data": {"precision": "double" if prec else "single", "lane": l, "env": env,
                                         "opencl": [g.real, g.imag], "numba": [complex(ref[l]).real, complex(ref[l]).imag],
                                         "err": err, "tol": tol}})
                            break
                    else:
                        continue
                    break
                res["search"]["worst"]["%s_%s_%s" % (clname, mode, "d" if prec else "s")] = round(worst, 4)
    # singular kernels (evaluate_dense_singular.cl calls KERNEL(novec) with one test point per quadrature point)
    for kt, nbname in nb["tables"]["kernel_functions_singular"].items():
        clname = table.get(kt)
        if clname is None or "novec" not in cl["kernels"].get(clname, {}):
            res["failures"].append({"signature": "C20 selection: kernel type %s has no OpenCL novec kernel" % kt,
                                    "what": "kernels.h does not provide the novec variant for kernel type " + kt, "data": {}})
            continue
        fn = getattr(nk, nbname)
        info = nb["kernels"][nbname]
        for prec, (lib, dt) in libs.items():
            rel = 2e-13 if dt == np.float64 else 3e-5
            for c in range(nsearch):
                lanes = 3
                x, ys, nx, nys, p = K.sample_batch(rng, lanes, wavenumber=wnk(kt, c))
                xs = (x[:, None] + rng.uniform(-1e-3, 1e-3, (3, lanes)))
                xa, ysa, nxa, nya = [np.asarray(a, dtype=dt) for a in (xs, ys, nx, nys[:, 0])]
                pa = np.asarray(p, dtype=dt)
                ref = np.asarray(fn(xa, ysa, nxa, nya, pa))
                bad = False
                for l in range(lanes):
                    got = call_cl(lib, clname, "novec", 2, dt, xa[:, l], ysa[:, [l]], nxa, nya[:, None], pa)
                    env = K.env_of(xa[:, l].astype(float), ysa[:, l].astype(float), nxa.astype(float), nya.astype(float),
                                   pa.astype(float))
                    mag = K.ev(info["re"], env)[1] + K.ev(info["im"], env)[1]
                    g = complex(float(got[0, 0]), float(got[1, 0]))
                    res["search"]["evaluations"] += 1
                    if not abs(g - complex(ref[l])) <= rel * mag + 1e-300:
                        res["failures"].append({
                            "signature": "C20 kernel %s: kernels.h %s_novec differs from numba_kernels.%s" % (kt, clname, nbname),
                            "what": "OpenCL kernel value differs from the Numba singular kernel beyond the precision of the type",
                            "data": {"precision": "double" if prec else "single", "env": env, "opencl": [g.real, g.imag],
                                     "numba": [complex(ref[l]).real, complex(ref[l]).imag]}})
                        bad = True
                        break
                if bad:
                    break
    # gradient kernel vs the gradient slots of fmm/helpers.helmholtz_kernel
    import bempp_cl.api.fmm.helpers as fh
    ginfo = nb["fmm"].get("helmholtz_kernel")
    for base, modes in cl["gradient"].items():
        for prec, (lib, dt) in libs.items():
            rel = 2e-13 if dt == np.float64 else 3e-5
            for mode in modes:
                n = MODES[mode]
                for c in range(max(4, nsearch // 2)):
                    x, ys, nx, nys, p = K.sample_batch(rng, n, wavenumber=wnk(base, c))
                    xa, ysa, nxa, nysa = [np.asarray(a, dtype=dt) for a in (x, ys, nx, nys)]
                    pa = np.asarray(p, dtype=dt)
                    got = call_cl(lib, base, mode, 6, dt, xa, ysa, nxa, nysa, pa)
                    ref = np.asarray(fh.helmholtz_kernel(xa[:, None].astype(np.float64), ysa.astype(np.float64),
                                                         pa.astype(np.float64), np.dtype("float64"), np.complex128))
                    bad = False
                    for l in range(n):
                        env = K.env_of(xa.astype(float), ysa[:, l].astype(float), nxa.astype(float), nysa[:, l].astype(float),
                                       pa.astype(float))
                        for d in range(3):
                            mag = K.ev(ginfo["comps"][d + 1]["re"], env)[1] + K.ev(ginfo["comps"][d + 1]["im"], env)[1]
                            g = complex(float(got[2 * d, l]), float(got[2 * d + 1, l]))
                            r_ = complex(ref[4 * l + 1 + d])
                            res["search"]["evaluations"] += 1
                            if not abs(g - r_) <= rel * mag + 1e-300:
                                res["failures"].append({
                                    "signature": "C20 kernel helmholtz_gradient: kernels.h %s_%s differs from fmm.helpers.helmholtz_kernel" % (base, mode),
                                    "what": "OpenCL Helmholtz gradient differs from the gradient slots of the Numba point kernel",
                                    "data": {"precision": "double" if prec else "single", "env": env, "component": d,
                                             "opencl": [g.real, g.imag], "numba": [r_.real, r_.imag]}})
                                bad = True
                        if bad:
                            break
                    if bad:
                        break
    res["notes"].append("total %.1fs" % (time.time() - t0))
    K.out(res)


if __name__ == "__main__":
    main()
