import numpy as np
class _Fmm:
    def __init__(self,*a,**k): self.args=a; self.kw=k
LaplaceFmm=HelmholtzFmm=ModifiedHelmholtzFmm=_Fmm
def init_sources(points, charges): return ("src",points)
def init_targets(points): return ("trg",points)
def setup(s,t,f): return {"s":s,"t":t}
def update_charges(tree, vec): tree["q"]=vec
def clear_values(tree): pass
def evaluate(tree,fmm): raise RuntimeError("stub exafmm cannot evaluate; set fmm.dense_evaluation")
