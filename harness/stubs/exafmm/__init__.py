"""Stub exafmm: never evaluates (dense_evaluation must be on)."""
from . import laplace, helmholtz, modified_helmholtz
