"""C17 failing-input search (real kernels, API level): assembler='fmm' (exafmm stand-in + fmm.dense_evaluation, i.e.
the library's own exact evaluator) versus assembler='dense' for boundary and potential operators.

quick: assembler / evaluator bodies run as Python (bcommon.PurePython, FmmPython(python_bodies=True)), real
Green's function kernels.  thorough: additionally the Numba-compiled path and the shipped reference vectors."""
import os

import numpy as np

import bcommon as bc
import c17_impl as ci


def is_prefix(space):
    s = [int(x) for x in space.support_elements]
    return s == list(range(len(s)))


def rel(a, b):
    s = max(np.abs(a).max(), np.abs(b).max(), 1e-300)
    return float(np.abs(a - b).max() / s)


def boundary_configs(strength):
    # (label, mesh, trial spec, test mesh or None, test spec, ops)
    scal = ["sl", "dl", "adl"]
    cfgs = [
        ("octa/P1", "octa", ("P", 1, {}), None, ("P", 1, {}), scal + ["hyp"]),
        ("octa/DP0", "octa", ("DP", 0, {}), None, ("DP", 0, {}), scal),
        ("octa/P1swapped", "octa", ("P", 1, {"swapped_normals": [1]}), None, ("P", 1, {"swapped_normals": [1]}),
         ["dl", "adl", "hyp"]),
        ("screen22/P1b", "screen22", ("P", 1, {"include_boundary_dofs": True}), None,
         ("P", 1, {"include_boundary_dofs": True}), ["sl", "hyp"]),
        ("octa/P1seg0", "octa", ("P", 1, {"segments": [0], "include_boundary_dofs": True}), None,
         ("P", 1, {"segments": [0], "include_boundary_dofs": True}), ["sl", "hyp"]),
        ("octa/DP0seg1", "octa", ("DP", 0, {"segments": [1]}), None, ("DP", 0, {"segments": [1]}), ["sl"]),
        ("cube12/DP0seg0(prefix)", "cube12", ("DP", 0, {"segments": [0]}), None, ("DP", 0, {"segments": [0]}),
         ["sl", "dl"]),
        ("octa/RWG", "octa", ("RWG", 0, {}), None, ("SNC", 0, {}), ["efield", "mfield"]),
        ("cube12/RWGseg0(prefix)", "cube12", ("RWG", 0, {"segments": [0], "include_boundary_dofs": True}), None,
         ("SNC", 0, {"segments": [0], "include_boundary_dofs": True}), ["efield", "mfield"]),
        ("octa/RWGseg1", "octa", ("RWG", 0, {"segments": [1], "include_boundary_dofs": True}), None,
         ("SNC", 0, {"segments": [1], "include_boundary_dofs": True}), ["efield", "mfield"]),
        # one grid, different test and trial spaces
        ("octa/P1seg0<-P1seg1", "octa", ("P", 1, {"segments": [1], "include_boundary_dofs": True}), None,
         ("P", 1, {"segments": [0], "include_boundary_dofs": True}), ["sl", "hyp"]),
        ("octa/P1swapped<-P1", "octa", ("P", 1, {}), None, ("P", 1, {"swapped_normals": [1]}), ["dl", "adl", "hyp"]),
        ("screen22/P1<-P1b", "screen22", ("P", 1, {"include_boundary_dofs": True}), None, ("P", 1, {}),
         ["sl", "hyp"]),
        ("octa/DP1<-P1", "octa", ("P", 1, {}), None, ("DP", 1, {}), ["hyp"]),
        ("octa/SNCseg0<-RWGseg1", "octa", ("RWG", 0, {"segments": [1], "include_boundary_dofs": True}), None,
         ("SNC", 0, {"segments": [0], "include_boundary_dofs": True}), ["efield", "mfield"]),
        ("screen22/SNC<-RWGb", "screen22", ("RWG", 0, {"include_boundary_dofs": True}), None, ("SNC", 0, {}),
         ["efield", "mfield"]),
        ("tet->strip3/P1", "tet", ("P", 1, {}), "strip3", ("DP", 0, {}), ["sl", "dl"]),
        ("fan4->tet/RWG", "fan4", ("RWG", 0, {}), "tet", ("SNC", 0, {}), ["efield", "mfield"]),
        ("tet/P1-bary", "tet", ("P-bary", 1, {}), None, ("P-bary", 1, {}), ["sl"]),
        ("tet/DUAL0", "tet", ("DUAL", 0, {}), None, ("DUAL", 0, {}), ["sl", "dl"]),
    ]
    if strength in ("thorough", "escalated"):
        cfgs += [
            ("cube12/P1seg2", "cube12", ("P", 1, {"segments": [2], "include_boundary_dofs": True}), None,
             ("P", 1, {"segments": [2], "include_boundary_dofs": True}), ["sl", "hyp"]),
            ("tet/BC-RBC", "tet", ("BC", 0, {}), None, ("RBC", 0, {}), ["efield"]),
            ("tet/RWG-bary", "tet", ("RWG-bary", 0, {}), None, ("SNC-bary", 0, {}), ["mfield"]),
            ("octa/DUAL1", "octa", ("DUAL", 1, {}), None, ("DUAL", 1, {}), ["sl"]),
            ("screen22/RWGb", "screen22", ("RWG", 0, {"include_boundary_dofs": True}), None,
             ("SNC", 0, {"include_boundary_dofs": True}), ["efield", "mfield"]),
        ]
    return cfgs


def wavenumbers(op, strength="thorough"):
    if op in ("efield", "mfield"):
        return [1.25, 0.75 + 0.5j] if strength != "quick" else [0.75 + 0.5j]
    if strength == "quick":
        return [None, 1.0 + 0.5j, ("mod", 0.75)] if op in ("sl", "hyp") else [None, 1.0 + 0.5j]
    if op == "adl":
        return [None, 1.0 + 0.5j, ("mod", 0.75)]
    return [None, 1.25, 1.0 + 0.5j, ("mod", 0.75)]


def make_op(api, op, dom, dual, k, assembler):
    B = api.operators.boundary
    if isinstance(k, tuple):
        w = k[1]
        fam = B.modified_helmholtz
        f = {"sl": fam.single_layer, "dl": fam.double_layer, "adl": fam.adjoint_double_layer,
             "hyp": fam.hypersingular}[op]
        return f(dom, dual, dual, w, assembler=assembler)
    if op == "adl":
        return (B.laplace.adjoint_double_layer(dom, dual, dual, assembler=assembler) if k is None else
                B.helmholtz.adjoint_double_layer(dom, dual, dual, k, assembler=assembler))
    return ci.boundary_factory(api, op, dom, dual, k, assembler)


def full_local_space(api, space):
    """The element-local ('discontinuous') space with the same shapeset on the whole grid of `space`:
    numbering nshape*e+i, multipliers 1 - the target of space.map_to_full_grid."""
    g = space.grid
    sid = space.shapeset.identifier
    if sid == "p0_discontinuous":
        return api.function_space(g, "DP", 0)
    if sid == "p1_discontinuous":
        return api.function_space(g, "DP", 1)
    if sid == "rwg0":
        return api.function_space(g, "RWG", 0, include_boundary_dofs=True).localised_space
    if sid == "snc0":
        return api.function_space(g, "SNC", 0, include_boundary_dofs=True).localised_space
    raise ValueError(sid)


def dense_apply(api, op, dom, dual, k, x):
    """Dense reference; spaces with a dof transformation (barycentric / dual) are not accepted by the dense
    assembler: assemble on the element-local spaces of their grids and apply map_to_full_grid.dof_transformation
    (the same maps the potential assembler uses)."""
    if dom.requires_dof_transformation or dual.requires_dof_transformation:
        fd, ft = full_local_space(api, dom), full_local_space(api, dual)
        if op in ("efield", "mfield"):      # the factories insist on the identifiers rwg0 / snc0
            from bempp_cl.api.operators.boundary import common
            ident = "maxwell_electric_field" if op == "efield" else "maxwell_magnetic_field"
            A = np.asarray(common.create_operator(ident + "_boundary", fd, ft, ft, None, "dense",
                                                  [np.real(k), np.imag(k)], "helmholtz_single_layer", ident, None,
                                                  None, True).weak_form().to_dense())
        else:
            A = np.asarray(make_op(api, op, fd, ft, k, "dense").weak_form().to_dense())
        xl = dom.map_to_full_grid @ (dom.dof_transformation @ x)
        return dual.dof_transformation.T @ (dual.map_to_full_grid.T @ (A @ xl))
    return np.asarray(make_op(api, op, dom, dual, k, "dense").weak_form() @ x)


def run_boundary(api, rng, strength, results, fails, tag):
    for (label, mA, sA, mB, sB, ops) in boundary_configs(strength):
        gA = bc.make_grid(mA)
        gB = gA if mB is None else bc.make_grid(mB, shift=(2.5, 0.5, 0.75))
        try:
            dom = bc.make_space(api, gA, sA)
            dual = bc.make_space(api, gB, sB)
        except Exception as ex:
            fails.append({"signature": "C17:space-construction:" + type(ex).__name__,
                          "what": "could not build the spaces of %s: %r" % (label, ex), "data": {"config": label}})
            continue
        if dom.global_dof_count == 0 or dual.global_dof_count == 0:
            continue
        prefix = is_prefix(dom) and is_prefix(dual)
        for op in ops:
            for k in wavenumbers(op, strength):
                nd = dom.global_dof_count
                x = rng.integers(-4, 5, size=nd) / 4.0
                cplx_vec = bool(rng.integers(0, 2))
                if cplx_vec:
                    x = x + 1j * rng.integers(-4, 5, size=nd) / 4.0
                data = {"config": label, "operator": op, "k": str(k), "complex_vector": cplx_vec, "path": tag,
                        "support_is_prefix": prefix, "trial_support": [int(e) for e in dom.support_elements][:12]}
                results["n"] += 1
                try:
                    yd = dense_apply(api, op, dom, dual, k, x)
                except Exception as ex:
                    fails.append({"signature": "C17:dense-exception:" + type(ex).__name__, "data": data,
                                  "what": "dense assembly raised %r" % (ex,)})
                    continue
                try:
                    Af = make_op(api, op, dom, dual, k, "fmm").weak_form()
                    yf = np.asarray(Af @ x)
                except Exception as ex:
                    if not prefix:
                        fails.append({"signature": "C17:fmm-raises:non-prefix-support", "data": data,
                                      "what": "assembler='fmm' raises %s on a space whose support_elements is not a "
                                              "prefix of the element list (map_space_to_points_impl indexes its "
                                              "outputs by element number): %s" % (type(ex).__name__, str(ex)[:120])})
                    else:
                        fails.append({"signature": "C17:fmm-exception:" + type(ex).__name__, "data": data,
                                      "what": "assembler='fmm' raised %r" % (ex,)})
                    continue
                err = rel(yd, yf)
                key = op + ("/nonprefix" if not prefix else "")
                results[key] = max(results.get(key, 0.0), err)
                if not err <= 1e-10:
                    if not prefix:
                        fails.append({"signature": "C17:fmm-wrong:non-prefix-support", "data": dict(data, rel_err=err),
                                      "what": "assembler='fmm' differs from dense by %.2e on a space whose "
                                              "support_elements is not a prefix of the element list (curl/RWG/div "
                                              "transforms use the support position as point index)" % err})
                    else:
                        fails.append({"signature": "C17:fmm-vs-dense:" + op, "data": dict(data, rel_err=err),
                                      "what": "assembler='fmm' with the exact evaluator differs from dense by %.2e"
                                              % err})


def run_potentials(api, rng, strength, results, fails, tag):
    pts = np.array([[2.0, 0.25, 0.5], [-1.5, 1.0, -0.75], [0.0, 0.0, 3.0]]).T
    cfgs = [("octa/P1", "octa", ("P", 1, {}), ["psl", "pdl"]),
            ("octa/DP0seg1", "octa", ("DP", 0, {"segments": [1]}), ["psl"]),
            ("octa/RWG", "octa", ("RWG", 0, {}), ["pefield", "pmfield"]),
            ("octa/RWGseg1", "octa", ("RWG", 0, {"segments": [1], "include_boundary_dofs": True}),
             ["pefield", "pmfield"]),
            ("screen22/DP0", "screen22", ("DP", 0, {}), ["psl", "pdl"])]
    for (label, m, spec, ops) in cfgs:
        g = bc.make_grid(m)
        space = bc.make_space(api, g, spec)
        prefix = is_prefix(space)
        for op in ops:
            ks = [1.25, 0.75 + 0.5j] if op in ("pefield", "pmfield") else [None, 1.0 + 0.5j]
            for k in ks:
                nd = space.global_dof_count
                c = rng.integers(-4, 5, size=nd) / 4.0 + 1j * rng.integers(-4, 5, size=nd) / 4.0 * (k is not None)
                data = {"config": label, "operator": op, "k": str(k), "path": tag, "support_is_prefix": prefix}
                results["n"] += 1
                try:
                    gf = api.GridFunction(space, coefficients=c)
                    vd = np.asarray(ci.potential_factory(api, op, space, pts, k, "dense").evaluate(gf))
                except Exception as ex:
                    fails.append({"signature": "C17:dense-exception:" + type(ex).__name__, "data": data,
                                  "what": "dense potential raised %r" % (ex,)})
                    continue
                try:
                    vf = np.asarray(ci.potential_factory(api, op, space, pts, k, "fmm").evaluate(gf))
                except Exception as ex:
                    sig = "C17:fmm-raises:non-prefix-support" if not prefix else "C17:fmm-exception:" + type(ex).__name__
                    fails.append({"signature": sig, "data": data,
                                  "what": "potential with assembler='fmm' raises %s: %s" % (type(ex).__name__, str(ex)[:120])})
                    continue
                err = rel(vd, vf)
                key = op + ("/nonprefix" if not prefix else "")
                results[key] = max(results.get(key, 0.0), err)
                if not err <= 1e-10:
                    sig = "C17:fmm-wrong:non-prefix-support" if not prefix else "C17:fmm-vs-dense:" + op
                    fails.append({"signature": sig, "data": dict(data, rel_err=err),
                                  "what": "potential with assembler='fmm' differs from dense by %.2e" % err})


def reference_vectors(api, results, fails):
    """The vectors shipped under /repo/test/data (computed by the authors with the real exafmm, rtol 2e-3)."""
    root = os.path.join(os.environ.get("VERIF_REPO", "/repo"), "test", "data")
    try:
        grid = api.import_grid(os.path.join(root, "fmm_grid.msh"))
        vec = np.load(os.path.join(root, "fmm_p1_vec.npy"))
    except Exception as ex:
        results["reference_vectors"] = "not loadable: %r" % (ex,)
        return
    space = api.function_space(grid, "P", 1)
    B = api.operators.boundary.laplace
    for fname, fac in (("fmm_laplace_single", B.single_layer), ("fmm_laplace_hyper", B.hypersingular)):
        try:
            ref = np.load(os.path.join(root, fname + ".npy"))
        except Exception:
            continue
        y = fac(space, space, space, assembler="fmm").weak_form() @ vec
        err = float(np.max(np.abs(ref - y) / np.maximum(np.abs(ref), 1e-300)))
        results["reference/" + fname] = err
        results["n"] += 1
        if not np.allclose(ref, y, rtol=2e-3):
            fails.append({"signature": "C17:reference-vector:" + fname, "data": {"max_rel_err": err},
                          "what": "shipped reference vector %s is not reproduced within rtol 2e-3" % fname})


def run(cfg):
    api = bc.enable_fmm_stub()
    strength = cfg.get("strength", "quick")
    rng = np.random.default_rng(int(cfg.get("seed", 0)) + 17)
    api.GLOBAL_PARAMETERS.quadrature.regular = 3
    api.GLOBAL_PARAMETERS.quadrature.singular = 2
    results = {"n": 0}
    fails = []
    with bc.PurePython(), bc.FmmPython(python_bodies=True), np.errstate(all="ignore"):
        run_boundary(api, rng, strength, results, fails, "python-body")
        run_potentials(api, rng, strength, results, fails, "python-body")
    if strength == "thorough":
        api.GLOBAL_PARAMETERS.quadrature.regular = 4
        api.GLOBAL_PARAMETERS.quadrature.singular = 4
        with bc.FmmPython():
            run_boundary(api, rng, "quick", results, fails, "numba")
            run_potentials(api, rng, "quick", results, fails, "numba")
            reference_vectors(api, results, fails)
    # one failure per signature is enough for the verdict; keep the first three of each as data
    n = results.pop("n")
    seen = {}
    kept = []
    for f in fails:
        seen[f["signature"]] = seen.get(f["signature"], 0) + 1
        if seen[f["signature"]] <= 3:
            kept.append(f)
    results["failure_counts"] = seen
    return {"evaluations": n, "worst": results, "failures": kept}
