"""C07 failing-input search (real kernels, API level): boundary matrix between two disjoint grids versus the
potential of every trial basis function evaluated at the test grid's quadrature points (grid.map_to_point_cloud
order!) and integrated against the test functions (for Maxwell: (potential x n) against the SNC functions)."""
import numpy as np

import bcommon as bc


def tested_potential(api, pot_factory, dom, dual, order, vector):
    from bempp_cl.api.integration.triangle_gauss import rule
    gB = dual.grid
    qp, qw = rule(order)
    nq = len(qw)
    pts = np.asarray(gB.map_to_point_cloud(order)).T            # 3 x (nq * nE), point nq*e + q
    pot = pot_factory(dom, pts)
    nd = dom.global_dof_count
    T = np.zeros((dual.global_dof_count, nd), dtype=np.complex128)
    cols = []
    for J in range(nd):
        c = np.zeros(nd)
        c[J] = 1.0
        cols.append(np.asarray(pot.evaluate(api.GridFunction(dom, coefficients=c))))
    for e in dual.support_elements:
        vals = dual.evaluate(e, qp)                              # (codim, nshape, nq), multipliers included
        n = gB.normals[e] * dual.normal_multipliers[e]
        je = gB.integration_elements[e]
        for J in range(nd):
            P = cols[J][:, nq * e:nq * (e + 1)]                  # (dim, nq)
            if vector:
                P = np.cross(P.T, n).T                           # potential x n
            for i in range(vals.shape[1]):
                T[dual.local2global[e, i], J] += np.sum(qw * je * np.sum(vals[:, i, :] * P, axis=0))
    return T


def rel(a, b):
    s = max(np.abs(a).max(), np.abs(b).max(), 1e-300)
    return float(np.abs(a - b).max() / s)


def families(api):
    B, P = api.operators.boundary, api.operators.potential
    out = []
    out.append(("laplace_slp", None, lambda d, r, t: B.laplace.single_layer(d, r, t, assembler="dense"),
                lambda s, x: P.laplace.single_layer(s, x), False, "scalar"))
    out.append(("laplace_dlp", None, lambda d, r, t: B.laplace.double_layer(d, r, t, assembler="dense"),
                lambda s, x: P.laplace.double_layer(s, x), False, "scalar"))
    for k in (1.25, 1.0 + 0.5j):
        out.append(("helmholtz_slp", k, lambda d, r, t, k=k: B.helmholtz.single_layer(d, r, t, k, assembler="dense"),
                    lambda s, x, k=k: P.helmholtz.single_layer(s, x, k), False, "scalar"))
        out.append(("helmholtz_dlp", k, lambda d, r, t, k=k: B.helmholtz.double_layer(d, r, t, k, assembler="dense"),
                    lambda s, x, k=k: P.helmholtz.double_layer(s, x, k), False, "scalar"))
        out.append(("maxwell_mfield", k, lambda d, r, t, k=k: B.maxwell.magnetic_field(d, r, t, k, assembler="dense"),
                    lambda s, x, k=k: P.maxwell.magnetic_field(s, x, k), True, "maxwell"))
    w = 0.75
    out.append(("modified_helmholtz_slp", w,
                lambda d, r, t: B.modified_helmholtz.single_layer(d, r, t, w, assembler="dense"),
                lambda s, x: P.modified_helmholtz.single_layer(s, x, w), False, "scalar"))
    out.append(("modified_helmholtz_dlp", w,
                lambda d, r, t: B.modified_helmholtz.double_layer(d, r, t, w, assembler="dense"),
                lambda s, x: P.modified_helmholtz.double_layer(s, x, w), False, "scalar"))
    return out


def space_pairs(api, gA, gB, kind):
    if kind == "scalar":
        return [(api.function_space(gA, "P", 1, **kwA), api.function_space(gB, tk, td, **kwB), lab)
                for (kwA, tk, td, kwB, lab) in (
                    ({}, "DP", 0, {}, "P1->DP0"),
                    ({"swapped_normals": [1]}, "DP", 0, {}, "P1swapped->DP0"),
                    ({"segments": [1], "include_boundary_dofs": True}, "P", 1, {"include_boundary_dofs": True},
                     "P1seg->P1"),
                )] + [(api.function_space(gA, "DP", 1), api.function_space(gB, "DP", 1, segments=[1]), "DP1->DP1seg")]
    return [(api.function_space(gA, "RWG", 0, **kwA), api.function_space(gB, "SNC", 0, **kwB), lab)
            for (kwA, kwB, lab) in (({}, {"include_boundary_dofs": True}, "RWG->SNC"),
                                    ({"segments": [1], "include_boundary_dofs": True},
                                     {"include_boundary_dofs": True}, "RWGseg->SNC"))]


def run_pairs(api, mesh_pairs, results, fails, tag, order):
    api.GLOBAL_PARAMETERS.quadrature.regular = order
    for (mA, mB, shift) in mesh_pairs:
        gA = bc.make_grid(mA)
        gB = bc.make_grid(mB, shift=shift, scale=0.75)
        for (name, k, bfac, pfac, vector, kind) in families(api):
            for (dom, dual, lab) in space_pairs(api, gA, gB, kind):
                data = {"trial_grid": mA, "test_grid": mB, "shift": list(shift), "family": name,
                        "k": None if k is None else str(k), "spaces": lab, "path": tag, "order": order}
                if dom.global_dof_count == 0 or dual.global_dof_count == 0:
                    continue
                try:
                    M = np.asarray(bfac(dom, dual, dual).weak_form().to_dense())
                    T = tested_potential(api, pfac, dom, dual, order, vector)
                    err = rel(M, T)
                except Exception as ex:
                    fails.append({"signature": "C07:exception:" + type(ex).__name__, "data": data,
                                  "what": "two-grid assembly / potential evaluation raised %r" % (ex,)})
                    continue
                results[name] = max(results.get(name, 0.0), err)
                results["n"] += 1
                if not err <= 1e-10:
                    fails.append({"signature": "C07:two-grid-vs-tested-potential:" + name,
                                  "data": dict(data, rel_err=err),
                                  "what": "%s matrix between disjoint grids differs from the Galerkin-tested "
                                          "potential by %.2e" % (name, err)})


def efield_refinement(api, results, fails, tag, orders):
    """E-field: boundary kernel (weak div-div form) vs potential kernel (analytic gradient): equal up to quadrature
    error only -> test as convergence."""
    B, P = api.operators.boundary, api.operators.potential
    # integration by parts on the test surface needs test functions without boundary flux: closed test grid
    gA = bc.make_grid("fan4")
    gB = bc.make_grid("tet", shift=(3.0, 0.5, 0.25), scale=0.75)
    dom = api.function_space(gA, "RWG", 0)
    dual = api.function_space(gB, "SNC", 0)
    for k in (1.0, 0.75 + 0.5j):
        seq = []
        for o in orders:
            api.GLOBAL_PARAMETERS.quadrature.regular = o
            M = np.asarray(B.maxwell.electric_field(dom, dual, dual, k, assembler="dense").weak_form().to_dense())
            T = tested_potential(api, lambda s, x: P.maxwell.electric_field(s, x, k), dom, dual, o, True)
            seq.append(rel(M, T))
        results["efield_refinement_k=%s" % k] = seq
        results["n"] += len(seq)
        ok = seq[-1] <= 0.05 * seq[0] and seq[-1] <= 1e-5
        if not ok:
            fails.append({"signature": "C07:efield-two-grid-convergence",
                          "data": {"k": str(k), "orders": list(orders), "rel_err": seq, "path": tag},
                          "what": "electric field matrix between disjoint grids does not converge to the tested "
                                  "electric potential: %s" % seq})


def potential_kernel_sums(api, results, fails, tag):
    """Potential operators on supports that are not a prefix of the element list (non-uniform areas, multipliers not
    all 1) against a direct numpy kernel sum built from space.evaluate, the grid geometry and the Green's function."""
    from bempp_cl.core import numba_kernels as nk
    from bempp_cl.api.integration.triangle_gauss import rule
    P = api.operators.potential
    order = 3
    api.GLOBAL_PARAMETERS.quadrature.regular = order
    qp, qw = rule(order)
    pts = np.array([[2.0, 0.25, 0.5], [-1.5, 1.0, -0.75], [0.1, 0.2, 3.0]]).T
    refv = np.array([[0.0, 1.0, 0.0], [0.0, 0.0, 1.0]])
    rng = np.random.default_rng(7)
    cases = [("tet", ("RWG", 0, {"segments": [1], "include_boundary_dofs": True})),
             ("octa", ("RWG", 0, {"support_elements": [1, 2, 3, 5, 6, 7]})),
             ("octa", ("P", 1, {"support_elements": [1, 2, 3, 5, 6, 7]})),
             ("cube12", ("DP", 1, {"segments": [1, 2]}))]
    for (m, spec) in cases:
        grid = bc.make_grid(m)
        sp = bc.make_space(api, grid, spec)
        if sp.global_dof_count == 0:
            continue
        gd = grid.data("double")
        c = rng.integers(-4, 5, size=sp.global_dof_count) / 4.0 + 1j * rng.integers(-4, 5, size=sp.global_dof_count) / 4.0
        k = 0.75 + 0.5j
        kp = np.array([k.real, k.imag])
        gf = api.GridFunction(sp, coefficients=c)
        maxwell = spec[0] == "RWG"
        direct = {}
        names = ["efield", "mfield"] if maxwell else ["slp", "dlp"]
        for nme in names:
            direct[nme] = np.zeros((3 if maxwell else 1, pts.shape[1]), dtype=np.complex128)
        jit = grid.jacobian_inverse_transposed
        for e in sp.support_elements:
            y = gd.local2global(e, qp)
            vals = sp.evaluate(e, qp)
            vv = sp.evaluate(e, refv)
            wj = qw * grid.integration_elements[e]
            nrm = np.repeat((grid.normals[e] * sp.normal_multipliers[e]).reshape(3, 1), len(qw), axis=1)
            for t in range(pts.shape[1]):
                x = pts[:, t].copy()
                G = nk.helmholtz_single_layer_regular(x, y, np.zeros(3), nrm, kp)
                if maxwell:
                    d = x.reshape(3, 1) - y
                    r = np.sqrt(np.sum(d * d, axis=0))
                    gradG = G * (1j * k * r - 1) / (r * r) * d
                    f = sum(vals[:, i, :] * c[sp.local2global[e, i]] for i in range(3))
                    div = sum(((vv[:, i, 1] - vv[:, i, 0]) @ jit[e][:, 0] + (vv[:, i, 2] - vv[:, i, 0]) @ jit[e][:, 1])
                              * c[sp.local2global[e, i]] for i in range(3))
                    direct["efield"][:, t] += 1j * k * np.sum(G * f * wj, axis=1) - (1.0 / (1j * k)) * np.sum(gradG * div * wj, axis=1)
                    direct["mfield"][:, t] += np.sum(np.cross(gradG.T, f.T).T * wj, axis=1)
                else:
                    u = sum(vals[0, i, :] * c[sp.local2global[e, i]] for i in range(vals.shape[1]))
                    D = nk.helmholtz_double_layer_regular(x, y, np.zeros(3), nrm, kp)
                    direct["slp"][0, t] += np.sum(G * u * wj)
                    direct["dlp"][0, t] += np.sum(D * u * wj)
        ops = {"efield": lambda: P.maxwell.electric_field(sp, pts, k), "mfield": lambda: P.maxwell.magnetic_field(sp, pts, k),
               "slp": lambda: P.helmholtz.single_layer(sp, pts, k), "dlp": lambda: P.helmholtz.double_layer(sp, pts, k)}
        for nme in names:
            data = {"grid": m, "space": [spec[0], spec[1], spec[2]], "operator": nme, "k": str(k), "path": tag,
                    "support": [int(e) for e in sp.support_elements]}
            try:
                val = np.asarray(ops[nme]().evaluate(gf))
                err = rel(val, direct[nme])
            except Exception as ex:
                fails.append({"signature": "C07:exception:" + type(ex).__name__, "data": data,
                              "what": "potential evaluation raised %r" % (ex,)})
                continue
            results["potential_kernel_sum/" + nme] = max(results.get("potential_kernel_sum/" + nme, 0.0), err)
            results["n"] += 1
            if not err <= 1e-10:
                fails.append({"signature": "C07:potential-kernel-sum:" + nme, "data": dict(data, rel_err=err),
                              "what": "%s potential on a non-prefix support differs from the direct kernel sum by %.2e"
                                      % (nme, err)})


def run(cfg):
    import bempp_cl.api as api
    strength = cfg.get("strength", "quick")
    results = {"n": 0}
    fails = []
    quick_pairs = [("tet", "strip3", (3.0, 0.5, 0.25)), ("screen22", "tet", (0.25, 0.5, 2.5))]
    with bc.PurePython(), np.errstate(all="ignore"):
        run_pairs(api, quick_pairs if strength == "quick" else quick_pairs + [("octa", "fan4", (-3.0, 0.0, 0.5))],
                  results, fails, "python-body", 2)
        efield_refinement(api, results, fails, "python-body", (2, 4, 6))
        potential_kernel_sums(api, results, fails, "python-body")
    if strength == "thorough":
        run_pairs(api, [("octa", "cube12", (3.0, 0.5, 0.25))], results, fails, "numba", 4)
        efield_refinement(api, results, fails, "numba", (2, 4, 6, 8))
    n = results.pop("n")
    return {"evaluations": n, "worst": results, "failures": fails}
