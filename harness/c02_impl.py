"""C02 implementation side.

mode "corr":   potential operators through the real pipeline (PotentialAssembler -> DensePotentialAssembler ->
               numba potential assembler body, coefficients mapped by map_to_full_grid . dof_transformation) with a
               surrogate kernel, dumped as exact rationals for the Coq model (PotModel.v).
mode "search": Green's representation formula on closed meshes with the real Laplace kernels: SLP[du/dn] - DLP[u]
               at interior / exterior points, as convergence in the regular quadrature order; whole-grid spaces and
               sums over segment spaces.
"""
import json
import sys
import time

import numpy as np

import bcommon as bc


def potential_cases(strength):
    strength = "thorough" if strength == "escalated" else strength
    pts = [[2.0, 0.25, 0.5], [-1.5, 1.0, -0.75], [0.125, 0.25, 3.0], [0.25, 0.25, 0.125]]
    cases = [
        ("tet", ("P", 1, {}), "scalar", None, pts),
        # continuous P1 is not its own localised space: the normal multipliers must survive make_localised_space
        ("tet", ("P", 1, {"swapped_normals": [1]}), "scalar", None, pts),
        ("islands3", ("P", 1, {"segments": [1], "swapped_normals": [1], "include_boundary_dofs": True}), "scalar", None,
         pts[:3]),
        ("tet", ("DP", 0, {"segments": [1], "swapped_normals": [1]}), "scalar", None, pts),
        ("strip3", ("P", 1, {"segments": [1], "include_boundary_dofs": True}), "scalar", None, pts[:3]),
        ("fan4", ("DP", 1, {}), "scalar", 0.75 + 0.5j, pts[:2]),
        # non-prefix support, non-uniform areas, multipliers 0/1 (only the two vertices interior to the support carry dofs)
        ("octa", ("P", 1, {"support_elements": [1, 2, 3, 5, 6, 7]}), "scalar", None, pts[:2]),
    ]
    if strength == "thorough":
        cases += [
            ("tet", ("DP", 0, {"segments": [0, 2]}), "scalar", None, pts),
            ("tet", ("P-bary", 1, {}), "scalar", None, pts[:2]),
            ("fan4", ("P", 1, {"include_boundary_dofs": True, "segments": [1], "truncate_at_segment_edge": False}),
             "scalar", None, pts[:3]),
            ("strip3", ("DP", 1, {"segments": [1]}), "scalar", 1.0, pts[:3]),
        ]
    return cases


def run_corr(cfg):
    import bempp_cl.api as api
    api.GLOBAL_PARAMETERS.quadrature.regular = 2
    rng = np.random.default_rng(int(cfg.get("seed", 0)) + 202)
    pots = [bc.potential_case(api, rng, m, spec, fam, k, pts)
            for (m, spec, fam, k, pts) in potential_cases(cfg.get("strength", "quick"))]
    return {"pots": pots}


# -------------------------------------------------------------------------------------------------------------
def refined(name, levels):
    g = bc.make_grid(name)
    for _ in range(levels):
        g = g.refine()
    return g


def green_case(api, grid, a, b, points_in, points_out, orders, segment_mode, results, fails, tag, gname):
    P = api.operators.potential.laplace
    scale = max(abs(np.dot(a, v) + b) for v in grid.vertices.T)
    pts = np.array(points_in + points_out, dtype=np.float64).T
    exact = np.array([np.dot(a, p) + b for p in points_in] + [0.0] * len(points_out))
    seq = []
    for o in orders:
        api.GLOBAL_PARAMETERS.quadrature.regular = o
        if segment_mode:
            total = np.zeros(pts.shape[1])
            for seg in sorted(set(int(d) for d in grid.domain_indices)):
                dp0 = api.function_space(grid, "DP", 0, segments=[seg])
                dp1 = api.function_space(grid, "DP", 1, segments=[seg])
                lam = np.array([np.dot(a, grid.normals[e]) for e in dp0.support_elements])
                uu = np.array([np.dot(a, grid.vertices[:, grid.elements[i, e]]) + b
                               for e in dp1.support_elements for i in range(3)])
                # local2global of DP spaces on segments: position in support order
                cl = np.zeros(dp0.global_dof_count)
                for pos, e in enumerate(dp0.support_elements):
                    cl[dp0.local2global[e, 0]] = lam[pos]
                cu = np.zeros(dp1.global_dof_count)
                for pos, e in enumerate(dp1.support_elements):
                    for i in range(3):
                        cu[dp1.local2global[e, i]] = uu[3 * pos + i]
                total += (P.single_layer(dp0, pts).evaluate(api.GridFunction(dp0, coefficients=cl))
                          - P.double_layer(dp1, pts).evaluate(api.GridFunction(dp1, coefficients=cu)))[0]
            val = total
        else:
            dp0 = api.function_space(grid, "DP", 0)
            p1 = api.function_space(grid, "P", 1)
            lam = np.array([np.dot(a, grid.normals[e]) for e in range(grid.number_of_elements)])
            cu = np.zeros(p1.global_dof_count)
            for e in range(grid.number_of_elements):
                for i in range(3):
                    cu[p1.local2global[e, i]] = np.dot(a, grid.vertices[:, grid.elements[i, e]]) + b
            val = (P.single_layer(dp0, pts).evaluate(api.GridFunction(dp0, coefficients=lam))
                   - P.double_layer(p1, pts).evaluate(api.GridFunction(p1, coefficients=cu)))[0]
        seq.append(float(np.max(np.abs(val - exact)) / scale))
    key = "%s/%s/%s" % (gname, "segments" if segment_mode else "whole", tag)
    results[key] = seq
    results["n"] += len(seq) * pts.shape[1]
    ok = seq[-1] <= 1e-6 and seq[-1] <= seq[0] * 1.0 + 1e-12
    if not ok:
        fails.append({"signature": "C02:green-representation:" + ("segments" if segment_mode else "whole"),
                      "data": {"grid": gname, "a": list(a), "b": b, "orders": list(orders), "rel_err": seq,
                               "points_in": points_in, "points_out": points_out, "path": tag},
                      "what": "SLP[du/dn] - DLP[u] does not reproduce u inside / 0 outside to 1e-6: errors %s at "
                              "orders %s" % (seq, list(orders))})


def flipped_grid(api, name, levels, flip_domains):
    """closed grid whose faces with the given domain indices are stored inward (two vertex indices exchanged)"""
    V, E, D = bc.mesh(name)
    E = E.copy()
    for e in range(E.shape[1]):
        if int(D[e]) in flip_domains:
            E[1, e], E[2, e] = E[2, e], E[1, e]
    g = api.Grid(V, E, D)
    for _ in range(levels):
        g = g.refine()
    return g


def green_swapped(api, grid, flip_domains, a, b, points_in, points_out, orders, segment_mode, results, fails, gname):
    """Green's formula with continuous P1 (not its own localised space) and swapped_normals correcting the inward faces;
    plus the direct kernel sum of the double-layer potential with the SPACE's normal multipliers."""
    from bempp_cl.core import numba_kernels as nk
    from bempp_cl.api.integration.triangle_gauss import rule
    P = api.operators.potential.laplace
    pts = np.array(points_in + points_out, dtype=np.float64).T
    exact = np.array([np.dot(a, p) + b for p in points_in] + [0.0] * len(points_out))
    scale = max(abs(np.dot(a, v) + b) for v in grid.vertices.T)
    sw = sorted(flip_domains)
    segs = [[s_] for s_ in sorted(set(int(d) for d in grid.domain_indices))] if segment_mode else [None]
    seq, ksum = [], []
    for o in orders:
        api.GLOBAL_PARAMETERS.quadrature.regular = o
        qp, qw = rule(o)
        total = np.zeros(pts.shape[1])
        worst_k = 0.0
        for seg in segs:
            kw = {"swapped_normals": sw}
            if seg is not None:
                kw["segments"] = seg
            p1 = api.function_space(grid, "P", 1, include_boundary_dofs=True, **kw) if seg is not None else \
                api.function_space(grid, "P", 1, **kw)
            dp0 = api.function_space(grid, "DP", 0, **kw)
            neff = grid.normals * dp0.normal_multipliers.reshape(-1, 1)
            cl = np.zeros(dp0.global_dof_count)
            for e in dp0.support_elements:
                cl[dp0.local2global[e, 0]] = np.dot(a, neff[e])
            cu = np.zeros(p1.global_dof_count)
            for e in p1.support_elements:
                for i in range(3):
                    if p1.local_multipliers[e, i] != 0:
                        cu[p1.local2global[e, i]] = np.dot(a, grid.vertices[:, grid.elements[i, e]]) + b
            dl = P.double_layer(p1, pts).evaluate(api.GridFunction(p1, coefficients=cu))[0]
            sl = P.single_layer(dp0, pts).evaluate(api.GridFunction(dp0, coefficients=cl))[0]
            total += sl - dl
            # direct kernel sum with the space's own normal multipliers
            direct = np.zeros(pts.shape[1])
            gd = grid.data("double")
            for e in p1.support_elements:
                y = gd.local2global(e, qp)
                vals = p1.evaluate(e, qp)[0]
                uh = sum(vals[i] * cu[p1.local2global[e, i]] for i in range(3))
                nrm = np.repeat((grid.normals[e] * p1.normal_multipliers[e]).reshape(3, 1), len(qw), axis=1)
                for t in range(pts.shape[1]):
                    kv = nk.laplace_double_layer_regular(pts[:, t].copy(), y, np.zeros(3), nrm, np.zeros(0))
                    direct[t] += np.sum(kv * qw * grid.integration_elements[e] * uh)
            worst_k = max(worst_k, float(np.max(np.abs(direct - dl)) / max(np.max(np.abs(direct)), 1e-300)))
        seq.append(float(np.max(np.abs(total - exact)) / scale))
        ksum.append(worst_k)
    key = "%s/swapped-P1/%s" % (gname, "segments" if segment_mode else "whole")
    results[key] = seq
    results[key + "/kernel_sum"] = ksum
    results["n"] += 2 * len(seq) * pts.shape[1]
    data = {"grid": gname, "flipped_domains": sw, "a": list(a), "b": b, "orders": list(orders), "rel_err": seq,
            "kernel_sum_rel_err": ksum, "segments": segment_mode}
    if not (seq[-1] <= 1e-6):
        fails.append({"signature": "C02:green-representation:swapped-normals-P1", "data": data,
                      "what": "with swapped_normals correcting inward faces, SLP[du/dn] - DLP[u] (P1 density) does not "
                              "reproduce u inside / 0 outside: errors %s" % seq})
    if not (max(ksum) <= 1e-10):
        fails.append({"signature": "C02:double-layer-potential:kernel-sum:swapped-normals", "data": data,
                      "what": "double-layer potential of a %s density differs from the kernel sum with the space's normal "
                              "multipliers by %s" % ("P1 segment" if segment_mode else "continuous P1", ksum)})


def guarded(fails, label, fn, *a):
    """an exception while evaluating a legitimate potential is a failing input, not a harness crash"""
    try:
        fn(*a)
    except Exception as ex:
        fails.append({"signature": "C02:exception:" + type(ex).__name__, "data": {"case": label},
                      "what": "potential evaluation raised %r in %s" % (ex, label)})


def run_search(cfg):
    import bempp_cl.api as api
    strength = cfg.get("strength", "quick")
    rng = np.random.default_rng(int(cfg.get("seed", 0)) + 2)
    results = {"n": 0}
    fails = []
    # (mesh, refinement levels, interior points, exterior points): all >= one element diameter from the surface
    setups = [("cube12", 2, [[0.5, 0.5, 0.5], [0.45, 0.55, 0.5]], [[2.0, 0.5, 0.25], [0.5, -1.25, 0.5]]),
              ("octa", 2, [[0.0, 0.05, 0.0]], [[2.5, 0.5, 0.25], [0.0, 0.0, -2.5]])]
    if strength in ("thorough", "escalated"):
        setups.append(("tet", 3, [[0.3, 0.35, 0.2]], [[2.0, 2.0, 2.0], [-1.0, 0.25, 0.25]]))
    orders = (8, 10, 12)
    with bc.PurePython(), np.errstate(all="ignore"):
        for (gname, lev, pin, pout) in setups:
            grid = refined(gname, lev)
            if bc.check_outward(grid) <= 0:
                fails.append({"signature": "C02:harness-mesh-not-outward", "what": "generator produced an inward mesh",
                              "data": {"grid": gname}})
                continue
            diam = float(np.max(grid.diameters))
            a = (rng.integers(-4, 5, size=3) / 4.0).tolist()
            if not any(a):
                a = [1.0, -0.5, 0.25]
            b = float(rng.integers(-4, 5)) / 4.0
            results["diameter/" + gname] = diam
            guarded(fails, gname + "/whole", green_case, api, grid, a, b, pin, pout, orders, False, results, fails,
                    "python-body", gname)
            guarded(fails, gname + "/segments", green_case, api, grid, a, b, pin, pout, orders, True, results, fails,
                    "python-body", gname)
        # inward-stored faces corrected by swapped_normals; continuous P1 (localised space is a different object)
        sw_orders = (8, 12)
        g1 = flipped_grid(api, "cube12", 2, {1})
        guarded(fails, "cube12-flipped1/whole", green_swapped, api, g1, {1}, [1.0, -0.5, 0.25], 0.5, [[0.5, 0.5, 0.5]],
                [[2.0, 0.5, 0.25]], sw_orders, False, results, fails, "cube12-flipped1")
        guarded(fails, "cube12-flipped1/segments", green_swapped, api, g1, {1}, [1.0, -0.5, 0.25], 0.5, [[0.5, 0.5, 0.5]],
                [[2.0, 0.5, 0.25]], sw_orders, True, results, fails, "cube12-flipped1")
    if strength == "thorough":
        grid = refined("cube12", 2)
        green_case(api, grid, [1.0, -0.5, 0.25], 0.5, [[0.5, 0.5, 0.5]], [[2.0, 0.5, 0.25]], orders, False, results,
                   fails, "numba", "cube12")
        green_case(api, grid, [1.0, -0.5, 0.25], 0.5, [[0.5, 0.5, 0.5]], [[2.0, 0.5, 0.25]], orders, True, results,
                   fails, "numba", "cube12")
    n = results.pop("n")
    return {"evaluations": n, "worst": results, "failures": fails}


def main():
    cfg = json.load(sys.stdin)
    t0 = time.time()
    res = run_corr(cfg) if cfg.get("mode") == "corr" else run_search(cfg)
    res["wall"] = time.time() - t0
    bc.emit(res)


if __name__ == "__main__":
    main()
