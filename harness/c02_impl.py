"""C02 implementation side.

mode "corr":   potential operators through the real pipeline (PotentialAssembler -> DensePotentialAssembler ->
               numba potential assembler body, coefficients mapped by map_to_full_grid . dof_transformation) with a
               surrogate kernel, dumped as exact rationals for the Coq model (PotModel.v).
mode "search": Green's representation formula on closed meshes with the real Laplace kernels: SLP[du/dn] - DLP[u]
               at interior / exterior points, as convergence in the regular quadrature order; whole-grid spaces and
               sums over segment spaces.
"""
import json
import sys
import time

import numpy as np

import bcommon as bc


def potential_cases(strength):
    strength = "thorough" if strength == "escalated" else strength
    pts = [[2.0, 0.25, 0.5], [-1.5, 1.0, -0.75], [0.125, 0.25, 3.0], [0.25, 0.25, 0.125]]
    cases = [
        ("tet", ("P", 1, {}), "scalar", None, pts),
        ("tet", ("DP", 0, {"segments": [1], "swapped_normals": [1]}), "scalar", None, pts),
        ("strip3", ("P", 1, {"segments": [1], "include_boundary_dofs": True}), "scalar", None, pts[:3]),
        ("fan4", ("DP", 1, {}), "scalar", 0.75 + 0.5j, pts[:2]),
    ]
    if strength == "thorough":
        cases += [
            ("tet", ("DP", 0, {"segments": [0, 2]}), "scalar", None, pts),
            ("tet", ("P-bary", 1, {}), "scalar", None, pts[:2]),
            ("fan4", ("P", 1, {"include_boundary_dofs": True, "segments": [1], "truncate_at_segment_edge": False}),
             "scalar", None, pts[:3]),
            ("strip3", ("DP", 1, {"segments": [1]}), "scalar", 1.0, pts[:3]),
        ]
    return cases


def run_corr(cfg):
    import bempp_cl.api as api
    api.GLOBAL_PARAMETERS.quadrature.regular = 2
    rng = np.random.default_rng(int(cfg.get("seed", 0)) + 202)
    pots = [bc.potential_case(api, rng, m, spec, fam, k, pts)
            for (m, spec, fam, k, pts) in potential_cases(cfg.get("strength", "quick"))]
    return {"pots": pots}


# -------------------------------------------------------------------------------------------------------------
def refined(name, levels):
    g = bc.make_grid(name)
    for _ in range(levels):
        g = g.refine()
    return g


def green_case(api, grid, a, b, points_in, points_out, orders, segment_mode, results, fails, tag, gname):
    P = api.operators.potential.laplace
    scale = max(abs(np.dot(a, v) + b) for v in grid.vertices.T)
    pts = np.array(points_in + points_out, dtype=np.float64).T
    exact = np.array([np.dot(a, p) + b for p in points_in] + [0.0] * len(points_out))
    seq = []
    for o in orders:
        api.GLOBAL_PARAMETERS.quadrature.regular = o
        if segment_mode:
            total = np.zeros(pts.shape[1])
            for seg in sorted(set(int(d) for d in grid.domain_indices)):
                dp0 = api.function_space(grid, "DP", 0, segments=[seg])
                dp1 = api.function_space(grid, "DP", 1, segments=[seg])
                lam = np.array([np.dot(a, grid.normals[e]) for e in dp0.support_elements])
                uu = np.array([np.dot(a, grid.vertices[:, grid.elements[i, e]]) + b
                               for e in dp1.support_elements for i in range(3)])
                # local2global of DP spaces on segments: position in support order
                cl = np.zeros(dp0.global_dof_count)
                for pos, e in enumerate(dp0.support_elements):
                    cl[dp0.local2global[e, 0]] = lam[pos]
                cu = np.zeros(dp1.global_dof_count)
                for pos, e in enumerate(dp1.support_elements):
                    for i in range(3):
                        cu[dp1.local2global[e, i]] = uu[3 * pos + i]
                total += (P.single_layer(dp0, pts).evaluate(api.GridFunction(dp0, coefficients=cl))
                          - P.double_layer(dp1, pts).evaluate(api.GridFunction(dp1, coefficients=cu)))[0]
            val = total
        else:
            dp0 = api.function_space(grid, "DP", 0)
            p1 = api.function_space(grid, "P", 1)
            lam = np.array([np.dot(a, grid.normals[e]) for e in range(grid.number_of_elements)])
            cu = np.zeros(p1.global_dof_count)
            for e in range(grid.number_of_elements):
                for i in range(3):
                    cu[p1.local2global[e, i]] = np.dot(a, grid.vertices[:, grid.elements[i, e]]) + b
            val = (P.single_layer(dp0, pts).evaluate(api.GridFunction(dp0, coefficients=lam))
                   - P.double_layer(p1, pts).evaluate(api.GridFunction(p1, coefficients=cu)))[0]
        seq.append(float(np.max(np.abs(val - exact)) / scale))
    key = "%s/%s/%s" % (gname, "segments" if segment_mode else "whole", tag)
    results[key] = seq
    results["n"] += len(seq) * pts.shape[1]
    ok = seq[-1] <= 1e-6 and seq[-1] <= seq[0] * 1.0 + 1e-12
    if not ok:
        fails.append({"signature": "C02:green-representation:" + ("segments" if segment_mode else "whole"),
                      "data": {"grid": gname, "a": list(a), "b": b, "orders": list(orders), "rel_err": seq,
                               "points_in": points_in, "points_out": points_out, "path": tag},
                      "what": "SLP[du/dn] - DLP[u] does not reproduce u inside / 0 outside to 1e-6: errors %s at "
                              "orders %s" % (seq, list(orders))})


def run_search(cfg):
    import bempp_cl.api as api
    strength = cfg.get("strength", "quick")
    rng = np.random.default_rng(int(cfg.get("seed", 0)) + 2)
    results = {"n": 0}
    fails = []
    # (mesh, refinement levels, interior points, exterior points): all >= one element diameter from the surface
    setups = [("cube12", 2, [[0.5, 0.5, 0.5], [0.45, 0.55, 0.5]], [[2.0, 0.5, 0.25], [0.5, -1.25, 0.5]]),
              ("octa", 2, [[0.0, 0.05, 0.0]], [[2.5, 0.5, 0.25], [0.0, 0.0, -2.5]])]
    if strength in ("thorough", "escalated"):
        setups.append(("tet", 3, [[0.3, 0.35, 0.2]], [[2.0, 2.0, 2.0], [-1.0, 0.25, 0.25]]))
    orders = (8, 10, 12)
    with bc.PurePython(), np.errstate(all="ignore"):
        for (gname, lev, pin, pout) in setups:
            grid = refined(gname, lev)
            if bc.check_outward(grid) <= 0:
                fails.append({"signature": "C02:harness-mesh-not-outward", "what": "generator produced an inward mesh",
                              "data": {"grid": gname}})
                continue
            diam = float(np.max(grid.diameters))
            a = (rng.integers(-4, 5, size=3) / 4.0).tolist()
            if not any(a):
                a = [1.0, -0.5, 0.25]
            b = float(rng.integers(-4, 5)) / 4.0
            results["diameter/" + gname] = diam
            green_case(api, grid, a, b, pin, pout, orders, False, results, fails, "python-body", gname)
            green_case(api, grid, a, b, pin, pout, orders, True, results, fails, "python-body", gname)
    if strength == "thorough":
        grid = refined("cube12", 2)
        green_case(api, grid, [1.0, -0.5, 0.25], 0.5, [[0.5, 0.5, 0.5]], [[2.0, 0.5, 0.25]], orders, False, results,
                   fails, "numba", "cube12")
        green_case(api, grid, [1.0, -0.5, 0.25], 0.5, [[0.5, 0.5, 0.5]], [[2.0, 0.5, 0.25]], orders, True, results,
                   fails, "numba", "cube12")
    n = results.pop("n")
    return {"evaluations": n, "worst": results, "failures": fails}


def main():
    cfg = json.load(sys.stdin)
    t0 = time.time()
    res = run_corr(cfg) if cfg.get("mode") == "corr" else run_search(cfg)
    res["wall"] = time.time() - t0
    bc.emit(res)


if __name__ == "__main__":
    main()
