"""C10 harness: data for the Gallina model of the BC/RBC coefficient stage.

The helper functions of bempp_cl.api.grid.grid that compute the coefficients are wrapped while the BC space is built; for
every global dof their inputs (ordered vertex fans, sorted border edges, valences, reference cells) are recorded together
with the column of dof_transformation the implementation produced from them."""
from fractions import Fraction as F

import numpy as np

import bempp_cl.api as api
import bempp_cl.api.grid.grid as G


def fr(x):
    f = F(float(x))
    return [f.numerator, f.denominator]


def _opt_name(o):
    return ",".join("%s=%s" % (k, o[k]) for k in sorted(o)) or "whole"


def record_bc(grid, o):
    """Build BC and RBC with the option set o, return (bc, rbc, per-dof records)."""
    rec = {"coef": [], "ref": []}
    orig1, orig2 = G._get_bary_coefficients, G._get_coefficients_reference_edge

    def w1(edge_lengths, ve1, ve2, se1, se2, bary_grid, local2global, nc1, nc2, dof, r1, r2):
        rec["coef"].append({"ve1": [[int(a), int(b)] for a, b in ve1], "ve2": [[int(a), int(b)] for a, b in ve2],
                            "se1": [int(x) for x in se1], "se2": [int(x) for x in se2], "nc1": int(nc1), "nc2": int(nc2),
                            "dof": int(dof), "r1": int(r1), "r2": int(r2)})
        return orig1(edge_lengths, ve1, ve2, se1, se2, bary_grid, local2global, nc1, nc2, dof, r1, r2)

    def w2(edge_lengths, bary_grid, local2global, dof, um, up, lm, lp):
        rec["ref"].append({"dof": int(dof), "cells": [int(um), int(up), int(lm), int(lp)]})
        return orig2(edge_lengths, bary_grid, local2global, dof, um, up, lm, lp)

    G._get_bary_coefficients, G._get_coefficients_reference_edge = w1, w2
    try:
        bc = api.function_space(grid, "BC", 0, **o)
    finally:
        G._get_bary_coefficients, G._get_coefficients_reference_edge = orig1, orig2
    rbc = api.function_space(grid, "RBC", 0, **o)
    return bc, rbc, rec


def dump(out, grids, rng, thorough, optsets_fn, max_dofs=4):
    cases = []
    for name, grid, dom in grids:
        bg = grid.barycentric_refinement
        for o in optsets_fn(grid, dom, thorough):
            if "segments" in o:
                rw = api.function_space(grid, "RWG", 0, **o)
                if rw.number_of_support_elements == 0 or not np.any(rw.local_multipliers[rw.support_elements] != 0):
                    continue
            try:
                bc, rbc, rec = record_bc(grid, o)
            except Exception as e:
                if "not implemented for" in str(e) or "connected only by a vertex" in str(e):
                    continue
                continue        # reported by c10_mass.bc_conformity
            T = bc.dof_transformation.tocsc()
            T2 = rbc.dof_transformation.tocsc()
            same = (T != T2).nnz == 0 and np.array_equal(bc.local2global, rbc.local2global) and \
                np.array_equal(bc.support_elements, rbc.support_elements) and \
                np.array_equal(bc.local_multipliers, rbc.local_multipliers)
            if not same:
                out["failures"].append({"signature": "C10:rbc:coefficients_differ_from_bc",
                                        "what": "RBC and BC (%s) on %s do not share dof_transformation/local2global" % (
                                            _opt_name(o), name), "data": {"grid": name, "options": o}})
            if len(rec["coef"]) != bc.global_dof_count or len(rec["ref"]) != bc.global_dof_count:
                continue
            lens = np.linalg.norm(bg.vertices[:, bg.edges[0, :]] - bg.vertices[:, bg.edges[1, :]], axis=0)
            ee = bg.element_edges
            picks = list(range(bc.global_dof_count))
            if len(picks) > max_dofs:
                picks = sorted(set(int(x) for x in rng.choice(len(picks), max_dofs, replace=False)))
            for d in picks:
                c, r = rec["coef"][d], rec["ref"][d]
                assert c["dof"] == d and r["dof"] == d
                slots = set((a, b) for a, b in c["ve1"] + c["ve2"]) | set((x, 2) for x in r["cells"])
                col = T[:, d].tocoo()
                # every non-zero of the column must sit in a recorded slot's dof; interior edges: both neighbours
                elems = sorted(set(a for a, _ in slots))
                info = [[a, b, int(ee[b, a]), int(bc.local2global[a, b])] for a, b in sorted(slots)]
                used_edges = sorted(set(i[2] for i in info))
                cases.append({"grid": name, "options": _opt_name(o), "dof": d, "ve1": c["ve1"], "ve2": c["ve2"],
                              "se1": c["se1"], "se2": c["se2"], "nc1": c["nc1"], "nc2": c["nc2"], "r1": c["r1"], "r2": c["r2"],
                              "cells": r["cells"], "info": info,
                              "len": [[e, fr(lens[e])] for e in used_edges],
                              "col": sorted([int(i), fr(v)] for i, v in zip(col.row, col.data) if v != 0),
                              # bary edges of the recorded slots that have both neighbours inside the support
                              "interior": [e for e in used_edges if len(bg.edge_neighbors[e]) == 2 and
                                           all(bc.support[int(x)] for x in bg.edge_neighbors[e])],
                              "slots_of_edge": {str(e): [[int(x), int(np.flatnonzero(ee[:, int(x)] == e)[0]),
                                                         int(bc.local2global[int(x), int(np.flatnonzero(ee[:, int(x)] == e)[0])])]
                                                        for x in bg.edge_neighbors[e]] for e in used_edges}})
    out["bc_cases"] = cases


# ------------------------------------------------------------------------------------------------------------
# Failing-input search on the BC functions themselves: documented pole fluxes and renumbering invariance
def _coarse_support(bc):
    return sorted(set(int(b) // 6 for b in bc.support_elements))


def _pole_class(open1, open2, n1, n2):
    kind = {(True, True): "border-border", (False, False): "interior-interior"}.get((open1, open2), "border-interior")
    return kind + ("" if n1 == n2 else ",unequal cell counts")


def pole_fluxes(out, name, grid, o, bc=None):
    """|flux| (coefficient x edge length) through every spoke at the two poles of every BC function:
    closed fan with n cells: (n-k)/(2n), k = 1..n (0 on the reference edge);  open fan (grid border or truncated support)
    with n cells: (n-1)/n before, |2-n|/(2n) on, 1/n after the reference edge; the two boundary spokes carry
    {(n-1)/n, 1/n} - with n the number of support cells at THAT pole."""
    if bc is None:
        bc = api.function_space(grid, "BC", 0, **o)
    rwg = api.function_space(grid, "RWG", 0, **o)
    if rwg.global_dof_count != bc.global_dof_count:
        return
    bg = grid.barycentric_refinement
    S = _coarse_support(bc)
    Sset = set(S)
    insup = np.zeros(bg.number_of_elements, bool)
    insup[bc.support_elements] = True
    T = bc.dof_transformation.tocsc()
    lens = np.linalg.norm(bg.vertices[:, bg.edges[0, :]] - bg.vertices[:, bg.edges[1, :]], axis=0)
    cells_at = {}
    for e in S:
        for v in grid.elements[:, e]:
            cells_at.setdefault(int(v), []).append(e)
    # coarse edges with exactly one support cell -> their end points are "open" poles
    open_v = set()
    for ce in range(grid.number_of_edges):
        nb = [int(x) for x in grid.edge_neighbors[ce] if int(x) in Sset]
        if len(nb) == 1:
            open_v.update(int(v) for v in grid.edges[:, ce])
    bary_at = {}
    for be in bc.support_elements:
        bary_at.setdefault(int(bg.elements[0, int(be)]), []).append(int(be))
    for d in range(bc.global_dof_count):
        g2l = rwg.global2local[d]
        if len(g2l) == 0:
            continue
        ce = int(grid.element_edges[g2l[0][1], g2l[0][0]])
        v1, v2 = (int(v) for v in grid.edges[:, ce])
        col = np.asarray(T[:, d].todense()).ravel()
        info = {}
        for v in (v1, v2):
            n = len(cells_at.get(v, []))
            mags, bnd = {}, []
            for be in bary_at.get(v, []):
                for k in (0, 1):
                    eid = int(bg.element_edges[k, be])
                    f = abs(col[int(bc.local2global[be, k])]) * lens[eid]
                    mags[eid] = max(mags.get(eid, 0.0), f)
            for eid, f in mags.items():
                nbs = [int(x) for x in bg.edge_neighbors[eid] if insup[int(x)]]
                if len(nbs) == 1:
                    bnd.append(f)
            info[v] = (n, v in open_v, sorted(mags.values()), sorted(bnd))
        n1, o1, m1, b1 = info[v1]
        n2, o2, m2, b2 = info[v2]
        bad = []
        for v, (n, isopen, mags, bnd) in info.items():
            out["search_evals"] += len(mags)
            if n == 0:
                continue
            if isopen:
                allowed = [(n - 1) / n, abs(2 - n) / (2 * n), 1 / n]
                if len(bnd) == 2 and not np.allclose(bnd, sorted([(n - 1) / n, 1 / n]), atol=1e-10):
                    bad.append("boundary half-edge fluxes at vertex %d (n=%d cells) are %s, documented %s" % (
                        v, n, np.round(bnd, 6).tolist(), np.round(sorted([(n - 1) / n, 1 / n]), 6).tolist()))
            else:
                allowed = [0.0] + [(n - k) / (2 * n) for k in range(1, n + 1)]
            off = [f for f in mags if min(abs(f - a) for a in allowed) > 1e-10]
            if off:
                bad.append("spoke fluxes %s at vertex %d are not in the documented set for n=%d cells (%s fan)" % (
                    np.round(off, 6).tolist(), v, n, "open" if isopen else "closed"))
        if bad:
            out["failures"].append({
                "signature": "C10:bc:pole_fluxes:" + _pole_class(o1, o2, n1, n2),
                "what": "BC (%s) on %s, function %d (edge %d-%d, cells at the poles %d/%d): %s" % (
                    _opt_name(o), name, d, v1, v2, n1, n2, "; ".join(bad)),
                "data": {"grid": name, "options": o, "dof": d, "vertices": grid.vertices.tolist(),
                         "elements": grid.elements.tolist(), "domain_indices": grid.domain_indices.tolist()}})


def _fields(grid, sp, rwg):
    """{coarse edge as a pair of vertex coordinates keys: {centroid key: vector}} for every function of the space."""
    bg = grid.barycentric_refinement
    T = sp.dof_transformation.toarray()
    pt = np.array([[1.0 / 3], [1.0 / 3]])
    per_elem = {}
    for be in sp.support_elements:
        be = int(be)
        vals = sp.evaluate(be, pt)[:, :, 0]
        F = vals @ T[sp.local2global[be].astype(int), :]
        c = bg.vertices[:, bg.elements[:, be]].mean(axis=1)
        per_elem[tuple(np.round(c, 8))] = F
    res = {}
    for d in range(sp.global_dof_count):
        g2l = rwg.global2local[d]
        if len(g2l) == 0:
            continue
        ce = int(grid.element_edges[g2l[0][1], g2l[0][0]])
        k = frozenset(tuple(np.round(grid.vertices[:, int(v)], 8)) for v in grid.edges[:, ce])
        res[k] = {c: F[:, d] for c, F in per_elem.items()}
    return res


def renumbering(out, name, V, E, dom, o, rng):
    """A BC/RBC function is a geometric object: renumbering vertices and elements must not change it (up to its sign)."""
    import c10_grids
    g1 = api.Grid(np.asarray(V, float), np.asarray(E, dtype=np.uint32), np.asarray(dom, dtype=np.uint32))
    V2, E2, dom2, _ = c10_grids.renumber(np.asarray(V, float), np.asarray(E), np.asarray(dom), rng)
    g2 = api.Grid(V2, E2, np.asarray(dom2, dtype=np.uint32))
    for kind in ("BC", "RBC"):
        try:
            s1, s2 = api.function_space(g1, kind, 0, **o), api.function_space(g2, kind, 0, **o)
            r1, r2 = api.function_space(g1, "RWG", 0, **o), api.function_space(g2, "RWG", 0, **o)
        except Exception:
            return
        f1, f2 = _fields(g1, s1, r1), _fields(g2, s2, r2)
        if set(f1) != set(f2):
            out["failures"].append({"signature": "C10:%s:renumbering:dof_set" % kind.lower(),
                                    "what": "%s (%s) on %s: renumbering the grid changes the set of edges carrying a function" % (
                                        kind, _opt_name(o), name), "data": {"grid": name, "options": o}})
            continue
        worst, which = 0.0, None
        for k in f1:
            a, b = f1[k], f2[k]
            if set(a) != set(b):
                worst, which = float("inf"), k
                break
            A = np.array([a[c] for c in sorted(a)])
            B = np.array([b[c] for c in sorted(a)])
            out["search_evals"] += A.size
            err = min(np.abs(A - B).max(), np.abs(A + B).max()) / max(np.abs(A).max(), 1e-300)
            if err > worst:
                worst, which = float(err), k
        out["worst"].setdefault("bc_renumbering", {})[kind] = max(out["worst"].get("bc_renumbering", {}).get(kind, 0.0), worst)
        if worst > 1e-9:
            out["failures"].append({
                "signature": "C10:%s:renumbering" % kind.lower(),
                "what": "%s (%s) on %s: the function of the edge %s changes by %.3g (relative) when vertices/elements of the "
                        "same mesh are renumbered" % (kind, _opt_name(o), name,
                                                      [[float(x) for x in p] for p in sorted(which)], worst),
                "data": {"grid": name, "options": o, "vertices": np.asarray(V).tolist(), "elements": np.asarray(E).tolist(),
                         "domain_indices": np.asarray(dom).tolist(), "renumbered_vertices": V2.tolist(),
                         "renumbered_elements": E2.tolist(), "renumbered_domain_indices": np.asarray(dom2).tolist()}})


def border_search(out, grids, rng, thorough, optsets_fn):
    """Pole fluxes on every catalogue grid and option set; renumbering invariance + pole fluxes on the open grids whose
    interior edges join border vertices with unequal cell counts."""
    import c10_grids
    for name, grid, dom in grids:
        for o in optsets_fn(grid, dom, thorough):
            try:
                pole_fluxes(out, name, grid, o)
            except Exception as e:
                if "not implemented for" in str(e) or "connected only by a vertex" in str(e):
                    continue
                raise
    for name, V, E, dom in c10_grids.border_catalogue(rng, thorough):
        grid = api.Grid(np.asarray(V, float), np.asarray(E, dtype=np.uint32), np.asarray(dom, dtype=np.uint32))
        opts = [{}] + ([{"segments": [0]}] if thorough else [])
        for o in opts:
            pole_fluxes(out, name, grid, o)
            renumbering(out, name, V, E, dom, o, rng)
    for name, grid, dom in (grids if thorough else []):
        if grid.number_of_elements <= 12:
            for o in optsets_fn(grid, dom, thorough)[:2]:
                try:
                    renumbering(out, name, grid.vertices, grid.elements, grid.domain_indices, o, rng)
                except Exception as e:
                    if "not implemented for" in str(e) or "connected only by a vertex" in str(e):
                        continue
                    raise
