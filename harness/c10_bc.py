"""C10 harness: data for the Gallina model of the BC/RBC coefficient stage.

The helper functions of bempp_cl.api.grid.grid that compute the coefficients are wrapped while the BC space is built; for
every global dof their inputs (ordered vertex fans, sorted border edges, valences, reference cells) are recorded together
with the column of dof_transformation the implementation produced from them."""
from fractions import Fraction as F

import numpy as np

import bempp_cl.api as api
import bempp_cl.api.grid.grid as G


def fr(x):
    f = F(float(x))
    return [f.numerator, f.denominator]


def _opt_name(o):
    return ",".join("%s=%s" % (k, o[k]) for k in sorted(o)) or "whole"


def record_bc(grid, o):
    """Build BC and RBC with the option set o, return (bc, rbc, per-dof records)."""
    rec = {"coef": [], "ref": []}
    orig1, orig2 = G._get_bary_coefficients, G._get_coefficients_reference_edge

    def w1(edge_lengths, ve1, ve2, se1, se2, bary_grid, local2global, nc1, nc2, dof, r1, r2):
        rec["coef"].append({"ve1": [[int(a), int(b)] for a, b in ve1], "ve2": [[int(a), int(b)] for a, b in ve2],
                            "se1": [int(x) for x in se1], "se2": [int(x) for x in se2], "nc1": int(nc1), "nc2": int(nc2),
                            "dof": int(dof), "r1": int(r1), "r2": int(r2)})
        return orig1(edge_lengths, ve1, ve2, se1, se2, bary_grid, local2global, nc1, nc2, dof, r1, r2)

    def w2(edge_lengths, bary_grid, local2global, dof, um, up, lm, lp):
        rec["ref"].append({"dof": int(dof), "cells": [int(um), int(up), int(lm), int(lp)]})
        return orig2(edge_lengths, bary_grid, local2global, dof, um, up, lm, lp)

    G._get_bary_coefficients, G._get_coefficients_reference_edge = w1, w2
    try:
        bc = api.function_space(grid, "BC", 0, **o)
    finally:
        G._get_bary_coefficients, G._get_coefficients_reference_edge = orig1, orig2
    rbc = api.function_space(grid, "RBC", 0, **o)
    return bc, rbc, rec


def dump(out, grids, rng, thorough, optsets_fn, max_dofs=4):
    cases = []
    for name, grid, dom in grids:
        bg = grid.barycentric_refinement
        for o in optsets_fn(grid, dom, thorough):
            if "segments" in o:
                rw = api.function_space(grid, "RWG", 0, **o)
                if rw.number_of_support_elements == 0 or not np.any(rw.local_multipliers[rw.support_elements] != 0):
                    continue
            try:
                bc, rbc, rec = record_bc(grid, o)
            except Exception as e:
                if "not implemented for" in str(e) or "connected only by a vertex" in str(e):
                    continue
                continue        # reported by c10_mass.bc_conformity
            T = bc.dof_transformation.tocsc()
            T2 = rbc.dof_transformation.tocsc()
            same = (T != T2).nnz == 0 and np.array_equal(bc.local2global, rbc.local2global) and \
                np.array_equal(bc.support_elements, rbc.support_elements) and \
                np.array_equal(bc.local_multipliers, rbc.local_multipliers)
            if not same:
                out["failures"].append({"signature": "C10:rbc:coefficients_differ_from_bc",
                                        "what": "RBC and BC (%s) on %s do not share dof_transformation/local2global" % (
                                            _opt_name(o), name), "data": {"grid": name, "options": o}})
            if len(rec["coef"]) != bc.global_dof_count or len(rec["ref"]) != bc.global_dof_count:
                continue
            lens = np.linalg.norm(bg.vertices[:, bg.edges[0, :]] - bg.vertices[:, bg.edges[1, :]], axis=0)
            ee = bg.element_edges
            picks = list(range(bc.global_dof_count))
            if len(picks) > max_dofs:
                picks = sorted(set(int(x) for x in rng.choice(len(picks), max_dofs, replace=False)))
            for d in picks:
                c, r = rec["coef"][d], rec["ref"][d]
                assert c["dof"] == d and r["dof"] == d
                slots = set((a, b) for a, b in c["ve1"] + c["ve2"]) | set((x, 2) for x in r["cells"])
                col = T[:, d].tocoo()
                # every non-zero of the column must sit in a recorded slot's dof; interior edges: both neighbours
                elems = sorted(set(a for a, _ in slots))
                info = [[a, b, int(ee[b, a]), int(bc.local2global[a, b])] for a, b in sorted(slots)]
                used_edges = sorted(set(i[2] for i in info))
                cases.append({"grid": name, "options": _opt_name(o), "dof": d, "ve1": c["ve1"], "ve2": c["ve2"],
                              "se1": c["se1"], "se2": c["se2"], "nc1": c["nc1"], "nc2": c["nc2"], "r1": c["r1"], "r2": c["r2"],
                              "cells": r["cells"], "info": info,
                              "len": [[e, fr(lens[e])] for e in used_edges],
                              "col": sorted([int(i), fr(v)] for i, v in zip(col.row, col.data) if v != 0),
                              # bary edges of the recorded slots that have both neighbours inside the support
                              "interior": [e for e in used_edges if len(bg.edge_neighbors[e]) == 2 and
                                           all(bc.support[int(x)] for x in bg.edge_neighbors[e])],
                              "slots_of_edge": {str(e): [[int(x), int(np.flatnonzero(ee[:, int(x)] == e)[0]),
                                                         int(bc.local2global[int(x), int(np.flatnonzero(ee[:, int(x)] == e)[0])])]
                                                        for x in bg.edge_neighbors[e]] for e in used_edges}})
    out["bc_cases"] = cases
