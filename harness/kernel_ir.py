"""Evaluate the expression IR emitted by translators/{py_kernels,c_kernels}.py (translator self-test), plus small
shared helpers of the c20/c05/c08 harnesses.  IR: see translators/kexpr.py."""
import json
import math
import sys

import numpy as np

M_INV_4PI = 1.0 / (4 * math.pi)
KARGS = ["x0", "x1", "x2", "y0", "y1", "y2", "nx0", "nx1", "nx2", "ny0", "ny1", "ny2", "p0", "p1"]


def ev(e, env):
    """-> (value, magnitude) ; magnitude = value of the same tree with every operation replaced by its absolute
    counterpart (a condition scale for tolerances)."""
    k = e[0]
    if k == "var":
        v = env[e[1]]
        return v, abs(v)
    if k == "num":
        v = e[1] / e[2]
        return v, abs(v)
    if k == "neg":
        v, m = ev(e[1], env)
        return -v, m
    if k == "fn":
        v, m = ev(e[2], env)
        f = e[1]
        if f == "sqrt":
            r = math.sqrt(v)
            return r, r
        if f == "exp":
            r = math.exp(v) if v < 700 else float("inf")
            return r, r
        if f == "cos":
            return math.cos(v), 1.0
        if f == "sin":
            return math.sin(v), 1.0
        raise ValueError(f)
    if k == "ite0":
        c, _ = ev(e[1], env)
        return ev(e[2], env) if c == 0 else ev(e[3], env)
    a, ma = ev(e[1], env)
    b, mb = ev(e[2], env)
    if k == "add":
        return a + b, ma + mb
    if k == "sub":
        return a - b, ma + mb
    if k == "mul":
        return a * b, ma * mb
    if k == "div":
        return a / b, ma / abs(b)
    raise ValueError(k)


def env_of(x, y, nx, ny, p, c4=M_INV_4PI):
    env = {"M_INV_4PI": M_INV_4PI, "c4": c4, "p0": float(p[0]), "p1": float(p[1])}
    for pre, v in (("x", x), ("y", y), ("nx", nx), ("ny", ny)):
        for i in range(3):
            env["%s%d" % (pre, i)] = float(v[i])
    return env


def out(obj):
    sys.stdout.write("\n@@JSON " + json.dumps(obj, default=float) + "\n")
    sys.stdout.flush()


def payload():
    return json.loads(sys.stdin.read() or "{}")


def unit(v):
    return v / np.linalg.norm(v)


def sample_case(rng, dmin=1e-3, dmax=1e3, kmax=5.0, wavenumber="complex"):
    """Random test point, trial point at log-uniform distance, unit normals, wavenumber parameters."""
    x = rng.uniform(-1, 1, 3)
    d = math.exp(rng.uniform(math.log(dmin), math.log(dmax)))
    y = x + d * unit(rng.normal(size=3))
    nx, ny = unit(rng.normal(size=3)), unit(rng.normal(size=3))
    kd = min(kmax, 20.0 / d)          # keep |k| d moderate: exp/cos arguments stay in a well-conditioned range
    if wavenumber == "zero_imag":
        p = (rng.uniform(-kd, kd), 0.0)
    elif wavenumber == "zero_real":
        p = (0.0, rng.uniform(0, kd))
    elif wavenumber == "zero":
        p = (0.0, 0.0)
    else:
        p = (rng.uniform(-kd, kd), rng.uniform(0, kd))
    return x, y, nx, ny, p


def sample_batch(rng, lanes, dmin=1e-3, dmax=1e3, kmax=5.0, wavenumber="complex"):
    """One test point / test normal, `lanes` trial points at log-uniform distances with unit normals, and a wavenumber
    (p0, p1) with |k| * (largest distance) <= 20 and p1 >= 0. -> x, ys (3,lanes), nx, nys (3,lanes), p"""
    x = rng.uniform(-1, 1, 3)
    ds = np.exp(rng.uniform(math.log(dmin), math.log(dmax), lanes))
    ys = x[:, None] + np.array([d * unit(rng.normal(size=3)) for d in ds]).T
    nx = unit(rng.normal(size=3))
    nys = np.array([unit(rng.normal(size=3)) for _ in range(lanes)]).T
    kd = min(kmax, 20.0 / float(ds.max()))
    if wavenumber == "zero_imag":
        p = (rng.uniform(-kd, kd), 0.0)
    elif wavenumber == "zero_real":
        p = (0.0, rng.uniform(0, kd))
    elif wavenumber == "zero":
        p = (0.0, 0.0)
    elif wavenumber == "positive_real":      # parameter of the modified Helmholtz kernels
        p = (rng.uniform(0, kd), 0.0)
    else:
        p = (rng.uniform(-kd, kd), rng.uniform(0, kd))
    return x, ys, nx, nys, p


WN_KINDS = ["complex", "zero_imag", "zero_real", "zero"]


def wnk(name, c):
    return "positive_real" if "modified" in name and c % 4 != 3 else WN_KINDS[c % 4]


def selftest_numba(nb, rng, ncases, disagree, count, samples, jit=True, names=None, rel=1e-12):
    """Translator self-test: IR of the Numba Green's-function kernels and the FMM point kernels against the functions
    themselves (jit=False: their .py_func, i.e. the same source run by the Python interpreter, no compilation)."""
    import bempp_cl.core.numba_kernels as nk
    import bempp_cl.api.fmm.helpers as fh
    for name, info in nb["kernels"].items():
        if names is not None and name not in names:
            continue
        fn = getattr(nk, name)
        if not jit:
            fn = fn.py_func
        for c in range(ncases):
            lanes = 4
            x, ys, nx, nys, p = sample_batch(rng, lanes, wavenumber=wnk(name, c))
            if info["singular"]:
                xs = ys[:, ::-1] - (ys[:, ::-1] - x[:, None]) * rng.uniform(1.5, 3.0)   # a different test point per lane
                ny = nys[:, 0].copy()
                out = fn(xs, ys, nx, ny, np.array(p))
                lane_env = [env_of(xs[:, l], ys[:, l], nx, ny, p) for l in range(lanes)]
            else:
                out = fn(x, ys, nx, nys, np.array(p))
                lane_env = [env_of(x, ys[:, l], nx, nys[:, l], p) for l in range(lanes)]
            out = np.asarray(out)
            if out.shape != (lanes,) or np.iscomplexobj(out) != info["complex"]:
                disagree("numba-ir", "%s: output shape/dtype %s %s differs from the translated signature" % (
                    name, out.shape, out.dtype), {})
                continue
            for l in range(lanes):
                vr, mr = ev(info["re"], lane_env[l])
                vi, mi = ev(info["im"], lane_env[l])
                got = complex(out[l])
                err = abs(got - complex(vr, vi))
                tol = rel * (mr + mi) + 1e-300
                count("numba kernel lanes", 1, 1 if got != 0 else 0)
                if not (err <= tol):
                    disagree("numba-ir", "translated %s differs from the Numba kernel" % name,
                             {"env": lane_env[l], "numba": [got.real, got.imag], "ir": [vr, vi], "err": err, "tol": tol})
            if c == 0 and len(samples) < 3:
                samples.append({"kernel": name, "input": {k: lane_env[0][k] for k in KARGS},
                                "numba": [complex(out[0]).real, complex(out[0]).imag]})
    for name, info in nb["fmm"].items():
        if names is not None and name not in names:
            continue
        fn = getattr(fh, name)
        if not jit:
            fn = fn.py_func
        for c in range(max(4, ncases // 4)):
            nt, ns = 3, 4
            tg = rng.uniform(-1, 1, (3, nt))
            so = rng.uniform(-1, 1, (3, ns)) * math.exp(rng.uniform(-3, 3))
            so[:, 0] = tg[:, 1]           # one coincident pair: the zero-distance branch
            _, _, _, _, p = sample_batch(rng, 1, dmin=1.0, dmax=30.0, wavenumber=wnk(name, c))
            rt = np.complex128 if info["complex"] else np.float64
            out = np.asarray(fn(tg, so, np.array(p), np.dtype("float64"), rt))
            if out.shape != (4 * nt * ns,):
                disagree("fmm-ir", "%s: output shape %s" % (name, out.shape), {})
                continue
            for t_ in range(nt):
                for s_ in range(ns):
                    env = env_of(tg[:, t_], so[:, s_], [0, 0, 0], [0, 0, 0], p)
                    for comp in range(4):
                        vr, mr = ev(info["comps"][comp]["re"], env)
                        vi, mi = ev(info["comps"][comp]["im"], env)
                        got = complex(out[t_ * 4 * ns + 4 * s_ + comp])
                        err = abs(got - complex(vr, vi))
                        tol = rel * (mr + mi) + 1e-300
                        count("fmm kernel slots", 1, 1 if got != 0 else 0)
                        if not (err <= tol):
                            disagree("fmm-ir", "translated %s slot %d differs from the implementation" % (name, comp),
                                     {"env": env, "impl": [got.real, got.imag], "ir": [vr, vi], "err": err})


# ---- small grids (no gmsh) -------------------------------------------------------------------------------------
def octahedron(scale=1.0, shift=(0.0, 0.0, 0.0), distort=None, domain_indices=None):
    import bempp_cl.api
    v = np.array([[1, 0, 0], [-1, 0, 0], [0, 1, 0], [0, -1, 0], [0, 0, 1], [0, 0, -1]], dtype="float64").T
    e = np.array([[0, 2, 4], [2, 1, 4], [1, 3, 4], [3, 0, 4], [2, 0, 5], [1, 2, 5], [3, 1, 5], [0, 3, 5]], dtype="uint32").T
    if distort is not None:
        v = distort @ v
    v = scale * v + np.array(shift, dtype="float64")[:, None]
    return bempp_cl.api.Grid(v, e, domain_indices)


def cube12(scale=1.0, shift=(0.0, 0.0, 0.0)):
    import bempp_cl.api
    v = np.array([[0, 0, 0], [1, 0, 0], [1, 1, 0], [0, 1, 0], [0, 0, 1], [1, 0, 1], [1, 1, 1], [0, 1, 1]], dtype="float64").T - 0.5
    e = np.array([[0, 2, 1], [0, 3, 2], [4, 5, 6], [4, 6, 7], [0, 1, 5], [0, 5, 4], [1, 2, 6], [1, 6, 5],
                  [2, 3, 7], [2, 7, 6], [3, 0, 4], [3, 4, 7]], dtype="uint32").T
    v = scale * v + np.array(shift, dtype="float64")[:, None]
    return bempp_cl.api.Grid(v, e)


def screen(n=2, scale=1.0):
    import bempp_cl.api
    xs = np.linspace(0, 1, n + 1)
    verts = np.array([[x, y, 0.1 * x * y] for y in xs for x in xs], dtype="float64").T * scale
    els = []
    for j in range(n):
        for i in range(n):
            a = j * (n + 1) + i
            els += [[a, a + 1, a + n + 2], [a, a + n + 2, a + n + 1]]
    return bempp_cl.api.Grid(verts, np.array(els, dtype="uint32").T)
