"""C06 implementation side.

mode "corr":   run the real dense assembly pipeline of bempp-cl (operator factory -> DenseAssembler -> colour loop
               -> regular Numba assembler body + singular assembler body -> scatter) on tiny meshes with a
               surrogate kernel and dump inputs/outputs as exact rationals for the Coq model.
mode "search": API level, real kernels: build C, N, R, D from space.evaluate / geometry and compare W and E with
               their single-layer decompositions; W.1 ~ 0; complex symmetry.
Input JSON on stdin: {"mode": ..., "strength": "quick"|"thorough", "seed": int}; output one '@@JSON {...}' line.
"""
import json
import sys
import time

import numpy as np

import bcommon as bc


def corr_cases(strength):
    cases = [
        # (mesh, space kind, space kwargs, operator, wavenumber)
        ("islands3", "DP0", {}, "slp", None),
        ("strip2", "DP1", {"swapped_normals": [1]}, "slp", None),
        ("islands3", "P1", {"include_boundary_dofs": True}, "lap_hyp", None),
        ("islands3", "P1", {"include_boundary_dofs": True, "swapped_normals": [0]}, "helm_hyp", 1.5 + 0.5j),
        ("fan4", "P1", {}, "lap_hyp", None),
        # non-trivial local multipliers (boundary dofs dropped) together with non-adjacent pairs
        ("screen22", "P1", {}, "helm_hyp", 1.0 + 0.5j),
        ("islands3", "P1", {"include_boundary_dofs": True, "swapped_normals": [1]}, "modhelm_hyp", 0.75),
        ("islands3", "P1seg", {"segments": [1], "include_boundary_dofs": True}, "helm_hyp", 2.0),
        ("islands3", "RWG", {"include_boundary_dofs": True}, "efield", 1.25 + 0.25j),
        ("tet", "RWG", {}, "efield", 0.5),
        ("islands3", "RWG", {"include_boundary_dofs": True}, "mfield", 1.5),
        ("islands3", "RWGseg", {"segments": [1], "include_boundary_dofs": True}, "mfield", 1.0 + 0.5j),
    ]
    if strength == "thorough":
        cases += [
            ("fan4", "DP1", {}, "slp_c", 1.0),
            ("fan4", "P1", {"include_boundary_dofs": True}, "helm_hyp", 0.5 + 1.0j),
            ("tet", "P1", {}, "lap_hyp", None),
            ("tet", "P1", {}, "helm_hyp", 1.0 + 0.25j),
            ("fan4", "RWG", {"include_boundary_dofs": True}, "efield", 2.0),
            ("fan4", "RWG", {}, "mfield", 0.75),
            ("tet", "RWG", {}, "mfield", 1.0),
        ]
    return cases


def run_corr(cfg):
    import bempp_cl.api as api
    from bempp_cl.api.integration.triangle_gauss import rule
    api.GLOBAL_PARAMETERS.quadrature.regular = 2
    api.GLOBAL_PARAMETERS.quadrature.singular = 1
    rng = np.random.default_rng(int(cfg.get("seed", 0)) + 606)
    out = []
    for (mname, skind, kw, opname, k) in corr_cases(cfg.get("strength", "quick")):
        grid = bc.make_grid(mname)
        base = {"DP0": ("DP", 0), "DP1": ("DP", 1), "P1": ("P", 1), "P1seg": ("P", 1), "RWG": ("RWG", 0),
                "RWGseg": ("RWG", 0)}[skind]
        dom = api.function_space(grid, base[0], base[1], **kw)
        if base[0] == "RWG":
            dual = api.function_space(grid, "SNC", 0, **kw)
        else:
            dual = dom
        is_complex = opname in ("helm_hyp", "efield", "mfield", "slp_c")
        maxwell = opname in ("efield", "mfield")
        surr = bc.random_surr(rng, is_complex, use_normals=not maxwell)
        B = api.operators.boundary
        with bc.PurePython(surr, is_complex):
            if opname == "slp":
                op = B.laplace.single_layer(dom, dom, dual, assembler="dense")
            elif opname == "slp_c":
                op = B.helmholtz.single_layer(dom, dom, dual, k, assembler="dense")
            elif opname == "lap_hyp":
                op = B.laplace.hypersingular(dom, dom, dual, assembler="dense")
            elif opname == "helm_hyp":
                op = B.helmholtz.hypersingular(dom, dom, dual, k, assembler="dense")
            elif opname == "modhelm_hyp":
                op = B.modified_helmholtz.hypersingular(dom, dom, dual, k, assembler="dense")
            elif opname == "efield":
                op = B.maxwell.electric_field(dom, dom, dual, k, assembler="dense")
            elif opname == "mfield":
                op = B.maxwell.magnetic_field(dom, dom, dual, k, assembler="dense")
            mat = np.asarray(op.weak_form().to_dense())
        qp, qw = rule(api.GLOBAL_PARAMETERS.quadrature.regular)
        Et = [int(x) for x in dual.get_elements_by_color()[0]]
        Es = [int(x) for x in dom.get_elements_by_color()[0]]
        scale = float(np.max(np.abs(mat))) if mat.size else 0.0
        out.append({
            "name": "%s/%s/%s" % (mname, skind, opname), "op": opname, "mesh": mname, "space": skind, "kw": kw,
            "kfloat": None if k is None else [complex(k).real, complex(k).imag],
            "k": None if k is None else bc.frc(k),
            "grid": bc.grid_dump(grid), "test": bc.space_dump(dual), "trial": bc.space_dump(dom),
            "quad": bc.quad_dump(qp, qw), "surr": bc.surr_dump(surr), "Et": Et, "Es": Es,
            "pairs": bc.singular_pairs_dump(grid, api.GLOBAL_PARAMETERS.quadrature.singular, dual.support,
                                            dom.support),
            "shape": [int(mat.shape[0]), int(mat.shape[1])], "impl": bc.mat_dump(mat), "scale": bc.fr(scale),
            "nonzero": int(np.count_nonzero(mat)),
        })
    return {"cases": out}


def main():
    cfg = json.load(sys.stdin)
    t0 = time.time()
    if cfg.get("mode") == "corr":
        res = run_corr(cfg)
    else:
        import c06_search
        res = c06_search.run(cfg)
    res["wall"] = time.time() - t0
    bc.emit(res)


if __name__ == "__main__":
    main()
