"""C16 implementation side (single process, no kernel JIT).
stdin JSON: {"strength": "quick"|"thorough", "parts": ["corr", "scan"]}
corr: for spaces of every kind (DP0, DP1, P1, RWG, SNC, their localised and barycentric versions, DUAL0, DUAL1, BC, RBC)
      dump the arrays that define the space (local2global, sign of local_multipliers, support) together with
      color_map / get_elements_by_color(), and the launch structure of numba_assemblers.dense_assembler recorded by
      a stand-in kernel (which test elements each launch receives, which trial elements).  The colouring model is
      evaluated on the same arrays inside Coq.
scan: colour-conflict scan on larger grids with random supports: two support elements of equal colour must not
      share any entry of their local2global rows (zero-multiplier entries included).
Output: one line '@@JSON {...}'."""
import json
import os
import sys

import numpy as np

import bempp_cl.api
import bempp_cl.core.numba_kernels as nk
from bempp_cl.core import numba_assemblers

import c09_grids as G


def space_arrays(sp):
    return {
        "n": int(sp.grid.number_of_elements), "k": int(sp.number_of_shape_functions),
        "l2g": [[int(x) for x in r] for r in sp.local2global],
        "mult": [[int(np.sign(x)) for x in r] for r in sp.local_multipliers],
        "supp": [bool(x) for x in sp.support],
    }


def colour_dump(sp):
    sidx, iptr = sp.get_elements_by_color()
    return {"colour": [int(x) for x in sp.color_map], "sorted": [int(x) for x in sidx],
            "indexptr": [int(x) for x in iptr]}


class Recorder:
    """Stand-in for the regular assembly kernel: records the launch arguments instead of integrating."""

    def __init__(self):
        self.launches = []

    def __call__(self, test_grid_data, trial_grid_data, nshape_test, nshape_trial, test_elements, trial_elements,
                 test_multipliers, trial_multipliers, test_global_dofs, trial_global_dofs, *rest):
        self.launches.append({"test": [int(x) for x in test_elements], "trial": [int(x) for x in trial_elements],
                              "dofs_id": (id(test_global_dofs), id(trial_global_dofs))})


def record_launches(domain, dual):
    """Run the real numba_assemblers.dense_assembler with select_numba_kernels replaced by a recorder."""
    rec = Recorder()
    orig = nk.select_numba_kernels
    nk.select_numba_kernels = lambda descriptor, mode="regular": (rec, None)
    try:
        class D:
            options = [0.0]
        params = bempp_cl.api.GLOBAL_PARAMETERS
        numba_assemblers.dense_assembler(None, D(), domain, dual, params, np.zeros((dual.global_dof_count, domain.global_dof_count)))
    finally:
        nk.select_numba_kernels = orig
    ok = all(l["dofs_id"] == (id(dual.local2global), id(domain.local2global)) for l in rec.launches)
    return [{"test": l["test"], "trial": l["trial"]} for l in rec.launches], ok


def variants(sp, with_bary=True):
    out = [("", sp)]
    if sp.localised_space is not sp:
        out.append(("/localised", sp.localised_space))
    if with_bary:
        try:
            b = sp.barycentric_representation()
            if b is not None and b is not sp:
                out.append(("/barycentric", b))
        except Exception as e:   # spaces without a barycentric representation
            pass
    return out


def all_spaces(grid, rng, nsel, thorough):
    n = grid.number_of_elements
    sels = [None]
    for _ in range(nsel):
        k = int(rng.integers(1, n + 1))
        sels.append(sorted(int(x) for x in rng.choice(n, k, replace=False)))
    for se in sels:
        for kind in ("DP0", "DP1", "P1", "RWG", "SNC"):
            opts = [(False, True), (True, False), (True, True), (False, False)] if kind in ("P1", "RWG", "SNC") else [(None, None)]
            if not thorough and len(opts) > 1:
                opts = opts[:2]      # default flags and (boundary dofs, extended support): both produce zero multipliers
            for incl, trunc in opts:
                sp = G.make_space(grid, kind, se=se, incl=incl, trunc=trunc)
                yield {"kind": kind, "support_elements": se, "include_boundary_dofs": incl,
                       "truncate_at_segment_edge": trunc}, sp
    for kind, deg in (("DUAL", 0), ("DUAL", 1), ("BC", 0), ("RBC", 0)):
        try:
            sp = bempp_cl.api.function_space(grid, kind, deg)
        except Exception as e:
            yield {"kind": "%s%d" % (kind, deg), "error": type(e).__name__ + ": " + str(e)[:200]}, None
            continue
        yield {"kind": "%s%d" % (kind, deg), "support_elements": None}, sp


def conflicts(sp):
    """Pairs of support elements with equal colour and intersecting local2global rows."""
    cm = sp.color_map
    rows = sp.local2global
    bad = []
    by = {}
    for e in sp.support_elements:
        by.setdefault(int(cm[e]), []).append(int(e))
    if any(c < 0 for c in by):
        bad.append(("uncoloured", by.get(-1, [])[:3]))
    for c, es in by.items():
        owner = {}
        for e in es:
            for d in set(int(x) for x in rows[e]):
                if d in owner:
                    bad.append((owner[d], e, d))
                owner[d] = e
    sidx, iptr = sp.get_elements_by_color()
    if sorted(int(x) for x in sidx) != sorted(int(x) for x in sp.support_elements):
        bad.append(("classes-do-not-partition-support",))
    return bad


def launch_conflicts(sp):
    """Run the real dense_assembler with a recording kernel (sp as test and trial space) and evaluate the property on the
    launches themselves: inside one launch no two test elements may share an entry of their local2global rows, and
    the launches together must contain every support element exactly once."""
    launches, ok = record_launches(sp, sp)
    bad = []
    rows = sp.local2global
    seen = []
    for k, la in enumerate(launches):
        owner = {}
        for e in la["test"]:
            for d in set(int(x) for x in rows[e]):
                if d in owner and owner[d] != e:
                    bad.append(("launch", k, owner[d], e, d))
                owner[d] = e
        seen += la["test"]
    if sorted(seen) != sorted(int(x) for x in sp.support_elements):
        bad.append(("launches-do-not-cover-support-once", len(seen), int(sp.number_of_support_elements)))
    if not ok:
        bad.append(("kernel-does-not-receive-the-space-arrays",))
    return bad


def main():
    cfg = json.load(sys.stdin)
    thorough = cfg.get("strength") == "thorough"
    rng = np.random.default_rng(int(os.environ.get("VERIF_SEED", "0")))
    out = {"cases": [], "launch_cases": [], "failures": [], "scan_evals": 0, "skipped": []}
    parts = cfg.get("parts", ["corr", "scan"])
    if "corr" in parts:
        # screen3x3: P1 spaces with several dofs AND zero-multiplier entries (on the 2x2 screen there is a single dof, so
        # a wrong alias target is invisible there -- seeded change C16-1)
        grids = [("octahedron", G.octahedron([0, 0, 1, 1, 2, 2, 5, 5])), ("screen2x2", G.screen(2, 2)),
                 ("screen3x3", G.screen(3, 3, [k % 3 for k in range(18)]))]
        if thorough:
            grids.append(("cube12", G.cube12()))
        for gname, grid in grids:
            keep = []
            for desc, sp in all_spaces(grid, rng, 6 if thorough else 3, thorough):
                if sp is None:
                    out["skipped"].append(dict(desc, grid=gname))
                    continue
                for suffix, v in variants(sp):
                    c = dict(space_arrays(v), **colour_dump(v))
                    c["desc"] = dict(desc, grid=gname, variant=suffix)
                    # kinds whose arrays are built as arange over the support (C16_alias_closed_arange covers them)
                    c["arange"] = bool(suffix) or desc["kind"] in ("DP0", "DP1", "DUAL0", "DUAL1", "BC0", "RBC0")
                    out["cases"].append(c)
                if desc["kind"] in ("DP0", "P1", "RWG", "DUAL0", "BC0") and len(keep) < (12 if thorough else 5):
                    keep.append((desc, sp))
            # launch structure: dense_assembler(domain, dual) for pairs of the kept spaces
            for (d1, s1), (d2, s2) in zip(keep, keep[1:] + keep[:1]):
                if s1.grid != s2.grid:
                    continue
                la, ok = record_launches(s1, s2)
                out["launch_cases"].append({"domain": dict(space_arrays(s1), **colour_dump(s1)),
                                            "dual": dict(space_arrays(s2), **colour_dump(s2)),
                                            "launches": la, "dofs_are_the_space_arrays": ok,
                                            "desc": {"grid": gname, "domain": d1, "dual": d2}})
    if "scan" in parts:
        grids = [("screen6x5", G.screen(6, 5)), ("torus5x4", G.torus(5, 4)), ("cube12", G.cube12())]
        if thorough:
            grids += [("screen9x8", G.screen(9, 8)), ("torus7x6", G.torus(7, 6)), ("two-components", G.two_components())]
        for gname, grid in grids:
            for desc, sp in all_spaces(grid, rng, 8 if thorough else 3, thorough):
                if sp is None:
                    continue
                if desc["kind"] in ("P1", "RWG", "DP1", "DUAL1", "BC0"):
                    out["scan_evals"] += 1
                    lb = launch_conflicts(sp)
                    sig = "C16:launch-conflict:%s" % desc["kind"]
                    if lb and sum(1 for f in out["failures"] if f["signature"] == sig) < 3:
                        out["failures"].append({
                            "signature": sig,
                            "what": "dense_assembler hands test elements that share a global dof to one parallel kernel "
                                    "launch (or its launches do not cover the support exactly once)",
                            "data": dict(desc, grid=gname, conflicts=[list(b) for b in lb[:5]])})
                for suffix, v in variants(sp):
                    out["scan_evals"] += 1
                    bad = conflicts(v)
                    sig = "C16:colour-conflict:%s%s" % (desc["kind"], suffix)
                    if bad and sum(1 for f in out["failures"] if f["signature"] == sig) < 3:
                        out["failures"].append({
                            "signature": sig,
                            "what": "two support elements of equal colour share a global dof (or the colour classes do "
                                    "not partition the support)",
                            "data": dict(desc, grid=gname, variant=suffix, conflicts=[list(b) for b in bad[:5]])})
    print("@@JSON " + json.dumps(out))


if __name__ == "__main__":
    main()
