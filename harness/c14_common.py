"""Shared helpers of the C14/C15/C18/C19 harnesses: small grids (pure numpy), JSON helpers."""
import json
import os
import sys
from fractions import Fraction as F

import numpy as np


def emit(obj):
    sys.stdout.write("\n@@JSON " + json.dumps(obj, default=_default) + "\n")
    sys.stdout.flush()


def _default(o):
    if isinstance(o, (np.integer,)):
        return int(o)
    if isinstance(o, (np.floating,)):
        return float(o)
    if isinstance(o, np.ndarray):
        return o.tolist()
    if isinstance(o, complex):
        return [o.real, o.imag]
    return str(o)


def fr(x):
    f = F(float(x))
    return [f.numerator, f.denominator]


def rng():
    return np.random.default_rng(int(os.environ.get("VERIF_SEED", "0") or 0))


# ---- grids: (vertices 3xn float64, elements 3xm) ------------------------------------------------------------
def tetrahedron():
    v = np.array([[0, 0, 0], [1, 0, 0], [0, 1, 0], [0, 0, 1]], dtype="float64").T
    e = np.array([[0, 2, 1], [0, 1, 3], [0, 3, 2], [1, 2, 3]]).T
    return v, e


def octahedron():
    v = np.array([[1, 0, 0], [-1, 0, 0], [0, 1, 0], [0, -1, 0], [0, 0, 1], [0, 0, -1]], dtype="float64").T
    e = np.array([[0, 2, 4], [2, 1, 4], [1, 3, 4], [3, 0, 4], [2, 0, 5], [1, 2, 5], [3, 1, 5], [0, 3, 5]]).T
    return v, e


def cube12():
    v = np.array([[x, y, z] for x in (0, 1) for y in (0, 1) for z in (0, 1)], dtype="float64").T
    q = [(0, 1, 3, 2), (4, 6, 7, 5), (0, 4, 5, 1), (2, 3, 7, 6), (0, 2, 6, 4), (1, 5, 7, 3)]
    e = []
    for a, b, c, d in q:
        e += [[a, b, c], [a, c, d]]
    return v, np.array(e).T


def screen(nx=2, ny=2):
    """Flat nx x ny screen of unit squares in z=0, each split into two right triangles (all areas 1/2)."""
    v = np.array([[i, j, 0] for j in range(ny + 1) for i in range(nx + 1)], dtype="float64").T
    e = []
    for j in range(ny):
        for i in range(nx):
            a = j * (nx + 1) + i
            b, c, d = a + 1, a + nx + 2, a + nx + 1
            e += [[a, b, c], [a, c, d]]
    return v, np.array(e).T


def two_components():
    v1, e1 = tetrahedron()
    v2, e2 = octahedron()
    return np.hstack([v1, v2 * 0.5 + np.array([[3.0], [0.25], [0.5]])]), np.hstack([e1, e2 + v1.shape[1]])


def distort(v, r):
    """Random affine map with dyadic coefficients (non-uniform element sizes, exact in binary)."""
    a = np.eye(3) + r.integers(-3, 4, size=(3, 3)) / 8.0
    while abs(np.linalg.det(a)) < 0.2:
        a = np.eye(3) + r.integers(-3, 4, size=(3, 3)) / 8.0
    b = r.integers(-8, 9, size=(3, 1)) / 4.0
    return a @ v + b


GRIDS = {"tetrahedron": tetrahedron, "octahedron": octahedron, "cube12": cube12, "screen2x2": screen,
         "two_components": two_components}


def make_grid(name, domain_indices=None, r=None):
    import bempp_cl.api as api
    v, e = GRIDS[name]()
    if r is not None:
        v = distort(v, r)
    return api.Grid(v, e.astype("uint32"), domain_indices)
