"""Shared implementation-side helpers of the C04 / C13 / C03 harnesses (mesh generators, dyadic dumps of the
implementation's own arrays, surrogate kernels, capture of the singular rule arrays).  Never imported by /repo."""
import json
import math
import sys

import numpy as np


def emit(obj):
    sys.stdout.write("@@JSON " + json.dumps(obj) + "\n")
    sys.stdout.flush()


# ---- exact dumps -------------------------------------------------------------------------------------------
def dy(x):
    """float -> [mantissa, exponent] with x == mantissa * 2**exponent exactly."""
    x = float(x)
    if x == 0.0:
        return [0, 0]
    n, d = x.as_integer_ratio()
    return [n, -(d.bit_length() - 1)]


def dyl(a):
    return [dy(x) for x in np.asarray(a, dtype=float).ravel()]


# ---- grids ---------------------------------------------------------------------------------------------------
def _grid(v, e, dom=None):
    import bempp_cl.api as api
    v = np.asarray(v, dtype="float64")
    e = np.asarray(e, dtype="uint32")
    if v.shape[0] != 3:
        v = v.T
    if e.shape[0] != 3:
        e = e.T
    return api.Grid(np.ascontiguousarray(v), np.ascontiguousarray(e),
                    None if dom is None else np.asarray(dom, dtype="uint32"))


OCTA_V = [[1, 0, 0], [-1, 0, 0], [0, 1, 0], [0, -1, 0], [0, 0, 1], [0, 0, -1]]
OCTA_E = [[0, 2, 4], [2, 1, 4], [1, 3, 4], [3, 0, 4], [2, 0, 5], [1, 2, 5], [3, 1, 5], [0, 3, 5]]
TETRA_V = [[0, 0, 0], [1, 0, 0], [0, 1, 0], [0, 0, 1]]
TETRA_E = [[0, 2, 1], [0, 1, 3], [1, 2, 3], [0, 3, 2]]
CUBE_V = [[0, 0, 0], [1, 0, 0], [1, 1, 0], [0, 1, 0], [0, 0, 1], [1, 0, 1], [1, 1, 1], [0, 1, 1]]
CUBE_E = [[0, 2, 1], [0, 3, 2], [4, 5, 6], [4, 6, 7], [0, 1, 5], [0, 5, 4], [1, 2, 6], [1, 6, 5],
          [2, 3, 7], [2, 7, 6], [3, 0, 4], [3, 4, 7]]


def screen(nx, ny):
    v = [[i, j, 0] for j in range(ny + 1) for i in range(nx + 1)]
    e = []
    for j in range(ny):
        for i in range(nx):
            a = j * (nx + 1) + i
            b, c, d = a + 1, a + nx + 1, a + nx + 2
            e += [[a, b, d], [a, d, c]]
    return v, e


def distort(v, rng, amount=1):
    """Non-uniform affine distortion with dyadic entries (k/8) plus a dyadic translation; invertible."""
    v = np.asarray(v, dtype=float)
    while True:
        m = np.eye(3) + amount * rng.integers(-3, 4, size=(3, 3)) / 8.0
        if abs(np.linalg.det(m)) > 0.3:
            break
    t = rng.integers(-4, 5, size=3) / 4.0
    return v @ m.T + t


def make_grid(name, rng=None, distorted=False, domains=None, jitter=False):
    if name == "octa":
        v, e = OCTA_V, OCTA_E
        dom = [0, 0, 0, 0, 1, 1, 1, 1]
    elif name == "octa3":
        v, e = OCTA_V, OCTA_E
        dom = [5, 7, 5, 9, 7, 9, 5, 7]
    elif name == "tetra":
        v, e = TETRA_V, TETRA_E
        dom = [0, 1, 1, 2]
    elif name == "cube":
        v, e = CUBE_V, CUBE_E
        dom = [0, 0, 1, 1, 2, 2, 2, 2, 3, 3, 1, 1]
    elif name == "screen22":
        v, e = screen(2, 2)
        dom = [0, 0, 1, 1, 2, 2, 1, 0]
    elif name == "screen21":
        v, e = screen(2, 1)
        dom = [0, 1, 1, 0]
    elif name == "screen31":
        v, e = screen(3, 1)
        dom = [0, 1, 1, 0, 2, 2]
    elif name == "two":
        v, e = screen(1, 1)
        dom = [0, 1]
    elif name == "twocomp":
        v1, e1 = TETRA_V, TETRA_E
        v = [list(x) for x in v1] + [[x[0] + 3, x[1], x[2] + 0.5] for x in v1]
        e = [list(x) for x in e1] + [[a + 4 for a in x] for x in e1]
        dom = [0, 0, 1, 1, 1, 2, 2, 0]
    else:
        raise ValueError(name)
    if domains is not None:
        dom = domains
    v = np.asarray(v, dtype=float)
    if distorted:
        v = distort(v, rng)
    if jitter:
        # per-vertex dyadic perturbation: element areas become non-uniform even on planar screens
        v = v + rng.integers(-2, 3, size=v.shape) / 16.0
    return _grid(v, e, dom)


GRID_NAMES = ["two", "screen21", "tetra", "screen31", "octa", "octa3", "screen22", "twocomp", "cube"]


# ---- spaces ---------------------------------------------------------------------------------------------------
KINDS = {"DP0": ("DP", 0), "DP1": ("DP", 1), "P1": ("P", 1), "RWG": ("RWG", 0), "SNC": ("SNC", 0)}
SHAPE_ID = {"DP0": 0, "DP1": 1, "P1": 1, "RWG": 2, "SNC": 2}


def make_space(grid, kind, opts):
    import bempp_cl.api as api
    k, d = KINDS[kind]
    kw = {}
    for key in ("segments", "support_elements", "swapped_normals", "include_boundary_dofs",
                "truncate_at_segment_edge"):
        if opts.get(key) is not None:
            kw[key] = opts[key]
    if "support_elements" in kw:
        kw["support_elements"] = np.asarray(kw["support_elements"], dtype="uint32")
    if kind in ("DP0", "DP1"):
        kw.pop("include_boundary_dofs", None)
        kw.pop("truncate_at_segment_edge", None)
    return api.function_space(grid, k, d, **kw)


def random_space_opts(grid, kind, rng, allow_full=True):
    """Random segment / support / flag selection for a space kind."""
    doms = sorted(set(int(x) for x in grid.domain_indices))
    nel = grid.number_of_elements
    mode = rng.integers(0, 3 if allow_full else 2)
    opts = {}
    if mode == 0 and len(doms) > 1:
        k = int(rng.integers(1, len(doms)))
        opts["segments"] = sorted(int(x) for x in rng.choice(doms, size=k, replace=False))
    elif mode <= 1:
        k = int(rng.integers(1, nel))
        opts["support_elements"] = sorted(int(x) for x in rng.choice(nel, size=k, replace=False))
    if kind in ("P1", "RWG", "SNC"):
        opts["include_boundary_dofs"] = bool(rng.integers(0, 2))
        opts["truncate_at_segment_edge"] = bool(rng.integers(0, 2))
    if rng.integers(0, 4) == 0:
        opts["swapped_normals"] = [int(rng.choice(doms))]
    return opts


def space_has_dofs(space):
    """False for the phantom-DOF spaces of lead 15 (no element carries a DOF)."""
    return bool(np.any(space.local_multipliers[space.support] != 0))


def dump_space(space, kind):
    idx, ptr = space.get_elements_by_color()
    colors = [[int(x) for x in idx[ptr[c]:ptr[c + 1]]] for c in range(len(ptr) - 1)]
    return {"kind": kind, "shape": SHAPE_ID[kind], "ns": int(space.number_of_shape_functions),
            "support": [bool(x) for x in space.support],
            "l2g": [[int(x) for x in row] for row in space.local2global],
            "mult": [dyl(row) for row in space.local_multipliers],
            "colors": colors, "nm": dyl(space.normal_multipliers),
            "ndof": int(space.global_dof_count), "gdc": int(space.grid_dof_count),
            "requires_dof_transformation": bool(space.requires_dof_transformation)}


def dump_grid(grid):
    d = grid.data("double")
    nel = grid.number_of_elements
    els = grid.elements
    return {"nel": int(nel), "els": [[int(els[k, e]) for k in range(3)] for e in range(nel)],
            "edge_adj": [[int(x) for x in grid.edge_adjacency[:, c]] for c in range(grid.edge_adjacency.shape[1])],
            "vertex_adj": [[int(x) for x in grid.vertex_adjacency[:, c]]
                           for c in range(grid.vertex_adjacency.shape[1])],
            "v0": [dyl(d.vertices[:, els[0, e]]) for e in range(nel)],
            "jac": [[dyl(d.jacobians[e][:, 0]), dyl(d.jacobians[e][:, 1])] for e in range(nel)],
            "jit": [[dyl(d.jac_inv_trans[e][:, 0]), dyl(d.jac_inv_trans[e][:, 1])] for e in range(nel)],
            "normal": [dyl(d.normals[e]) for e in range(nel)],
            "intel": dyl(d.integration_elements), "vol": dyl(d.volumes),
            "domain": [int(x) for x in grid.domain_indices]}


def edge_ratio(grid):
    """edge_lengths[i] / integration_elements[e] exactly as _numba_rwg0_evaluate computes the factor, per (e, i):
    lm * edge_length / intel  is evaluated left to right; the model receives edge_length and intel separately
    would need a division, so the harness passes the float quotient fl(fl(lm*len)/intel) for lm = 1."""
    d = grid.data("double")
    out = []
    for e in range(grid.number_of_elements):
        v = [d.vertices[:, d.elements[k, e]] for k in range(3)]
        ln = [np.linalg.norm(v[0] - v[1]), np.linalg.norm(v[2] - v[0]), np.linalg.norm(v[1] - v[2])]
        out.append([dy(l / d.integration_elements[e]) for l in ln])
    return out


# ---- surrogate kernels -----------------------------------------------------------------------------------------
def _k0(x, y, nx, ny):
    return 1.0 + x[0] * y[1] - 2.0 * x[2] * y[0] + 0.5 * (nx[0] * ny[0] + nx[1] * ny[1] + nx[2] * ny[2])


def _k1(x, y, nx, ny):
    return (x[0] - y[0]) * nx[0] + (x[1] - y[1]) * ny[1] + 0.25 * x[2] * y[2] - 0.75 * nx[2] * ny[0] + 0.125


KERNELS = [_k0, _k1]


_ZERO3 = np.zeros(3)


def make_regular(k):
    f = KERNELS[k]

    def kern(test_point, trial_points, test_normal, trial_normals, kernel_parameters):
        n = trial_points.shape[1]
        out = np.empty(n, dtype=np.float64)
        for j in range(n):
            # the Maxwell assemblers pass None for the normals
            out[j] = f(test_point, trial_points[:, j], _ZERO3 if test_normal is None else test_normal,
                       _ZERO3 if trial_normals is None else trial_normals[:, j])
        return out
    return kern


def make_singular(k):
    f = KERNELS[k]

    def kern(test_points, trial_points, test_normal, trial_normal, kernel_parameters):
        n = trial_points.shape[1]
        out = np.empty(n, dtype=np.float64)
        for j in range(n):
            out[j] = f(test_points[:, j], trial_points[:, j], _ZERO3 if test_normal is None else test_normal,
                       _ZERO3 if trial_normal is None else trial_normal)
        return out
    return kern


class Patched(object):
    """Run the library's own assemble_dense / SingularAssembler with the Numba assembly loops of WHICHEVER assembler
    select_numba_kernels picks (default scalar, the three hypersingular, the two Maxwell; regular and singular) executed
    through .py_func (same source, no JIT), and the kernel function replaced by a polynomial surrogate (kernel_id 0/1)
    or kept (kernel_id None: the library's own Green's function).  Captures the singular rule arrays."""

    def __init__(self, kernel_id, jit=False):
        self.k = kernel_id
        self.jit = jit
        self.captured = []
        self.used = []

    def __enter__(self):
        import numba
        import bempp_cl.core.numba_kernels as nk
        import bempp_cl.core.singular_assembler as sa
        self.nk, self.sa = nk, sa
        self.orig_select = nk.select_numba_kernels
        self.orig_get = sa._SingularQuadratureRuleInterfaceGalerkin.get_arrays
        reg = sing = None
        if self.k is not None:
            reg, sing = make_regular(self.k), make_singular(self.k)
            if self.jit:
                reg, sing = numba.njit(reg), numba.njit(sing)
        me = self

        def select(desc, mode="regular"):
            f, kf = me.orig_select(desc, mode)
            if mode in ("regular", "singular"):
                me.used.append((mode, f.py_func.__name__))
                return (f if me.jit else f.py_func, kf if me.k is None else (reg if mode == "regular" else sing))
            return f, kf

        def get_arrays(rule):
            arrs = me.orig_get(rule)
            me.captured.append([np.array(a) for a in arrs])
            return arrs
        nk.select_numba_kernels = select
        sa._SingularQuadratureRuleInterfaceGalerkin.get_arrays = get_arrays
        return self

    def __exit__(self, *a):
        self.nk.select_numba_kernels = self.orig_select
        self.sa._SingularQuadratureRuleInterfaceGalerkin.get_arrays = self.orig_get
        return False


class PyFuncMode(object):
    """Execute the Numba-decorated sparse kernels and grid-function routines through .py_func (same source text, no
    JIT specialisation per space type / callable).  Used by the correspondence and by the quick search."""

    def __init__(self, enabled=True):
        self.enabled = enabled

    def __enter__(self):
        if not self.enabled:
            return self
        import bempp_cl.core.numba_kernels as nk
        import bempp_cl.api.assembly.grid_function as gfm
        self.nk, self.gfm = nk, gfm
        self.saved = (nk.select_numba_kernels, gfm._project_function, gfm._project_function_vectorized, gfm._integrate)
        orig = nk.select_numba_kernels

        def select(desc, mode="regular"):
            a, k = orig(desc, mode)
            if mode == "sparse":
                return a.py_func, k.py_func
            return a, k
        nk.select_numba_kernels = select
        gfm._project_function = gfm._project_function.py_func
        gfm._project_function_vectorized = gfm._project_function_vectorized.py_func
        gfm._integrate = gfm._integrate.py_func
        return self

    def __exit__(self, *a):
        if self.enabled:
            (self.nk.select_numba_kernels, self.gfm._project_function, self.gfm._project_function_vectorized,
             self.gfm._integrate) = self.saved
        return False


def dump_singular(arrs, grid):
    """Per singular pair, in the implementation's order: [kind, te, tr, [[tp0,tp1,rp0,rp1,w], ...]]."""
    (tp, rp, w, te, tr, toff, roff, woff, npts) = arrs
    out = []
    nel = grid.number_of_elements
    ea = {(int(grid.edge_adjacency[0, c]), int(grid.edge_adjacency[1, c])) for c in
          range(grid.edge_adjacency.shape[1])}
    for i in range(len(te)):
        a, b = int(te[i]), int(tr[i])
        kind = 0 if a == b else (1 if (a, b) in ea else 2)
        n = int(npts[i])
        pts = [[dy(tp[0, toff[i] + q]), dy(tp[1, toff[i] + q]), dy(rp[0, roff[i] + q]), dy(rp[1, roff[i] + q]),
                dy(w[woff[i] + q])] for q in range(n)]
        out.append([kind, a, b, pts])
    return out


def dump_matrix(m):
    m = np.asarray(m)
    return [[dy(x) for x in row] for row in m]


def rule_dump(order):
    from bempp_cl.api.integration.triangle_gauss import rule
    p, w = rule(order)
    return [[dy(p[0, i]), dy(p[1, i]), dy(w[i])] for i in range(len(w))]


def set_orders(regular, singular):
    import bempp_cl.api as api
    api.GLOBAL_PARAMETERS.quadrature.regular = int(regular)
    api.GLOBAL_PARAMETERS.quadrature.singular = int(singular)


def designed_opts(grid, kind, rng, avoid=None, partner=None, tries=400):
    """Options for a space with >= 3 support elements whose support is NOT a leading block of elements, whose local
    multipliers (P1/RWG/SNC) are not all 1 on the support and differ between 'row of element e' and 'row of the position
    of e in the support' (so that any confusion of element index and position is visible), with at least one DOF;
    support different from `avoid`; if `partner` (a support) is given, some element pair (this, partner) is not adjacent
    (the regular assembler contributes)."""
    els = grid.elements
    nel = grid.number_of_elements
    vsets = [set(int(x) for x in els[:, e]) for e in range(nel)]
    for _ in range(tries):
        opts = random_space_opts(grid, kind, rng, allow_full=False)
        opts.pop("swapped_normals", None)
        try:
            sp = make_space(grid, kind, opts)
        except Exception:
            continue
        sup = np.flatnonzero(sp.support)
        n = len(sup)
        if n < min(3, nel - 1) or bool(np.all(sp.support[:n])) or not space_has_dofs(sp):
            continue
        if kind in ("P1", "RWG", "SNC"):
            lm = sp.local_multipliers
            if bool(np.all(lm[sup] == 1)) or bool(np.array_equal(lm[sup], lm[:n])):
                continue
        if avoid is not None and bool(np.array_equal(sp.support, avoid)):
            continue
        ie = grid.integration_elements
        if bool(np.allclose(ie[sup], ie[:n], rtol=1e-3)) and not bool(np.allclose(ie, ie[0], rtol=1e-3)):
            continue        # the areas at the positions must differ from the areas of the support elements
        if partner is not None and not any(not (vsets[a] & vsets[b]) for a in sup for b in np.flatnonzero(partner)):
            continue
        return opts, sp
    raise RuntimeError("no designed space found for %s" % kind)
