"""C19 implementation side: export/import through temp files under the scratch directory (removed afterwards).

stdin JSON {"strength": "quick"|"thorough"}; prints '@@JSON {...}' with
  grid_cases : what meshio read back and what import_grid returned, for the correspondence with IO/Msh.v
  data_cases : what export wrote for grid functions (read back with meshio), for the correspondence
  failures   : violations of the property found on the implementation (signature, what, data)
"""
import json
import os
import shutil
import sys
import traceback

import numpy as np

from c14_common import emit, fr, rng, make_grid

import meshio
import bempp_cl.api as api

TMP = os.path.join(os.getcwd(), "tmp_io")


def dom_patterns(m, r, thorough):
    pats = {
        "none": None,
        "zeros": [0] * m,
        "ones": [1] * m,
        "same7": [7] * m,
        "zero_one": [i % 2 for i in range(m)],
        "one_nonzero": [0] * (m - 1) + [3],
        "noncontig": [(5, 7, 9)[i % 3] for i in range(m)],
        "hash_order": [(8, 1, 17, 33)[i % 4] for i in range(m)],
        "large": [(2 ** 31 - 1, 2 ** 31, 2 ** 32 - 1, 12)[i % 4] for i in range(m)],
        "random": [int(x) for x in r.integers(0, 50, size=m)],
    }
    if thorough:
        for k in range(6):
            pats["random%d" % k] = [int(x) for x in r.choice([0, 0, 1, 2, 40000, 2 ** 32 - 5], size=m)]
    return pats


def tags(mesh, key):
    try:
        return [int(x) for x in mesh.cell_data_dict[key]["triangle"]]
    except Exception:
        return None


def grid_roundtrips(out, r, thorough):
    fails = out["failures"]
    formats = [(".msh", True), (".msh", False), (".vtu", True), (".vtu", False), (".ply", True), (".ply", False)]
    names = ["tetrahedron", "octahedron", "screen2x2", "two_components"] + (["cube12"] if thorough else [])
    for name in names:
        for dist in (False, True):
            g0 = make_grid(name, None, r if dist else None)
            m = g0.number_of_elements
            for pname, dom in dom_patterns(m, r, thorough).items():
                if dist and not thorough and pname not in ("zeros", "noncontig", "random", "large"):
                    continue
                g = api.Grid(g0.vertices, g0.elements, dom)
                for ext, binary in formats:
                    if ext != ".msh" and pname not in ("none", "noncontig", "random"):
                        continue
                    case = {"grid": name, "distorted": dist, "pattern": pname, "ext": ext, "binary": binary,
                            "dom": [int(x) for x in g.domain_indices],
                            "uniq": [int(x) for x in set(g.domain_indices)]}
                    fn = os.path.join(TMP, "g" + ext)
                    out["evaluations"] += 1
                    try:
                        api.export(fn, grid=g, write_binary=binary)
                        mesh = meshio.read(fn)
                        case["read_phys"] = tags(mesh, "gmsh:physical")
                        case["read_geom"] = tags(mesh, "gmsh:geometrical")
                        h = api.import_grid(fn)
                        case["imported_dom"] = [int(x) for x in h.domain_indices]
                        v_same = h.vertices.shape == g.vertices.shape and np.array_equal(h.vertices, g.vertices)
                        v_close = h.vertices.shape == g.vertices.shape and np.allclose(h.vertices, g.vertices,
                                                                                      rtol=1e-6, atol=1e-6)
                        e_same = h.elements.shape == g.elements.shape and np.array_equal(h.elements, g.elements)
                        case.update(verts_identical=bool(v_same), verts_close=bool(v_close), elems_same=bool(e_same),
                                    oracle_points=bool(np.array_equal(mesh.points, g.vertices.T)),
                                    oracle_cells=bool(np.array_equal(mesh.cells_dict["triangle"], g.elements.T)))
                        data = {k: case[k] for k in ("grid", "distorted", "pattern", "ext", "binary", "dom")}
                        data["imported_dom"] = case["imported_dom"]
                        if not e_same:
                            fails.append({"signature": "C19:%s-roundtrip:elements-changed" % ext[1:],
                                          "what": "export/import_grid changes the connectivity", "data": data})
                        if ext == ".msh":
                            if not v_same:
                                fails.append({"signature": "C19:msh-roundtrip:vertices-changed",
                                              "what": "Gmsh export/import changes vertex coordinates", "data": data})
                            if case["imported_dom"] != case["dom"]:
                                if not any(case["dom"]):
                                    fails.append({"signature": "C19:msh-roundtrip:all-zero-domain-indices-become-%s" %
                                                  "-".join(str(x) for x in sorted(set(case["imported_dom"]))),
                                                  "what": "a grid whose domain indices are all 0 (the default) is "
                                                          "re-imported from .msh with different domain indices",
                                                  "data": data})
                                else:
                                    fails.append({"signature": "C19:msh-roundtrip:domain-indices-changed",
                                                  "what": "Gmsh export/import changes non-zero domain indices",
                                                  "data": data})
                        else:
                            # float32 formats (.ply stores what meshio gives it; allow single-precision storage)
                            if not v_close:
                                fails.append({"signature": "C19:%s-roundtrip:vertices-changed" % ext[1:],
                                              "what": "export/import changes vertex coordinates", "data": data})
                    except Exception as e:
                        case["exc"] = type(e).__name__ + ": " + str(e)[:200]
                        fails.append({"signature": "C19:%s-roundtrip:raises-%s" % (ext[1:], type(e).__name__),
                                      "what": "export/import_grid raises", "data": case})
                    out["grid_cases"].append(case)


# ---- data ------------------------------------------------------------------------------------------------------
def ref_transform(a, mode):
    """Independent statement of the documented transformations on a (components x n) array."""
    if mode is None:
        return a
    if mode == "real":
        return a.real.copy()
    if mode == "imag":
        return a.imag.copy()
    s = (a.real ** 2 + a.imag ** 2).sum(axis=0, keepdims=True)
    if mode == "abs_squared":
        return s
    if mode == "abs":
        return np.sqrt(s)
    if mode == "log_abs":
        return np.log(np.sqrt(s))
    if mode == "call2":
        return 2 * a
    raise ValueError(mode)


def tolerant_msh_data(txt, section, n):
    """Read the $NodeData/$ElementData sections of an ascii gmsh 2.2 file, accepting numpy-2 scalar reprs."""
    import re
    got = {}
    try:
        text = txt.decode("latin1")
    except Exception:
        return got
    for m in re.finditer(r"\$%s\n(.*?)\$End%s" % (section, section), text, re.S):
        lines = m.group(1).strip().split("\n")
        nstr = int(lines[0])
        name = lines[1].strip().strip('"')
        pos = 1 + nstr
        nreal = int(lines[pos])
        pos += 1 + nreal
        nint = int(lines[pos])
        ints = [int(x) for x in lines[pos + 1:pos + 1 + nint]]
        pos += 1 + nint
        ncomp, nitems = ints[1], ints[2]
        rows = []
        for ln in lines[pos:pos + nitems]:
            vals = re.sub(r"np\.float\d+\(([^)]*)\)", r"\1", ln).split()
            rows.append([float(x) for x in vals[1:1 + ncomp]])
        got[name] = np.array(rows).reshape(n, -1)
    return got


def double(a):
    return 2 * a


def cq(z):
    z = complex(z)
    return [fr(z.real), fr(z.imag)]


def data_exports(out, r, thorough):
    fails = out["failures"]
    kinds = [("DP", 0), ("DP", 1), ("P", 1), ("RWG", 0), ("SNC", 0), ("DUAL", 0), ("DUAL", 1), ("BC", 0), ("RBC", 0)]
    modes = [None, "real", "imag", "abs", "abs_squared", "log_abs", "call2"]
    grids = [("tetrahedron", True)] + ([("octahedron", True), ("screen2x2", False)] if thorough else [])
    for gi, (gname, dist) in enumerate(grids):
        m0 = make_grid(gname, None, r if dist else None)
        g = api.Grid(m0.vertices, m0.elements, [(5, 7, 9)[i % 3] for i in range(m0.number_of_elements)])
        for kind, deg in kinds:
            try:
                sp = api.function_space(g, kind, deg)
            except Exception as e:
                fails.append({"signature": "C19:space-%s%d-raises" % (kind, deg), "what": str(e)[:200], "data": {}})
                continue
            nd = sp.global_dof_count
            coeffs = r.integers(-8, 9, size=nd) / 4.0 + 1j * (r.integers(-8, 9, size=nd) / 4.0)
            for cplx in (False, True):
                f = api.GridFunction(sp, coefficients=coeffs if cplx else coeffs.real.copy())
                grid = sp.grid
                for dt in ("node", "element", None):
                    ref = f.evaluate_on_vertices() if (dt == "node" or (dt is None and sp.identifier == "p1")) \
                        else f.evaluate_on_element_centers()
                    eff = "node" if (dt == "node" or (dt is None and sp.identifier == "p1")) else "element"
                    n = ref.shape[1]
                    for mode in (modes if dt is not None else [None]):
                        fmts = [(".msh", True)]
                        if mode is None and dt is not None:
                            fmts += [(".msh", False), (".vtu", True)]
                        for ext, binary in fmts:
                            out["evaluations"] += 1
                            case = {"grid": gname, "space": "%s%d" % (kind, deg), "complex": cplx, "data_type": dt,
                                    "effective": eff, "mode": mode, "ext": ext, "binary": binary, "n": n,
                                    "npts": grid.number_of_vertices, "ncells": grid.number_of_elements,
                                    "ncomp": int(ref.shape[0])}
                            fn = os.path.join(TMP, "f" + ext)
                            want = ref_transform(ref, mode)
                            try:
                                api.export(fn, grid_function=f, data_type=dt,
                                           transformation=double if mode == "call2" else mode, write_binary=binary)
                            except Exception as e:
                                case["result"] = type(e).__name__
                                case["message"] = str(e)[:160]
                                sig = "C19:export-grid-function:%s-%s-data-raises-%s" % (
                                    "complex" if np.iscomplexobj(want) else "real", eff, type(e).__name__)
                                fails.append({"signature": sig,
                                              "what": "export(grid_function=..., data_type=%r) raises %s: %s" % (
                                                  eff, type(e).__name__, str(e)[:120]),
                                              "data": {k: case[k] for k in ("grid", "space", "complex", "data_type",
                                                                            "mode", "ext")}})
                                if gi == 0 and ext == ".msh" and binary and dt is not None:
                                    case["vals"] = [[cq(x) for x in row] for row in ref]
                                    out["data_cases"].append(case)
                                continue
                            got = {}
                            try:
                                mesh = meshio.read(fn)
                                if eff == "node":
                                    for k, v in mesh.point_data.items():
                                        got[k] = np.asarray(v).reshape(n, -1)
                                else:
                                    for k, v in mesh.cell_data.items():
                                        if not k.startswith("gmsh:") and k != "domain_index":
                                            got[k] = np.asarray(v[0]).reshape(n, -1)
                            except Exception as e:
                                txt = open(fn, "rb").read()
                                numpy_repr = b"np.float64(" in txt
                                fails.append({
                                    "signature": "C19:export-grid-function:%s-file-unreadable-by-meshio%s" % (
                                        ext[1:] + ("" if binary else "-ascii"),
                                        "(numpy-scalar-repr-in-file)" if numpy_repr else ""),
                                    "what": "meshio cannot read back the grid-function file that export wrote: %s: %s"
                                            % (type(e).__name__, str(e)[:100]),
                                    "data": {k: case[k] for k in ("grid", "space", "complex", "data_type", "mode",
                                                                  "ext", "binary")}})
                                case["meshio_read"] = type(e).__name__
                                got = tolerant_msh_data(txt, "NodeData" if eff == "node" else "ElementData", n)
                            case["result"] = sorted(got)
                            tol = 0.0 if binary else 1e-14
                            if np.iscomplexobj(want):
                                exp = {"real": want.real.T, "imag": want.imag.T}
                            else:
                                exp = {"data": want.T}
                            ok = sorted(got) == sorted(exp)
                            worst = 0.0
                            if ok:
                                for k in exp:
                                    if got[k].shape != exp[k].shape:
                                        ok = False
                                        break
                                    scale = max(1.0, float(np.max(np.abs(exp[k]))))
                                    err = float(np.max(np.abs(got[k] - exp[k]))) / scale
                                    worst = max(worst, err)
                                    if err > max(tol, 4e-16 if mode in ("abs", "log_abs", "abs_squared") else tol):
                                        ok = False
                            case["worst"] = worst
                            if not ok:
                                fails.append({"signature": "C19:export-grid-function:%s-data-differs(%s)" % (eff, ext[1:]),
                                              "what": "file content differs from the transformed evaluate_on_%s values" %
                                                      ("vertices" if eff == "node" else "element_centers"),
                                              "data": {k: case[k] for k in ("grid", "space", "complex", "data_type",
                                                                            "mode", "ext", "binary", "worst", "result")}})
                            if gi == 0 and ext == ".msh" and binary and dt is not None:
                                case["vals"] = [[cq(x) for x in row] for row in ref]
                                if mode in ("abs", "log_abs"):      # sqrt/log are abstract in the model: shapes only
                                    case["file"] = {k: [[None for x in row] for row in v] for k, v in got.items()}
                                else:
                                    case["file"] = {k: [[cq(x) for x in row] for row in v] for k, v in got.items()}
                                out["data_cases"].append(case)
                            else:
                                out["data_light"].append(case)


def main():
    cfg = json.load(sys.stdin)
    thorough = cfg.get("strength") == "thorough"
    r = rng()
    out = {"grid_cases": [], "data_cases": [], "data_light": [], "failures": [], "evaluations": 0}
    shutil.rmtree(TMP, ignore_errors=True)
    os.makedirs(TMP)
    try:
        if cfg.get("replay"):
            rp = cfg["replay"]
            out["replayed"] = rp.get("signature")
        grid_roundtrips(out, r, thorough)
        data_exports(out, r, thorough)
    except Exception:
        out["crash"] = traceback.format_exc()
    finally:
        shutil.rmtree(TMP, ignore_errors=True)
    emit(out)


if __name__ == "__main__":
    main()
