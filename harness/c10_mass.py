"""C10 harness: conformity of BC/RBC on the barycentric grid and mixed mass matrices against high-order quadrature
of the product of the two bases (each basis evaluated through its own definition: coarse spaces through their coarse
`evaluate`, barycentric/dual spaces through their barycentric `evaluate` and dof_transformation)."""
import numpy as np

import bempp_cl.api as api
from bempp_cl.api.integration import triangle_gauss

EDGE_MID = {0: (0.5, 0.0), 1: (0.0, 0.5), 2: (0.5, 0.5)}      # local edges (v0,v1), (v2,v0), (v1,v2)
EDGE_VERT = {0: (0, 1), 1: (2, 0), 2: (1, 2)}


def _opt_name(o):
    return ",".join("%s=%s" % (k, o[k]) for k in sorted(o)) or "whole"


def _coarse_local(grid, e, X):
    P0 = grid.vertices[:, grid.elements[0, e]]
    return np.linalg.lstsq(grid.jacobians[e], X - P0[:, None], rcond=None)[0]


def _bary_points(bg, be, loc):
    B = bg.vertices[:, bg.elements[:, be]]
    return B[:, [0]] + (B[:, [1]] - B[:, [0]]) * loc[0] + (B[:, [2]] - B[:, [0]]) * loc[1]


def eval_matrix(space, grid, bg, qp):
    """A[(be, q, comp), global dof]: value of every global basis function at point q of barycentric element be."""
    codim = space.codomain_dimension
    nq = qp.shape[1]
    nbe = bg.number_of_elements
    G = np.zeros((nbe, nq, codim, space.grid_dof_count))
    if space.grid.number_of_elements == nbe and space.is_barycentric:
        for be in space.support_elements:
            be = int(be)
            vals = space.evaluate(be, qp)
            for k in range(vals.shape[1]):
                G[be, :, :, int(space.local2global[be, k])] += vals[:, k, :].T
    else:
        for e in space.support_elements:
            e = int(e)
            for j in range(6):
                be = 6 * e + j
                xi = _coarse_local(grid, e, _bary_points(bg, be, qp))
                vals = space.evaluate(e, xi)
                for k in range(vals.shape[1]):
                    G[be, :, :, int(space.local2global[e, k])] += vals[:, k, :].T
    G = G.reshape(nbe * nq * codim, space.grid_dof_count)
    return G @ space.dof_transformation.toarray() if hasattr(space.dof_transformation, "toarray") \
        else space.dof_transformation.T.dot(G.T).T


def reference_mass(test, trial, grid, bg, order=8, cache=None):
    """(R, S): R = order-8 quadrature of test_i . trial_j over the barycentric grid; S = the same with absolute values
    (cancellation-free magnitude used as the scale of the comparison)."""
    qp, qw = triangle_gauss.rule(order)
    mats = []
    for sp in (test, trial):
        if cache is not None and id(sp) in cache:
            mats.append(cache[id(sp)])
        else:
            A = eval_matrix(sp, grid, bg, qp)
            if cache is not None:
                cache[id(sp)] = A
            mats.append(A)
    At, Ar = mats
    codim = test.codomain_dimension
    w = np.repeat((bg.integration_elements[:, None] * qw[None, :]).ravel(), codim)
    return At.T @ (w[:, None] * Ar), np.abs(At).T @ (w[:, None] * np.abs(Ar))


def is_empty(sp):
    """No real dof (e.g. P1 on a segment without interior vertex: bempp-cl then reports a phantom dof, lead 15 / C09)."""
    if sp.number_of_support_elements == 0:
        return True
    if sp.dof_transformation.shape[1] != sp.global_dof_count or sp.dof_transformation.shape[0] != sp.grid_dof_count:
        return True
    return not np.any(sp.local_multipliers[sp.support_elements] != 0)


NAME = {("P", 1): "P1", ("DP", 0): "DP0", ("RWG", 0): "RWG", ("SNC", 0): "SNC", ("DUAL", 0): "DUAL0", ("DUAL", 1): "DUAL1",
        ("BC", 0): "BC", ("RBC", 0): "RBC"}
PAIRS_QUICK = [  # (trial/domain, test/dual_to_range)
    (("P", 1), ("DUAL", 0)), (("DP", 0), ("DUAL", 1)), (("DUAL", 0), ("DUAL", 1)), (("P", 1), ("DUAL", 1)),
    (("RWG", 0), ("RBC", 0)), (("SNC", 0), ("BC", 0)), (("RWG", 0), ("BC", 0)), (("BC", 0), ("RBC", 0)),
    (("DP", 0), ("P", 1)),
]
PAIRS_MORE = [(("DUAL", 0), ("P", 1)), (("DUAL", 1), ("DP", 0)), (("SNC", 0), ("RBC", 0)), (("BC", 0), ("BC", 0)),
              (("RBC", 0), ("RBC", 0)), (("DUAL", 1), ("DUAL", 1)), (("DUAL", 0), ("DUAL", 0)), (("BC", 0), ("SNC", 0)),
              (("DP", 0), ("DUAL", 0)), (("RWG", 0), ("SNC", 0))]


def _space(grid, kd, o, cache):
    key = (kd, _opt_name(o))
    if key not in cache:
        try:
            cache[key] = api.function_space(grid, kd[0], kd[1], **o)
        except Exception as e:
            cache[key] = e
    return cache[key]


def _mass_signature(dom, test):
    fam = {"P": "p1", "DP": "dp0", "DUAL0": "dual0", "DUAL1": "dual1", "RWG": "rwg", "SNC": "snc", "BC": "bc", "RBC": "rbc"}

    def nm(kd):
        return fam["DUAL%d" % kd[1]] if kd[0] == "DUAL" else fam[kd[0]]
    return "C10:mixed_mass:%s x %s" % (nm(dom), nm(test))


def mixed_mass(out, grids, rng, thorough, family="all"):
    worst = {}
    use = grids if thorough else [g for g in grids if g[0] in ("octahedron_distorted", "screen2x2_distorted",
                                                               "bipyramid5_distorted")]
    pairs = (PAIRS_QUICK + PAIRS_MORE) if thorough else PAIRS_QUICK[:3] + PAIRS_QUICK[4:6]
    scalar = ("P", "DP", "DUAL")
    if family == "scalar":
        pairs = [p for p in pairs if p[0][0] in scalar]
    elif family == "vector":
        pairs = [p for p in pairs if p[0][0] not in scalar]
    for name, grid, dom in use:
        bg = grid.barycentric_refinement
        doms = sorted(set(int(x) for x in dom))
        optsets = [{}]
        if thorough and len(doms) > 1:
            optsets.append({"segments": [doms[-1]]})
            optsets.append({"segments": [doms[0]], "truncate_at_segment_edge": False})
        closed = not np.any(grid.edge_on_boundary)
        for o in optsets:
            cache, emats = {}, {}
            for dk, tk in pairs:
                sd, st = _space(grid, dk, o, cache), _space(grid, tk, o, cache)
                if isinstance(sd, Exception) or isinstance(st, Exception):
                    continue                     # construction failures are reported by the dual / bc parts
                if is_empty(sd) or is_empty(st):
                    continue
                try:
                    M = api.operators.boundary.sparse.identity(sd, st, st).weak_form().to_sparse().toarray()
                except Exception as e:
                    out["failures"].append({"signature": _mass_signature(dk, tk) + ":raises",
                                            "what": "identity(%s%d, ., %s%d) on %s (%s) raises %s: %s" % (
                                                dk[0], dk[1], tk[0], tk[1], name, _opt_name(o), type(e).__name__, e),
                                            "data": {"grid": name, "options": o}})
                    continue
                R, S = reference_mass(st, sd, grid, bg, cache=emats)
                out["search_evals"] += int(M.size)
                scale = max(S.max(), 1e-300)
                err = float(np.abs(M - R).max() / scale) if M.shape == R.shape else float("inf")
                sig = _mass_signature(dk, tk)
                if err > 1e-10 and M.shape == R.shape:
                    # attribute: does the assembled matrix equal the integral taken with the barycentric
                    # representations of the coarse spaces instead of the coarse functions themselves?
                    reps = [sp.barycentric_representation() if not sp.is_barycentric else sp for sp in (st, sd)]
                    R2, S2 = reference_mass(reps[0], reps[1], grid, bg, cache=emats)
                    if np.abs(M - R2).max() <= 1e-10 * max(S2.max(), 1e-300):
                        which = [NAME[k] for k, sp in ((tk, st), (dk, sd)) if not sp.is_barycentric]
                        sig = "C10:mixed_mass:via %s.barycentric_representation" % "+".join(sorted(set(which)))
                key = "%s%d x %s%d" % (dk[0], dk[1], tk[0], tk[1])
                worst[key] = max(worst.get(key, 0.0), err)
                if err > 1e-10:
                    i, j = np.unravel_index(int(np.argmax(np.abs(M - R))), M.shape) if M.shape == R.shape else (0, 0)
                    out["failures"].append({
                        "signature": sig,
                        "what": "identity(domain=%s%d, dual_to_range=%s%d) on %s (%s): assembled mass matrix differs from "
                                "order-8 quadrature of the product of the bases, relative error %.3g (entry [%d,%d]: %.12g "
                                "vs %.12g)" % (dk[0], dk[1], tk[0], tk[1], name, _opt_name(o), err, i, j,
                                               M[i, j] if M.shape == R.shape else float("nan"),
                                               R[i, j] if M.shape == R.shape else float("nan")),
                        "data": {"grid": name, "options": o, "domain": list(dk), "dual_to_range": list(tk),
                                 "vertices": grid.vertices.tolist(), "elements": grid.elements.tolist(),
                                 "domain_indices": grid.domain_indices.tolist()}})
    out["worst"]["mixed_mass_rel_err_" + family] = worst


def bc_optsets(grid, dom, thorough):
    doms = sorted(set(int(x) for x in dom))
    optsets = [{}]
    if len(doms) > 1:
        optsets.append({"segments": [doms[-1]], "truncate_at_segment_edge": False})
        optsets.append({"segments": [doms[-1]]})
        if thorough:
            optsets.append({"segments": [doms[0]], "truncate_at_segment_edge": False})
            optsets.append({"segments": doms[:2]})
    return optsets


def bc_conformity(out, grids, rng, thorough, optsets_fn=bc_optsets):
    """Normal (BC) / tangential (RBC) continuity across barycentric edges inside the support; RBC = n x BC."""
    worst = {"BC": 0.0, "RBC": 0.0, "RBC=nxBC": 0.0}
    use = grids if thorough else grids[:4]
    for name, grid, dom in use:
        bg = grid.barycentric_refinement
        for o in optsets_fn(grid, dom, thorough):
            sps = {}
            if "segments" in o and is_empty(api.function_space(grid, "RWG", 0, **o)):
                continue
            for kind in ("BC", "RBC"):
                try:
                    sps[kind] = api.function_space(grid, kind, 0, **o)
                except Exception as e:
                    if "not implemented for" in str(e) or "connected only by a vertex" in str(e):
                        out.setdefault("rejected", []).append("%s (%s) on %s: %s" % (kind, _opt_name(o), name, e))
                        continue
                    out["failures"].append({"signature": "C10:%s:raises:%s" % (kind.lower(), "whole" if not o else "segment"),
                                            "what": "%s (%s) on %s raises %s: %s" % (kind, _opt_name(o), name,
                                                                                     type(e).__name__, e),
                                            "data": {"grid": name, "options": o, "vertices": grid.vertices.tolist(),
                                                     "elements": grid.elements.tolist(),
                                                     "domain_indices": grid.domain_indices.tolist()}})
            for kind, sp in sps.items():
                T = sp.dof_transformation.toarray()
                sup = np.zeros(bg.number_of_elements, bool)
                sup[sp.support_elements] = True
                bad = None
                scale = 0.0
                jumps = []
                for edge in range(bg.number_of_edges):
                    nb = [int(x) for x in bg.edge_neighbors[edge]]
                    if len(nb) != 2 or not (sup[nb[0]] and sup[nb[1]]):
                        continue
                    comp = []
                    for be in nb:
                        le = [k for k in range(3) if int(bg.element_edges[k, be]) == edge][0]
                        pt = np.array([[EDGE_MID[le][0]], [EDGE_MID[le][1]]])
                        vals = sp.evaluate(be, pt)[:, :, 0]                       # (3, 3 shape functions)
                        F = vals @ T[sp.local2global[be].astype(int), :]          # (3, ndof)
                        a, b = (bg.vertices[:, bg.elements[i, be]] for i in EDGE_VERT[le])
                        t = (b - a) / np.linalg.norm(b - a)
                        nu = np.cross(t, bg.normals[be])                          # outward in-plane normal
                        comp.append((F, t, nu))
                        out["search_evals"] += F.shape[1]
                    (F1, t1, nu1), (F2, t2, nu2) = comp
                    if kind == "BC":
                        j = nu1 @ F1 + nu2 @ F2
                    else:
                        j = t1 @ F1 - t1 @ F2
                    scale = max(scale, np.abs(F1).max(), np.abs(F2).max())
                    jumps.append((float(np.abs(j).max()), edge, int(np.argmax(np.abs(j)))))
                if jumps:
                    jm = max(jumps)
                    rel = jm[0] / max(scale, 1e-300)
                    worst[kind] = max(worst[kind], rel)
                    if rel > 1e-10:
                        out["failures"].append({
                            "signature": "C10:%s:%s_continuity:%s" % (
                                kind.lower(), "normal" if kind == "BC" else "tangential",
                                "whole" if "segments" not in o else (
                                    "segment" if o.get("truncate_at_segment_edge", True) is False else "segment,truncate")),
                            "what": "%s (%s) on %s: basis function %d jumps by %.3g (relative) across barycentric edge %d" % (
                                kind, _opt_name(o), name, jm[2], rel, jm[1]),
                            "data": {"grid": name, "options": o, "vertices": grid.vertices.tolist(),
                                     "elements": grid.elements.tolist(), "domain_indices": grid.domain_indices.tolist()}})
            if "BC" in sps and "RBC" in sps:
                bc, rbc = sps["BC"], sps["RBC"]
                if bc.global_dof_count == rbc.global_dof_count and np.array_equal(bc.support_elements, rbc.support_elements):
                    c = rng.uniform(-1, 1, bc.global_dof_count)
                    g1, g2 = api.GridFunction(bc, coefficients=c), api.GridFunction(rbc, coefficients=c)
                    pt = np.array([[0.3], [0.25]])
                    err, sc = 0.0, 0.0
                    for be in bc.support_elements:
                        be = int(be)
                        n = bg.normals[be] * bc.normal_multipliers[be]
                        v1, v2 = g1.evaluate(be, pt)[:, 0], g2.evaluate(be, pt)[:, 0]
                        err = max(err, float(np.abs(np.cross(n, v1) - v2).max()))
                        sc = max(sc, float(np.abs(v1).max()))
                        out["search_evals"] += 1
                    worst["RBC=nxBC"] = max(worst["RBC=nxBC"], err / max(sc, 1e-300))
                    if err > 1e-10 * max(sc, 1e-300):
                        out["failures"].append({"signature": "C10:rbc:not_n_cross_bc",
                                                "what": "RBC function differs from n x BC on %s (%s) by %.3g" % (name, _opt_name(o), err),
                                                "data": {"grid": name, "options": o}})
    out["worst"]["bc_conformity"] = worst


def _edge_keys(grid, rwg):
    keys = []
    for d in range(rwg.global_dof_count):
        g2l = rwg.global2local[d]
        ce = int(grid.element_edges[g2l[0][1], g2l[0][0]])
        keys.append(frozenset(tuple(np.round(grid.vertices[:, int(v)], 8)) for v in grid.edges[:, ce]))
    return keys


def mass_border(out, rng, thorough):
    """Open grids with border-border interior edges of unequal cell counts: RWG x RBC and SNC x BC mass matrices
    (a) against the order-8 quadrature of the product of the bases, (b) invariant (up to the signs of the basis functions)
    under renumbering of vertices and elements."""
    import c10_grids
    worst = {}
    for name, V, E, dom in c10_grids.border_catalogue(rng, thorough):
        V2, E2, dom2, _ = c10_grids.renumber(np.asarray(V, float), np.asarray(E), np.asarray(dom), rng)
        g1 = api.Grid(np.asarray(V, float), np.asarray(E, dtype=np.uint32), np.asarray(dom, dtype=np.uint32))
        g2 = api.Grid(V2, E2, np.asarray(dom2, dtype=np.uint32))
        mats = []
        for g in (g1, g2):
            sp = {k: api.function_space(g, k, 0) for k in ("RWG", "SNC", "BC", "RBC")}
            keys = _edge_keys(g, sp["RWG"])
            M = {}
            for dk, tk in (("RWG", "RBC"), ("SNC", "BC")):
                A = api.operators.boundary.sparse.identity(sp[dk], sp[tk], sp[tk]).weak_form().to_sparse().toarray()
                R, S = reference_mass(sp[tk], sp[dk], g, g.barycentric_refinement)
                err = float(np.abs(A - R).max() / max(S.max(), 1e-300))
                worst["%s x %s vs quadrature" % (dk, tk)] = max(worst.get("%s x %s vs quadrature" % (dk, tk), 0.0), err)
                out["search_evals"] += int(A.size)
                if err > 1e-10:
                    out["failures"].append({"signature": "C10:mixed_mass:%s x %s" % (dk.lower(), tk.lower()),
                                            "what": "identity(%s, ., %s) on %s differs from order-8 quadrature by %.3g" % (dk, tk, name, err),
                                            "data": {"grid": name, "vertices": g.vertices.tolist(), "elements": g.elements.tolist()}})
                M[(dk, tk)] = A
            mats.append((keys, M))
        (k1, M1), (k2, M2) = mats
        if sorted(map(sorted, k1)) != sorted(map(sorted, k2)):
            continue                                    # reported by the renumbering search of the bcborder part
        perm = [k2.index(k) for k in k1]
        for pair in M1:
            A, B = np.abs(M1[pair]), np.abs(M2[pair][np.ix_(perm, perm)])
            err = float(np.abs(A - B).max() / max(A.max(), 1e-300))
            worst["%s x %s renumbering" % pair] = max(worst.get("%s x %s renumbering" % pair, 0.0), err)
            out["search_evals"] += int(A.size)
            if err > 1e-9:
                i, j = np.unravel_index(int(np.argmax(np.abs(A - B))), A.shape)
                out["failures"].append({
                    "signature": "C10:mixed_mass:%s x %s:renumbering" % (pair[0].lower(), pair[1].lower()),
                    "what": "identity(%s, ., %s) on %s: |entry| of the functions of the same two edges changes from %.10g to %.10g "
                            "when vertices/elements of the same mesh are renumbered (relative %.3g)" % (
                                pair[0], pair[1], name, A[i, j], B[i, j], err),
                    "data": {"grid": name, "vertices": np.asarray(V).tolist(), "elements": np.asarray(E).tolist(),
                             "renumbered_vertices": V2.tolist(), "renumbered_elements": E2.tolist()}})
    out["worst"]["mass_border"] = worst
