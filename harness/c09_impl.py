"""C09 implementation side.
stdin JSON: {"strength": "quick"|"thorough", "parts": ["corr", "search"], "replay": {...}?}
corr:   builds function spaces with the real API on every non-empty sub-complex of the octahedron and of a 2x2
        screen (as support_elements) x kinds x option combinations, on segment selections of multi-domain grids,
        swapped normals, non-manifold fans and random soups, and dumps the grid tables the builders read together with
        local2global, local_multipliers, support, normal_multipliers, global_dof_count, global2local, color_map,
        sorted indices / indexptr.  The model is evaluated on the same tables inside Coq (props/C09.py).
search: failing-input search on the implementation (jump of GridFunction.evaluate across interior edges,
        partition of unity, dof count against the documented selection rule, reference shapesets).
Output: one line '@@JSON {...}'."""
import itertools
import json
import os
import sys

import numpy as np

import bempp_cl.api
from bempp_cl.api.space import maxwell_spaces
from bempp_cl.api.utils.helpers import serialise_list_of_lists

import c09_grids as G

OPTS4 = [(False, True), (False, False), (True, True), (True, False)]   # (include_boundary_dofs, truncate_at_segment_edge)


def dump_space(grid, kind, sp, se, segs, swapped, incl, trunc):
    mult = sp.local_multipliers
    mi = np.rint(mult).astype(int)
    if not np.array_equal(mi.astype(mult.dtype), mult):
        raise AssertionError("non-integer multiplier")
    cnt = None
    if kind in ("RWG", "SNC"):
        support, _ = bempp_cl.api.space.space._process_segments(
            grid, None if se is None else np.array(se, dtype="uint32"), segs, swapped)
        en, ep = serialise_list_of_lists(grid.edge_neighbors)
        cnt = int(maxwell_spaces._compute_rwg0_space_data(
            support.copy(), en, ep, grid.element_edges, grid.number_of_elements, grid.number_of_edges,
            bool(incl), bool(trunc))[0])
    sidx, iptr = sp.get_elements_by_color()
    return {
        "kind": kind, "se": se, "segs": segs, "swapped": swapped or [], "incl": bool(incl), "trunc": bool(trunc),
        "l2g": [[int(x) for x in r] for r in sp.local2global],
        "mult": [[int(x) for x in r] for r in mi],
        "supp": [bool(x) for x in sp.support],
        "nm": [int(x) for x in sp.normal_multipliers],
        "ndofs": int(sp.global_dof_count), "count": cnt,
        "g2l": [[[int(a), int(b)] for a, b in row] for row in sp.global2local],
        "colour": [int(x) for x in sp.color_map],
        "sorted": [int(x) for x in sidx], "indexptr": [int(x) for x in iptr],
    }


def option_list(kind):
    return OPTS4 if kind in ("P1", "RWG", "SNC") else [(None, None)]


def corr_cases(strength, rng):
    thorough = strength == "thorough"
    groups = []

    def add_group(name, grid, selections, kinds, swapped_list=(None,)):
        cases = []
        for kind in kinds:
            for incl, trunc in option_list(kind):
                for se, segs in selections:
                    for sw in swapped_list:
                        sp = G.make_space(grid, kind, se=se, segs=segs, swapped=sw, incl=incl, trunc=trunc)
                        cases.append(dump_space(grid, kind, sp, se, segs, sw, incl, trunc))
        groups.append({"name": name, "tables": G.tables(grid), "cases": cases})

    def subsets(n):
        return [([i for i in range(n) if (m >> i) & 1], None) for m in range(1, 2 ** n)]

    allk = ["DP0", "DP1", "P1", "RWG", "SNC"]
    octa = G.octahedron([0, 0, 1, 1, 2, 2, 5, 5])
    scr = G.screen(2, 2, [7, 7, 7, 9, 9, 5, 5, 5])
    # exhaustive sweep: every non-empty sub-complex as support_elements.  SNC shares _compute_rwg0_space_data with
    # RWG, so the quick tier sweeps it on a seeded third of the subsets only.
    # Quick tier (5-minute budget): a seeded third of the octahedron's and a quarter of the screen's sub-complexes; the
    # thorough tier sweeps all 255 + 255.
    for name, grid in (("octahedron", octa), ("screen2x2", scr)):
        subs = subsets(grid.number_of_elements)
        part = lambda frac: subs if thorough else [subs[i] for i in sorted(rng.choice(len(subs), int(len(subs) * frac), replace=False))]
        add_group(name + "/all-subcomplexes", grid, part(1.0 / 3) if name == "octahedron" else part(1.0 / 4), ["P1", "RWG"])
        add_group(name + "/subcomplexes-dp-snc", grid, part(1.0 / 8), ["DP0", "DP1", "SNC"])
    # segments of multi-domain grids (including non-contiguous indices and an absent index), whole grid, swapped normals
    for name, grid, doms in (("octahedron", octa, [0, 1, 2, 5]), ("screen2x2", scr, [5, 7, 9]),
                             ("two-components", G.two_components(), [0, 3]), ("cube12", G.cube12([1, 1, 2, 2, 3, 3, 4, 4, 6, 6, 8, 8]), [1, 2, 3, 4, 6, 8]),
                             ("torus3x3", G.torus(), [0, 1, 2])):
        sels = [(None, None)]
        segsets = [list(c) for r in range(1, len(doms) + 1) for c in itertools.combinations(doms, r)]
        if len(segsets) > 4 and not thorough:
            segsets = [segsets[i] for i in sorted(rng.choice(len(segsets), 4, replace=False))]
        sels += [(None, s) for s in segsets] + [(None, [doms[0], 77])]
        add_group(name + "/segments", grid, sels, allk,
                  swapped_list=(None, [doms[0]], doms[-2:]) if thorough else (None, doms[-2:]))
    # non-manifold fan and random soups (tables with 3 elements on an edge, isolated pieces)
    fan = G.fan()
    add_group("fan/all-subcomplexes", fan, subsets(fan.number_of_elements), allk)
    add_group("fan/segments", fan, [(None, [0]), (None, [1, 2]), (None, [0, 1]), (None, [0, 2]), (None, [0, 1, 2])], allk)
    # junction edges with three triangles on multi-domain grids: every segment subset, seeded support subsets
    for name, grid in (("two-tets-glued", G.two_tets_glued()), ("t-junction", G.t_junction())):
        doms = sorted(set(int(x) for x in grid.domain_indices))
        segsets = [(None, list(c)) for r in range(1, len(doms) + 1) for c in itertools.combinations(doms, r)]
        subs = subsets(grid.number_of_elements)
        pick = subs if thorough else [subs[i] for i in sorted(rng.choice(len(subs), 16, replace=False))]
        add_group(name + "/segments-and-subcomplexes", grid, segsets + pick, ["P1", "RWG", "SNC"] if not thorough else allk)
    for k in range(6 if thorough else 2):
        soup = G.random_soup(rng)
        n = soup.number_of_elements
        subs = subsets(n)
        pick = [subs[i] for i in sorted(rng.choice(len(subs), min(len(subs), 40 if thorough else 12), replace=False))]
        add_group("soup%d" % k, soup, pick + [(None, None)], ["P1", "RWG", "DP1"])
    return groups


# ------------------------------------------------------------------------------------------------ search
def selected_vertices_spec(t, support, incl, trunc):
    """Documented rule (function_space docstring): a vertex carries a P1 dof iff it belongs to a support element and
    (include_boundary_dofs or (all its elements are in the support and it is not on the grid boundary))."""
    sel = set()
    for e, on in enumerate(support):
        if not on:
            continue
        for v in t["elems"][e]:
            interior = all(support[n] for n in t["vnbrs"][v]) and not t["vob"][v]
            if incl or interior:
                sel.add(v)
    return sel


def selected_edges_spec(t, support, incl):
    """An edge carries an RWG/SNC dof iff it has two neighbours in the support, or one and include_boundary_dofs."""
    sel = set()
    for edge, nb in enumerate(t["enbrs"]):
        k = sum(1 for e in nb if support[e])
        if k == 2 or (k == 1 and incl):
            sel.add(edge)
    return sel


def eval_gf(sp, coeffs, element, local):
    gf = bempp_cl.api.GridFunction(sp, coefficients=coeffs)
    return gf.evaluate(element, local)


def local_coords_of_vertex(k):
    return [(0.0, 0.0), (1.0, 0.0), (0.0, 1.0)][k]


def edge_local_points(t, e, edge, params):
    """Local coordinates on element e of the points a + s (b - a) of the grid edge (a, b), for s in params."""
    a, b = t["edges"][edge]
    ia, ib = t["elems"][e].index(a), t["elems"][e].index(b)
    pa, pb = np.array(local_coords_of_vertex(ia)), np.array(local_coords_of_vertex(ib))
    return np.array([pa + s * (pb - pa) for s in params]).T


PARAMS = [0.25, 0.5, 0.8125]


class Checker:
    """The property predicates of C09 evaluated on ONE space of the implementation: global2local inverse, dof count
    against the documented rule (manifold grids), one-sided traces across every edge shared by exactly two elements of
    the final support (P1 values, RWG normal, SNC tangential components)."""

    def __init__(self, rng):
        self.rng = rng
        self.failures, self.per_sig, self.evals = [], {}, 0
        self.worst = {"p1_jump": 0.0, "rwg_normal_jump": 0.0, "snc_tangential_jump": 0.0, "pou": 0.0}

    def fail(self, sig, what, data):
        # at most three examples per signature, so that a frequent (known) failure cannot crowd out a new one
        self.per_sig[sig] = self.per_sig.get(sig, 0) + 1
        if self.per_sig[sig] <= 3:
            self.failures.append({"signature": sig, "what": what, "data": data})

    def check(self, grid, t, gname, kind, se=None, segs=None, sw=None, incl=None, trunc=None, with_tables=False):
        n = grid.number_of_elements
        sp = G.make_space(grid, kind, se=se, segs=segs, swapped=sw, incl=incl, trunc=trunc)
        self.evals += 1
        desc = {"grid": gname, "kind": kind, "support_elements": se, "segments": segs, "include_boundary_dofs": incl,
                "truncate_at_segment_edge": trunc, "swapped_normals": sw}
        if with_tables:   # enough to rebuild the grid: a self-contained replay
            desc["grid_arrays"] = {"vertices": [[float(x) for x in grid.vertices[:, v]] for v in range(grid.number_of_vertices)],
                                   "elements": t["elems"], "domain_indices": t["dom"]}
        if se is not None:
            support0 = [i in se for i in range(n)]
        elif segs is not None:
            support0 = [t["dom"][i] in segs for i in range(n)]
        else:
            support0 = [True] * n
        manifold = all(len(nb) <= 2 for nb in t["enbrs"])
        # -- global2local must invert local2global exactly on the non-zero multipliers
        want = {}
        for e in range(n):
            for i in range(sp.local2global.shape[1]):
                if sp.local_multipliers[e, i] != 0:
                    want.setdefault(int(sp.local2global[e, i]), []).append((e, i))
        got = {d: [(int(a), int(b)) for a, b in row] for d, row in enumerate(sp.global2local) if len(row)}
        if got != want:
            self.fail("C09:global2local-not-inverse:%s" % kind,
                      "global2local is not the inverse of local2global on the non-zero multipliers",
                      dict(desc, global2local={str(k): v for k, v in list(got.items())[:6]},
                           expected={str(k): v for k, v in list(want.items())[:6]}))
        if kind in ("DP0", "DP1"):
            nsel = sum(support0) * (1 if kind == "DP0" else 3)
            if sp.global_dof_count != max(nsel, 1):
                self.fail("C09:dof-count:%s" % kind, "global_dof_count %d != %d" % (sp.global_dof_count, nsel), desc)
            return sp
        # -- dof count against the documented rule (on non-manifold grids the RWG builder's treatment of edges with three
        #    supported elements depends on the processing order; only the phantom dof is reported there)
        nsel = len(selected_vertices_spec(t, support0, incl, trunc)) if kind == "P1" else \
            len(selected_edges_spec(t, support0, incl))
        if sp.global_dof_count != nsel and (manifold or kind == "P1" or not np.any(sp.support)):
            if sp.global_dof_count == 1 and not np.any(sp.support):
                self.fail("C09:global_dof_count==1-on-empty-selection",
                          "function_space(%s) whose options select no vertex/edge reports global_dof_count == 1 "
                          "(phantom dof 0 carried by no element) instead of 0" % kind,
                          dict(desc, global_dof_count=int(sp.global_dof_count), selected_entities=0))
            else:
                self.fail("C09:dof-count:%s" % kind, "global_dof_count %d != %d entities selected by the options"
                          % (sp.global_dof_count, nsel), dict(desc, selected=nsel))
        if not np.any(sp.support):
            return sp
        # -- one-sided traces of a random function on every edge shared by exactly two elements of the final support
        coeffs = self.rng.integers(-4, 5, size=sp.global_dof_count).astype(float) + 0.5
        gf = bempp_cl.api.GridFunction(sp, coefficients=coeffs)
        supp = sp.support
        for edge, nb in enumerate(t["enbrs"]):
            sn = [e for e in nb if supp[e]]
            if len(sn) != 2:
                continue
            a, b = t["edges"][edge]
            # with truncation the function is cut at the edge of the ORIGINAL selection; continuity is only
            # claimed across edges interior to it (both neighbours selected)
            if not (support0[sn[0]] and support0[sn[1]]):
                if trunc or not incl:
                    continue
            # direction in which each element traverses the edge (a -> b: +1)
            dirs = [1 if (t["elems"][e].index(b) - t["elems"][e].index(a)) % 3 == 1 else -1 for e in sn]
            vals = [gf.evaluate(e, edge_local_points(t, e, edge, PARAMS)) for e in sn]
            self.evals += 1
            va, vb = grid.vertices[:, a], grid.vertices[:, b]
            tang = (vb - va) / np.linalg.norm(vb - va)
            where = dict(desc, edge=edge, edge_vertices=[a, b], elements=sn)
            if kind == "P1":
                j = float(np.max(np.abs(vals[0] - vals[1])))
                self.worst["p1_jump"] = max(self.worst["p1_jump"], j)
                if j > 1e-12:
                    self.fail("C09:p1-jump", "P1 function jumps by %.3e across an interior edge" % j, where)
            elif kind == "RWG":
                # component along the OUTWARD in-plane edge normal of each side (independent of the orientation of
                # the triangles): the two one-sided normal components must cancel
                js = []
                for e, v in zip(sn, vals):
                    conormal = np.cross(tang, grid.normals[e])
                    if np.dot(conormal, (va + vb) / 2 - grid.centroids[e]) < 0:
                        conormal = -conormal
                    js.append(conormal @ v)
                j = float(np.max(np.abs(js[0] + js[1])))
                self.worst["rwg_normal_jump"] = max(self.worst["rwg_normal_jump"], j)
                if j > 1e-11:
                    self.fail("C09:rwg-normal-jump", "RWG normal component jumps by %.3e across an interior edge "
                              "(one-sided outward components %s)" % (j, [round(float(x), 6) for x in js[0][:1]] +
                                                                      [round(float(x), 6) for x in js[1][:1]]), where)
            else:
                if dirs[0] == dirs[1]:
                    continue     # the two sheets are not consistently oriented: n x f is not claimed to be continuous
                js = [tang @ v for v in vals]
                j = float(np.max(np.abs(js[0] - js[1])))
                self.worst["snc_tangential_jump"] = max(self.worst["snc_tangential_jump"], j)
                if j > 1e-11:
                    nms = [int(sp.normal_multipliers[e]) for e in sn]
                    if nms[0] != nms[1]:
                        self.fail("C09:snc-tangential-jump:swapped-normals-interface",
                                  "SNC function jumps tangentially (%.3e) across an interior edge between an "
                                  "element with swapped normal and one without" % j, dict(where, normal_multipliers=nms))
                    else:
                        self.fail("C09:snc-tangential-jump",
                                  "SNC tangential component jumps by %.3e across an interior edge" % j, where)
        return sp


def _pt_key(p):
    return tuple(int(round(float(x) * 1e9)) for x in p)


def check_dual(ck, grid, t, gname, segs, incl, trunc):
    """DUAL0 / DUAL1 on the barycentric refinement, evaluated on the implementation through the dof_transformation
    (rows = local dofs of the barycentric space, columns = coarse dofs):
    DUAL0: one dof per dof-carrying vertex of the P1 space with the same options; basis function d is exactly the indicator
           of the barycentric cells of the support that touch ITS vertex; functions never overlap (row sums <= 1), sum to
           one on a whole closed grid, vanish on cells touching no dof-carrying vertex.
    DUAL1: one dof per support element e; non-zero nodal values only at points of the closed triangle e: 1 at its
           barycentre, 1/2 at its edge midpoints, in (0,1] at its vertices; nodal sums <= 1, = 1 on a whole closed grid.
    Both: local2global / global2local of the barycentric space behind them are coherent (arange over the support)."""
    n = grid.number_of_elements
    bary = grid.barycentric_refinement
    bv, be = bary.vertices, bary.elements
    closed_whole = segs is None and not any(t["vob"])
    desc = {"grid": gname, "kind": "DUAL", "segments": segs, "include_boundary_dofs": incl, "truncate_at_segment_edge": trunc,
            "grid_arrays": {"vertices": t["vertices"], "elements": t["elems"], "domain_indices": t["dom"]}}
    kw = {} if segs is None else {"segments": list(segs)}

    def coherent(sp, kind):
        k = sp.local2global.shape[1]
        sup = np.flatnonzero(sp.support)
        want_rows = np.arange(k * len(sup)).reshape(len(sup), k)
        if not np.array_equal(sp.local2global[sup], want_rows) or not np.all(sp.local_multipliers[sup] == 1):
            ck.fail("C09:%s-barycentric-dofmap" % kind, "local2global of the barycentric space is not arange over its support",
                    dict(desc, kind=kind))
        want = {}
        for c in sup:
            for i in range(k):
                want[int(sp.local2global[c, i])] = [(int(c), i)]
        got = {d: [(int(a), int(b)) for a, b in row] for d, row in enumerate(sp.global2local) if len(row)}
        if got != want:
            ck.fail("C09:global2local-not-inverse:%s" % kind,
                    "global2local of the barycentric space is not the inverse of its local2global", dict(desc, kind=kind))
        if sp.dof_transformation.shape[0] != k * len(sup):
            ck.fail("C09:%s-barycentric-dofmap" % kind, "dof_transformation has %d rows for %d barycentric local dofs"
                    % (sp.dof_transformation.shape[0], k * len(sup)), dict(desc, kind=kind))

    # ---------------- DUAL0
    p1 = bempp_cl.api.function_space(grid, "P", 1, include_boundary_dofs=incl, truncate_at_segment_edge=trunc, **kw)
    d0 = bempp_cl.api.function_space(grid, "DUAL", 0, include_boundary_dofs=incl, truncate_at_segment_edge=trunc, **kw)
    ck.evals += 1
    coherent(d0, "DUAL0")
    vertex_of, faces_of = {}, {}
    for e in p1.support_elements:
        for k in range(3):
            if p1.local_multipliers[e, k] != 0:
                d = int(p1.local2global[e, k])
                vertex_of[d] = int(grid.elements[k, e])
                faces_of.setdefault(d, []).append(int(e))
    if vertex_of:
        if d0.global_dof_count != p1.global_dof_count:
            ck.fail("C09:dual0-dof-count", "DUAL0 has %d dofs, the P1 space with the same options %d"
                    % (d0.global_dof_count, p1.global_dof_count), desc)
        else:
            T = d0.dof_transformation.tocsc()
            cell_of_row = {int(d0.local2global[c, 0]): int(c) for c in np.flatnonzero(d0.support)}
            bad = 0
            for d in range(d0.global_dof_count):
                key = _pt_key(grid.vertices[:, vertex_of[d]])
                expected = set()
                for f in faces_of[d]:
                    for j in range(6):
                        c = 6 * f + j
                        if d0.support[c] and any(_pt_key(bv[:, be[i, c]]) == key for i in range(3)):
                            expected.add(c)
                col = T.getcol(d).tocoo()
                got = {}
                for r, val in zip(col.row, col.data):
                    got[cell_of_row[int(r)]] = got.get(cell_of_row[int(r)], 0.0) + float(val)
                got = {c: v for c, v in got.items() if v != 0}
                ck.evals += 1
                if set(got) != expected or any(abs(v - 1.0) > 1e-14 for v in got.values()):
                    stray = sorted(set(got) - expected)[:4]
                    bad += 1
                    if bad <= 1:
                        ck.fail("C09:dual0-attachment",
                                "DUAL0 basis function %d is not the indicator of the barycentric cells around its vertex %d "
                                "(non-zero on %d cells that do not touch it, missing %d)" % (
                                    d, vertex_of[d], len(set(got) - expected), len(expected - set(got))),
                                dict(desc, dof=d, vertex=vertex_of[d], stray_barycentric_cells=stray))
            rows = np.asarray(abs(d0.dof_transformation).sum(axis=1)).ravel()
            if np.any(rows > 1 + 1e-13):
                ck.fail("C09:dual0-sum", "DUAL0 basis functions overlap (sum %.3f on a barycentric cell)" % rows.max(), desc)
            if closed_whole and np.any(np.abs(rows - 1) > 1e-13):
                ck.fail("C09:dual0-sum", "DUAL0 basis does not sum to one on a whole closed grid", desc)
    # ---------------- DUAL1
    d1 = bempp_cl.api.function_space(grid, "DUAL", 1, truncate_at_segment_edge=trunc, **kw)
    ck.evals += 1
    coherent(d1, "DUAL1")
    support0 = [True] * n if segs is None else [t["dom"][i] in segs for i in range(n)]
    sel = [e for e in range(n) if support0[e]]
    if d1.global_dof_count != len(sel):
        ck.fail("C09:dual1-dof-count", "DUAL1 has %d dofs for %d selected elements" % (d1.global_dof_count, len(sel)), desc)
        return
    T = d1.dof_transformation.tocsc()
    point_of_row = {}
    for c in np.flatnonzero(d1.support):
        for i in range(3):
            point_of_row[int(d1.local2global[c, i])] = bv[:, be[i, c]]
    bad = 0
    for d, e in enumerate(sel):
        P = [grid.vertices[:, v] for v in t["elems"][e]]
        allowed = {_pt_key((P[0] + P[1] + P[2]) / 3): ("barycentre", 1.0)}
        for a, b in ((0, 1), (1, 2), (2, 0)):
            allowed[_pt_key((P[a] + P[b]) / 2)] = ("midpoint", 0.5)
        for a in range(3):
            allowed[_pt_key(P[a])] = ("vertex", None)
        col = T.getcol(d).tocoo()
        ck.evals += 1
        for r, val in zip(col.row, col.data):
            if val == 0:
                continue
            kind_w = allowed.get(_pt_key(point_of_row[int(r)]))
            ok = kind_w is not None and (abs(val - kind_w[1]) < 1e-14 if kind_w[1] is not None else 0 < val <= 1 + 1e-14)
            if not ok:
                bad += 1
                if bad <= 1:
                    ck.fail("C09:dual1-attachment",
                            "DUAL1 basis function of element %d has nodal value %.4f at %s" % (
                                e, val, "a point outside its element" if kind_w is None else "its " + kind_w[0]),
                            dict(desc, dof=d, element=e))
    rows = np.asarray(d1.dof_transformation.sum(axis=1)).ravel()
    if np.any(rows > 1 + 1e-12):
        ck.fail("C09:dual1-sum", "DUAL1 nodal values sum to %.4f > 1 at a barycentric node" % rows.max(), desc)
    if closed_whole and np.any(np.abs(rows - 1) > 1e-12):
        ck.fail("C09:dual1-sum", "DUAL1 basis does not sum to one on a whole closed grid (min %.4f, max %.4f)"
                % (rows.min(), rows.max()), desc)


def search_dual(ck, thorough, rng):
    grids = [("octahedron", G.octahedron([0, 0, 1, 1, 2, 2, 5, 5])), ("screen3x3", G.screen(3, 3, [1] * 12 + [2] * 6)),
             ("cube12", G.cube12([1, 1, 2, 2, 3, 3, 4, 4, 6, 6, 8, 8]))]
    if thorough:
        grids += [("torus3x3", G.torus()), ("tetrahedron", G.tetrahedron([0, 0, 1, 1])), ("screen2x2", G.screen(2, 2, [7, 7, 7, 9, 9, 5, 5, 5]))]
    for gname, grid in grids:
        t = G.tables(grid)
        doms = sorted(set(t["dom"]))
        segsets = [None] + [list(c) for r in range(1, len(doms)) for c in itertools.combinations(doms, r)]
        if not thorough and len(segsets) > 4:
            segsets = segsets[:1] + [segsets[i] for i in sorted(rng.choice(range(1, len(segsets)), 3, replace=False))]
        for segs in segsets:
            for incl, trunc in OPTS4:
                check_dual(ck, grid, t, gname, segs, incl, trunc)


def nonmanifold_grids():
    return [("fan", G.fan()), ("two-tets-glued", G.two_tets_glued()), ("t-junction", G.t_junction())]


def search(strength, rng, replay=None):
    thorough = strength == "thorough"
    ck = Checker(rng)
    grids = [("octahedron", G.octahedron([0, 0, 1, 1, 2, 2, 5, 5])), ("screen2x2", G.screen(2, 2, [7, 7, 7, 9, 9, 5, 5, 5])),
             ("cube12", G.cube12([1, 1, 2, 2, 3, 3, 4, 4, 6, 6, 8, 8])), ("torus3x3", G.torus())]
    if thorough:
        grids += [("screen3x2", G.screen(3, 2)), ("two-components", G.two_components()), ("tetrahedron", G.tetrahedron())]
    for gname, grid in grids:
        t = G.tables(grid)
        n = grid.number_of_elements
        sels = [None]
        masks = list(range(1, 2 ** n)) if n <= 8 else []
        pick = masks if (thorough and n <= 8) else ([masks[i] for i in rng.choice(len(masks), 6, replace=False)] if masks else [])
        sels += [[i for i in range(n) if (m >> i) & 1] for m in pick]
        if n > 8:
            for _ in range(6 if thorough else 2):
                k = int(rng.integers(1, n))
                sels.append(sorted(int(x) for x in rng.choice(n, k, replace=False)))
        doms = sorted(set(t["dom"]))
        for se in sels:
            for kind, sw in (("P1", None), ("RWG", None), ("SNC", None), ("SNC", doms[:1]), ("RWG", doms[:1]), ("SNC", doms)):
                if sw is not None and len(doms) < 2:
                    continue
                for incl, trunc in OPTS4:
                    if sw is not None and (incl, trunc) not in ((False, True), (True, False)):
                        continue
                    ck.check(grid, t, gname, kind, se=se, sw=sw, incl=incl, trunc=trunc)
        # -- partition of unity on the whole grid (closed grid, or boundary dofs included)
        pts = np.array([[0.2, 0.6, 1.0 / 3], [0.3, 0.1, 1.0 / 3]])
        for kind, kw in (("DP0", {}), ("DP1", {}), ("P1", {"incl": True, "trunc": True})):
            sp = G.make_space(grid, kind, **kw)
            gf1 = bempp_cl.api.GridFunction(sp, coefficients=np.ones(sp.global_dof_count))
            for e in range(n):
                v = gf1.evaluate(e, pts)
                ck.evals += 1
                d = float(np.max(np.abs(v - 1.0)))
                ck.worst["pou"] = max(ck.worst["pou"], d)
                if d > 1e-13:
                    ck.fail("C09:partition-of-unity:%s" % kind, "basis of %s sums to 1%+.3e" % (kind, d),
                            {"grid": gname, "element": e})
    # -- non-manifold multi-domain grids (junction edges with three triangles): every segment subset and every support
    #    subset that is small enough; P1 / RWG / SNC, all flag combinations
    for gname, grid in nonmanifold_grids():
        t = G.tables(grid)
        n = grid.number_of_elements
        doms = sorted(set(t["dom"]))
        segsets = [list(c) for r in range(1, len(doms) + 1) for c in itertools.combinations(doms, r)]
        masks = list(range(1, 2 ** n))
        if n > 7 or not thorough:
            masks = [masks[i] for i in sorted(rng.choice(len(masks), min(len(masks), 40 if thorough else 10), replace=False))]
        sels = [(None, s_) for s_ in segsets] + [([i for i in range(n) if (m >> i) & 1], None) for m in masks]
        for se, segs in sels:
            for kind in ("P1", "RWG", "SNC"):
                for incl, trunc in (OPTS4 if thorough else [(False, True), (True, False)]):
                    ck.check(grid, t, gname, kind, se=se, segs=segs, incl=incl, trunc=trunc, with_tables=True)
    # -- DUAL0 / DUAL1 on closed grids, screens and segments x the four flag combinations
    search_dual(ck, thorough, rng)
    # -- function_space rejects support_elements together with segments
    try:
        bempp_cl.api.function_space(G.octahedron(), "P", 1, support_elements=np.array([0], dtype="uint32"), segments=[0])
        ck.fail("C09:both-selections-accepted", "support_elements and segments accepted together", {})
    except ValueError:
        pass
    ck.evals += 1
    return {"failures": ck.failures, "evals": ck.evals, "worst": ck.worst}


def check_cases(cases, rng):
    """Evaluate the property predicates on exactly the given cases (those on which model and implementation disagree,
    or a replay): each case carries the arrays of its grid."""
    ck = Checker(rng)
    for c in cases:
        ga = c["grid_arrays"]
        grid = G.mk(ga["vertices"], ga["elements"], ga["domain_indices"])
        t = G.tables(grid)
        kind = c["kind"]
        incl = c.get("incl", c.get("include_boundary_dofs"))
        trunc = c.get("trunc", c.get("truncate_at_segment_edge"))
        try:
            if kind == "DUAL":
                check_dual(ck, grid, t, c.get("grid", "case"), c.get("segs", c.get("segments")), incl, trunc)
                continue
            ck.check(grid, t, c.get("grid", "case"), kind, se=c.get("se", c.get("support_elements")),
                     segs=c.get("segs", c.get("segments")), sw=c.get("swapped", c.get("swapped_normals")) or None,
                     incl=incl, trunc=trunc, with_tables=True)
        except Exception as e:   # the implementation crashes on this input
            ck.fail("C09:exception:%s:%s" % (kind, type(e).__name__), "building/evaluating the space raised %r" % (e,),
                    {k: v for k, v in c.items()})
    return {"failures": ck.failures, "evals": ck.evals, "worst": ck.worst}


# ---------------------------------------------------------------------------- reference element facts
def reference_dump():
    """Shapeset values at dyadic points and mapped RWG/SNC values on a 3-4-5 triangle (all results exact doubles)."""
    from fractions import Fraction as F
    from bempp_cl.api.space import shapesets
    pts = np.array([[0.0, 1.0, 0.0, 0.25, 0.5, 0.125], [0.0, 0.0, 1.0, 0.5, 0.5, 0.0]])
    fr = lambda x: [F(float(x)).numerator, F(float(x)).denominator]
    out = {"pts": [[fr(pts[0, i]), fr(pts[1, i])] for i in range(pts.shape[1])]}
    p1 = shapesets._p1_disc_shapeset_evaluate(pts)
    out["p1"] = [[fr(p1[0, k, i]) for k in range(3)] for i in range(pts.shape[1])]
    rw = shapesets._rwg0_shapeset_evaluate(pts)
    out["rwg_ref"] = [[[fr(rw[0, k, i]), fr(rw[1, k, i])] for k in range(3)] for i in range(pts.shape[1])]
    p0 = shapesets._p0_shapeset_evaluate(pts)
    out["p0"] = [fr(p0[0, 0, i]) for i in range(pts.shape[1])]
    # mapped functions: vertices (0,0,0), (3,0,0), (0,4,0) and its mirror image sharing the hypotenuse-free edge
    grid = G.mk([[0, 0, 0], [3, 0, 0], [0, 4, 0], [3, 4, 0]], [[0, 1, 2], [1, 3, 2]])
    t = G.tables(grid)
    out["tables"] = t
    out["vertices"] = [[fr(x) for x in grid.vertices[:, v]] for v in range(4)]
    for kind in ("RWG", "SNC"):
        sp = G.make_space(grid, kind, incl=True, trunc=True)
        vals = []
        for e in range(2):
            v = sp.evaluate(e, pts)           # (3, 3, npoints), multipliers applied
            vals.append([[[fr(v[d, k, i]) for d in range(3)] for k in range(3)] for i in range(pts.shape[1])])
        out[kind] = {"values": vals, "mult": [[int(x) for x in r] for r in sp.local_multipliers],
                     "nm": [int(x) for x in sp.normal_multipliers]}
    return out


def main():
    cfg = json.load(sys.stdin)
    rng = np.random.default_rng(int(os.environ.get("VERIF_SEED", "0")))
    out = {}
    parts = cfg.get("parts", ["corr", "search"])
    if "corr" in parts:
        out["groups"] = corr_cases(cfg.get("strength", "quick"), rng)
        out["reference"] = reference_dump()
    if "search" in parts:
        out["search"] = search(cfg.get("search_strength", cfg.get("strength", "quick")), rng, cfg.get("replay"))
    if "cases" in parts:
        out["cases"] = check_cases(cfg.get("cases", []), rng)
    print("@@JSON " + json.dumps(out))


if __name__ == "__main__":
    main()
