"""Grid generators and table dumps shared by the C09 and C16 harnesses (pure numpy; no gmsh)."""
import numpy as np

import bempp_cl.api


def mk(vertices, elements, domain_indices=None):
    v = np.array(vertices, dtype="float64").T
    e = np.array(elements, dtype="uint32").T
    if domain_indices is None:
        return bempp_cl.api.Grid(v, e)
    return bempp_cl.api.Grid(v, e, np.array(domain_indices, dtype="uint32"))


def octahedron(domain_indices=None):
    v = [[1, 0, 0], [-1, 0, 0], [0, 1, 0], [0, -1, 0], [0, 0, 1], [0, 0, -1]]
    e = [[0, 2, 4], [2, 1, 4], [1, 3, 4], [3, 0, 4], [2, 0, 5], [1, 2, 5], [3, 1, 5], [0, 3, 5]]
    return mk(v, e, domain_indices)


def screen(nx=2, ny=2, domain_indices=None):
    """nx x ny unit squares, each split into two triangles (open surface)."""
    v = [[i, j, 0] for j in range(ny + 1) for i in range(nx + 1)]
    idx = lambda i, j: j * (nx + 1) + i
    e = []
    for j in range(ny):
        for i in range(nx):
            a, b, c, d = idx(i, j), idx(i + 1, j), idx(i + 1, j + 1), idx(i, j + 1)
            if (i + j) % 2 == 0:
                e += [[a, b, c], [a, c, d]]
            else:
                e += [[a, b, d], [b, c, d]]
    return mk(v, e, domain_indices)


def tetrahedron(domain_indices=None):
    v = [[0, 0, 0], [1, 0, 0], [0, 1, 0], [0, 0, 1]]
    e = [[0, 2, 1], [0, 1, 3], [1, 2, 3], [0, 3, 2]]
    return mk(v, e, domain_indices)


def cube12(domain_indices=None):
    v = [[0, 0, 0], [1, 0, 0], [0, 1, 0], [1, 1, 0], [0, 0, 1], [1, 0, 1], [0, 1, 1], [1, 1, 1]]
    e = [[0, 2, 1], [1, 2, 3], [4, 5, 6], [5, 7, 6], [0, 1, 4], [1, 5, 4],
         [2, 6, 3], [3, 6, 7], [0, 4, 2], [2, 4, 6], [1, 3, 5], [3, 7, 5]]
    return mk(v, e, domain_indices)


def two_components():
    v = [[0, 0, 0], [1, 0, 0], [0, 1, 0], [0, 0, 1]]
    e = [[0, 2, 1], [0, 1, 3], [1, 2, 3], [0, 3, 2]]
    v2 = [[x + 3, y, z] for x, y, z in v]
    e2 = [[a + 4, b + 4, c + 4] for a, b, c in e]
    return mk(v + v2, e + e2, [0, 0, 0, 0, 3, 3, 3, 3])


def fan():
    """Three triangles on one edge (non-manifold) plus one ordinary neighbour."""
    v = [[0, 0, 0], [1, 0, 0], [0, 1, 0], [0, -1, 0], [0, 0, 1], [1, 1, 0]]
    e = [[0, 1, 2], [1, 0, 3], [0, 1, 4], [1, 5, 2]]
    return mk(v, e, [0, 1, 2, 0])


def two_tets_glued():
    """Two tetrahedra glued along a common face (element 0, domain 0); upper faces domain 1, lower faces domain 2.
    The three edges of the common face touch three triangles each."""
    v = [[0, 0, 0], [1, 0, 0], [0, 1, 0], [0.3, 0.3, 1.0], [0.3, 0.3, -1.0]]
    e = [[0, 1, 2], [0, 1, 3], [1, 2, 3], [2, 0, 3], [1, 0, 4], [2, 1, 4], [0, 2, 4]]
    return mk(v, e, [0, 1, 1, 1, 2, 2, 2])


def t_junction():
    """A 2x1 screen (domains 1, 2) with a perpendicular fin (domain 3) standing on its middle edge; the fin's first
    triangle has the lowest element index."""
    v = [[0, 0, 0], [1, 0, 0], [2, 0, 0], [0, 1, 0], [1, 1, 0], [2, 1, 0], [1, 0, 1], [1, 1, 1]]
    e = [[1, 4, 7], [1, 7, 6], [0, 1, 4], [0, 4, 3], [1, 2, 5], [1, 5, 4]]
    return mk(v, e, [3, 3, 1, 1, 2, 2])


def torus(n=3, m=3):
    R, r = 2.0, 0.7
    v = []
    for i in range(n):
        for j in range(m):
            a, b = 2 * np.pi * i / n, 2 * np.pi * j / m
            v.append([(R + r * np.cos(b)) * np.cos(a), (R + r * np.cos(b)) * np.sin(a), r * np.sin(b)])
    idx = lambda i, j: (i % n) * m + (j % m)
    e = []
    for i in range(n):
        for j in range(m):
            e += [[idx(i, j), idx(i + 1, j), idx(i + 1, j + 1)], [idx(i, j), idx(i + 1, j + 1), idx(i, j + 1)]]
    return mk(v, e, [k % 3 for k in range(len(e))])


def random_soup(rng, nv=7, ne=8):
    """Random triangle soup on few vertices: shared vertices/edges, boundary, non-manifold edges all occur."""
    v = rng.integers(-3, 4, size=(nv, 3)).astype(float) + 0.1 * np.arange(nv)[:, None]
    es = set()
    tries = 0
    while len(es) < ne and tries < 200:
        tries += 1
        t = tuple(int(x) for x in rng.choice(nv, 3, replace=False))
        if tuple(sorted(t)) in {tuple(sorted(x)) for x in es}:
            continue
        es.add(t)
    es = sorted(es)
    used = sorted({a for t in es for a in t})
    remap = {a: i for i, a in enumerate(used)}
    return mk([list(v[a]) for a in used], [[remap[a] for a in t] for t in es],
              [int(x) for x in rng.integers(0, 3, size=len(es))])


def tables(grid):
    """The grid tables the DOF-map builders read, as plain lists."""
    vn, ptr = grid.vertex_neighbors
    return {
        "nvert": int(grid.number_of_vertices), "nedge": int(grid.number_of_edges),
        "vertices": [[float(x) for x in grid.vertices[:, v]] for v in range(grid.number_of_vertices)],
        "elems": [[int(x) for x in grid.elements[:, e]] for e in range(grid.number_of_elements)],
        "eedges": [[int(x) for x in grid.element_edges[:, e]] for e in range(grid.number_of_elements)],
        "enbrs": [[int(x) for x in l] for l in grid.edge_neighbors],
        "vnbrs": [[int(x) for x in vn[ptr[v]:ptr[v + 1]]] for v in range(grid.number_of_vertices)],
        "vob": [bool(x) for x in grid.vertex_on_boundary],
        "dom": [int(x) for x in grid.domain_indices],
        "edges": [[int(x) for x in grid.edges[:, k]] for k in range(grid.number_of_edges)],
        "eob": [bool(x) for x in grid.edge_on_boundary],
    }


KINDS = {"DP0": ("DP", 0), "DP1": ("DP", 1), "P1": ("P", 1), "RWG": ("RWG", 0), "SNC": ("SNC", 0)}


def make_space(grid, kind, se=None, segs=None, swapped=None, incl=None, trunc=None):
    k, deg = KINDS[kind]
    kw = {}
    if se is not None:
        kw["support_elements"] = np.array(se, dtype="uint32")
    if segs is not None:
        kw["segments"] = list(segs)
    if swapped:
        kw["swapped_normals"] = list(swapped)
    if kind in ("P1", "RWG", "SNC"):
        kw["include_boundary_dofs"] = bool(incl)
        kw["truncate_at_segment_edge"] = bool(trunc)
    return bempp_cl.api.function_space(grid, k, deg, **kw)
