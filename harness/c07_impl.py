"""C07 implementation side.

mode "corr":   (A) boundary operators between two different grids, (B) potential operators, both through the real
               pipelines of bempp-cl run on the Python bodies of the Numba assemblers with surrogate kernels;
               (C) grid.map_to_point_cloud.  Inputs/outputs dumped as exact rationals for the Coq models.
mode "search": API level, real kernels: boundary matrix between two disjoint grids vs the matrix obtained by
               evaluating the potential of every trial basis function at the test grid's quadrature points and
               integrating against the test functions.
"""
import json
import sys
import time

import numpy as np

import bcommon as bc

SHIFT = (2.5, 0.5, 0.75)


def two_grid_cases(strength):
    cases = [
        # (trial mesh, trial space, test mesh, test space, operator, k)
        ("strip2", ("DP", 0, {}), "tet", ("P", 1, {}), "slp", None),
        ("tet", ("P", 1, {"swapped_normals": [1]}), "strip3", ("DP", 1, {}), "dlp", 1.0 + 0.5j),
        ("strip3", ("RWG", 0, {"include_boundary_dofs": True}), "tet", ("SNC", 0, {}), "mfield", 1.25),
        ("tet", ("RWG", 0, {"segments": [1], "include_boundary_dofs": True}), "strip2",
         ("SNC", 0, {"include_boundary_dofs": True}), "efield", 0.75 + 0.25j),
    ]
    if strength == "thorough":
        cases += [
            ("fan4", ("P", 1, {"include_boundary_dofs": True}), "strip2", ("DP", 0, {}), "adlp", None),
            ("fan4", ("RWG", 0, {}), "strip3", ("SNC", 0, {"include_boundary_dofs": True}), "mfield", 0.5 + 0.5j),
            ("tet", ("P", 1, {"segments": [1, 2], "include_boundary_dofs": True}), "fan4",
             ("P", 1, {"include_boundary_dofs": True}), "hyp", 1.5),
        ]
    return cases


def potential_cases(strength):
    pts = [[2.0, 0.25, 0.5], [-1.5, 1.0, -0.75], [0.125, 0.25, 3.0]]
    cases = [
        ("tet", ("P", 1, {"swapped_normals": [2]}), "scalar", None, pts),
        ("strip3", ("DP", 0, {"segments": [1], "swapped_normals": [1]}), "scalar", 1.0 + 0.25j, pts),
        # supports that are NOT a prefix of the element list, non-uniform element areas, multipliers not all 1:
        # every `for element_index, element in enumerate(support_elements)` loop must index grid data by `element`
        ("tet", ("RWG", 0, {"segments": [1], "include_boundary_dofs": True}), "mfield", 1.25, pts[:2]),
        ("tet", ("RWG", 0, {"segments": [1], "include_boundary_dofs": True}), "efield", 0.75 + 0.5j, pts[:2]),
        ("octa", ("P", 1, {"support_elements": [1, 2, 3, 5, 6, 7]}), "scalar", None, pts[:2]),
    ]
    if strength == "thorough":
        cases += [
            ("fan4", ("DP", 1, {}), "scalar", None, pts),
            ("tet", ("P", 1, {"segments": [2], "include_boundary_dofs": True}), "scalar", 0.5, pts),
            ("tet", ("P-bary", 1, {}), "scalar", None, pts[:2]),
            ("strip3", ("RWG", 0, {"include_boundary_dofs": True}), "efield", 1.0, pts[:2]),
            ("tet", ("RWG", 0, {}), "mfield", 0.75, pts[:2]),
            ("fan4", ("RWG", 0, {}), "mfield", 0.5 + 0.5j, pts[:2]),
        ]
    return cases


def run_corr(cfg):
    import bempp_cl.api as api
    from bempp_cl.api.integration.triangle_gauss import rule
    api.GLOBAL_PARAMETERS.quadrature.regular = 2
    rng = np.random.default_rng(int(cfg.get("seed", 0)) + 707)
    strength = cfg.get("strength", "quick")
    B = api.operators.boundary
    two = []
    for (mA, sA, mB, sB, opname, k) in two_grid_cases(strength):
        gA = bc.make_grid(mA)
        gB = bc.make_grid(mB, shift=SHIFT)
        dom = bc.make_space(api, gA, sA)
        dual = bc.make_space(api, gB, sB)
        is_complex = k is not None
        maxwell = opname in ("efield", "mfield")
        surr = bc.random_surr(rng, is_complex, use_normals=not maxwell)
        with bc.PurePython(surr, is_complex):
            if opname == "slp":
                op = B.laplace.single_layer(dom, dual, dual, assembler="dense")
            elif opname == "dlp":
                op = B.helmholtz.double_layer(dom, dual, dual, k, assembler="dense")
            elif opname == "adlp":
                op = B.laplace.adjoint_double_layer(dom, dual, dual, assembler="dense")
            elif opname == "hyp":
                op = B.helmholtz.hypersingular(dom, dual, dual, k, assembler="dense")
            elif opname == "mfield":
                op = B.maxwell.magnetic_field(dom, dual, dual, k, assembler="dense")
            elif opname == "efield":
                op = B.maxwell.electric_field(dom, dual, dual, k, assembler="dense")
            mat = np.asarray(op.weak_form().to_dense())
        qp, qw = rule(api.GLOBAL_PARAMETERS.quadrature.regular)
        two.append({"name": "%s<-%s/%s" % (mB, mA, opname), "op": opname, "k": None if k is None else bc.frc(k),
                    "gt": bc.grid_dump(gB), "gs": bc.grid_dump(gA), "test": bc.space_dump(dual),
                    "trial": bc.space_dump(dom), "quad": bc.quad_dump(qp, qw), "surr": bc.surr_dump(surr),
                    "Et": [int(x) for x in dual.get_elements_by_color()[0]],
                    "Es": [int(x) for x in dom.get_elements_by_color()[0]],
                    "shape": [int(mat.shape[0]), int(mat.shape[1])], "impl": bc.mat_dump(mat),
                    "scale": bc.fr(float(np.max(np.abs(mat)))), "mesh": mA + "+" + mB})
    pots = [bc.potential_case(api, rng, m, spec, fam, k, pts) for (m, spec, fam, k, pts) in potential_cases(strength)]
    clouds = []
    for mname in ("strip3", "tet"):
        g = bc.make_grid(mname, shift=SHIFT)
        for order in (1, 2):
            pc = g.map_to_point_cloud(order)
            qp, qw = rule(order)
            clouds.append({"name": "%s/order%d" % (mname, order), "grid": bc.grid_dump(g),
                           "quad": bc.quad_dump(qp, qw), "n": int(g.number_of_elements),
                           "impl": [bc.frc(x) for x in np.asarray(pc).reshape(-1)],
                           "scale": bc.fr(float(np.max(np.abs(pc))))})
    return {"two": two, "pots": pots, "clouds": clouds}


def main():
    cfg = json.load(sys.stdin)
    t0 = time.time()
    if cfg.get("mode") == "corr":
        res = run_corr(cfg)
    else:
        import c07_search
        res = c07_search.run(cfg)
    res["wall"] = time.time() - t0
    bc.emit(res)


if __name__ == "__main__":
    main()
