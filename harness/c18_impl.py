"""C18 implementation side.  One script, three modes (stdin JSON):

  ["derived", how, i[, j]] assembles and discards -A | 3.0*A | A*3 | A-B | A+B | A*B of earlier operators;
  steps also: ["op", kind, space_index, params, "single"] (precision), ["blocked", [i, j]] (block-diagonal
  BlockedOperator of earlier operators), ["iface", i] (the (expansion_order, ncrit) the FMM backend of operator i was built with)
  {"mode": "replay", "histories": [[step, ...], ...]}
      replay every history, one after the other, in THIS process (the process accumulates state on purpose; every history
      starts by resetting the global parameters to their defaults, which is itself an API-level step); every observation
      step returns its numbers.
  {"mode": "fresh", "specs": [spec, ...], "emulate": true}
      compute every observation specification with brand-new grid / space / operator objects, the FMM caches cleared and the
      global parameters set to the specified values (one interpreter, state reset by hand between specifications);
  {"mode": "fresh", "specs": [spec], "emulate": false}
      the same in a truly fresh interpreter (one specification per process; used to validate the emulation).

A step is a list: ["reset"], ["space", kind], ["op", kind, space_index, params|None], ["set", pid, field, value],
["weak", i], ["strong", i], ["eval", i], ["clear"], ["mass", space_index].
pid 0 is GLOBAL_PARAMETERS; explicit parameter objects are numbered in creation order from 1.
A spec is {"kind", "space", "params": {field: value}, "what": "weak"|"strong"|"eval"|"mass"}.
The exafmm stand-in (harness/stubs) with fmm.dense_evaluation=True gives the FMM glue an exact evaluator.
"""
import json
import os
import sys
import traceback
import warnings

import numpy as np

warnings.filterwarnings("ignore")
sys.path.insert(0, os.path.join(os.path.dirname(os.path.abspath(__file__)), "stubs"))
from c14_common import emit, make_grid  # noqa: E402
import bempp_cl.api as api  # noqa: E402

FIELDS = {"QReg": ("quadrature", "regular"), "QSing": ("quadrature", "singular"), "FOrder": ("fmm", "expansion_order"),
          "FNcrit": ("fmm", "ncrit"), "FDepth": ("fmm", "depth")}
DEFAULTS = {"QReg": 4, "QSing": 4, "FOrder": 5, "FNcrit": 400, "FDepth": 4}
POINTS = np.array([[2.0, 0.1, 0.3], [0.1, 2.2, 0.05], [0.3, -2.0, 1.0]]).T


def set_field(obj, field, value):
    grp, leaf = FIELDS[field]
    setattr(getattr(obj, grp), leaf, value)


def get_field(obj, field):
    grp, leaf = FIELDS[field]
    return getattr(getattr(obj, grp), leaf)


def reset_globals():
    for f, v in DEFAULTS.items():
        set_field(api.GLOBAL_PARAMETERS, f, v)
    api.GLOBAL_PARAMETERS.fmm.dense_evaluation = True
    api.GLOBAL_PARAMETERS.fmm.near_field_representation = "evaluate"


def new_params(values):
    from bempp_cl.api.utils.parameters import DefaultParameters
    p = DefaultParameters()
    p.fmm.dense_evaluation = True
    for f, v in values.items():
        set_field(p, f, v)
    return p


def new_space(kind):
    # octahedron: opposite faces are disjoint, so the regular quadrature order is visible in dense operators
    # (on a tetrahedron every pair of elements is adjacent and only the singular rule is used)
    g = make_grid("octahedron")
    return api.function_space(g, "P", 1) if kind == "P1" else api.function_space(g, "DP", 0)


def make_op(kind, space, params, precision=None):
    L = api.operators.boundary.laplace
    kw = {"parameters": params}
    if precision is not None:
        kw["precision"] = precision
    if kind == "KDense":
        return L.single_layer(space, space, space, **kw)
    if kind == "KSingular":
        return L.single_layer(space, space, space, assembler="only_singular_part", **kw)
    if kind == "KSparse":
        return api.operators.boundary.sparse.identity(space, space, space, **kw)
    if kind == "KFmm":
        return L.single_layer(space, space, space, assembler="fmm", **kw)
    if kind == "KPotential":
        return api.operators.potential.laplace.single_layer(space, POINTS, **kw)
    if kind == "KFmmPotential":
        return api.operators.potential.laplace.single_layer(space, POINTS, assembler="fmm", **kw)
    raise ValueError(kind)


def find_interface(fn):
    """The ExafmmInterface captured by an FMM evaluator closure."""
    for cell in (getattr(fn, "__closure__", None) or ()):
        try:
            v = cell.cell_contents
        except ValueError:
            continue
        if hasattr(v, "_fmm") and hasattr(v, "number_of_source_points"):
            return v
    return None


def interface_of(op, kind):
    if kind == "KFmm":
        return find_interface(op.weak_form()._evaluator._evaluator)
    return find_interface(op._evaluator._implementation._evaluator)


def dense_of(discrete):
    n = discrete.shape[1]
    try:
        return np.asarray(discrete.to_dense())
    except Exception:
        return np.asarray(discrete @ np.eye(n))


def observe(what, op, space, kind=None):
    if what == "iface":
        it = interface_of(op, kind)
        # the (expansion_order, ncrit) the backend was constructed with (the stand-in records its arguments)
        return np.array([float(x) for x in it._fmm.args[:2]])
    if what == "weak":
        return dense_of(op.weak_form())
    if what == "strong":
        return dense_of(op.strong_form())
    if what == "eval":
        c = np.arange(1, space.global_dof_count + 1, dtype="float64") / 4.0
        return np.asarray(op.evaluate(api.GridFunction(space, coefficients=c)))
    if what == "mass":
        return dense_of(space.mass_matrix())
    raise ValueError(what)


def pack(a):
    a = np.asarray(a)
    if np.iscomplexobj(a):
        return {"shape": list(a.shape), "re": a.real.ravel().tolist(), "im": a.imag.ravel().tolist()}
    return {"shape": list(a.shape), "re": a.ravel().tolist()}


def replay(histories):
    results = []
    for hi, h in enumerate(histories):
        spaces, ops, pobjs = [], [], [api.GLOBAL_PARAMETERS]
        for si, st in enumerate(h):
            tag = st[0]
            rec = None
            try:
                if tag == "reset":
                    reset_globals()
                elif tag == "space":
                    spaces.append((new_space(st[1]), st[1]))
                elif tag == "derived":
                    # assemble a derived operator and throw it away: -A, 3*A, A*3, A-B, A+B, A*B
                    how, i = st[1], st[2]
                    a = ops[i]["op"]
                    b = ops[st[3]]["op"] if len(st) > 3 else a
                    d = {"neg": lambda: -a, "scal": lambda: 3.0 * a, "rscal": lambda: a * 3, "sub": lambda: a - b,
                         "sum": lambda: a + b, "prod": lambda: a * b}[how]()
                    dense_of(d.weak_form())
                elif tag == "blocked":
                    b = api.BlockedOperator(len(st[1]), len(st[1]))
                    for k, i in enumerate(st[1]):
                        b[k, k] = ops[i]["op"]
                    ops.append({"op": b, "kind": "Blocked", "space": ops[st[1][0]]["space"], "pid": 0})
                elif tag == "op":
                    kind, sidx, par = st[1], st[2], st[3]
                    prec = st[4] if len(st) > 4 else None
                    if par is None:
                        pid, pobj = 0, None
                    elif isinstance(par, int):
                        pid, pobj = par, pobjs[par]
                    else:
                        pobj = new_params(par)
                        pobjs.append(pobj)
                        pid = len(pobjs) - 1
                    ops.append({"op": make_op(kind, spaces[sidx][0], pobj, prec), "kind": kind, "space": sidx, "pid": pid})
                elif tag == "set":
                    set_field(pobjs[st[1]], st[2], st[3])
                elif tag == "clear":
                    api.clear_fmm_cache() if hasattr(api, "clear_fmm_cache") else \
                        __import__("bempp_cl.api.fmm.fmm_assembler", fromlist=["x"]).clear_fmm_cache()
                elif tag in ("weak", "strong", "eval", "iface"):
                    o = ops[st[1]]
                    rec = {"history": hi, "step": si, "what": tag, "index": st[1],
                           "value": pack(observe(tag, o["op"], spaces[o["space"]][0], o["kind"]))}
                    if tag in ("weak", "strong"):
                        w1 = o["op"].weak_form()
                        rec["same_object"] = bool(o["op"].weak_form() is w1)
                elif tag == "mass":
                    rec = {"history": hi, "step": si, "what": "mass", "index": st[1],
                           "value": pack(observe("mass", None, spaces[st[1]][0]))}
                else:
                    raise ValueError("unknown step %r" % (st,))
            except Exception as ex:
                rec = {"history": hi, "step": si, "what": tag, "index": st[1] if len(st) > 1 else None,
                       "exception": type(ex).__name__, "message": str(ex)[:160]}
            if rec is not None and tag in ("weak", "strong", "eval", "mass", "op", "iface", "blocked"):
                results.append(rec)
    return results


def fresh(specs):
    out = []
    fm = __import__("bempp_cl.api.fmm.fmm_assembler", fromlist=["x"])
    for sp in specs:
        try:
            fm.clear_fmm_cache()
            reset_globals()
            for f, v in sp["params"].items():
                set_field(api.GLOBAL_PARAMETERS, f, v)
            space = new_space(sp["space"])
            if sp["what"] == "mass":
                val = observe("mass", None, space)
            elif sp["what"] == "blocked":
                blocks = []
                for part in sp["parts"]:
                    fm.clear_fmm_cache()
                    reset_globals()
                    for f, v in part["params"].items():
                        set_field(api.GLOBAL_PARAMETERS, f, v)
                    spc = new_space(part["space"])
                    blocks.append(observe("weak", make_op(part["kind"], spc, None), spc))
                n = sum(b.shape[0] for b in blocks)
                val = np.zeros((n, n), dtype=np.result_type(*[b.dtype for b in blocks]))
                pos = 0
                for b in blocks:
                    val[pos:pos + b.shape[0], pos:pos + b.shape[1]] = b
                    pos += b.shape[0]
            elif sp["what"] == "iface":
                op = make_op(sp["kind"], space, None)
                if sp["kind"] == "KFmm":
                    op.weak_form()
                val = observe("iface", op, space, sp["kind"])
            elif sp["what"] == "strong":
                # W under the operator's values; M (mass matrix of a brand-new space) under the values that were global
                # when strong_form was called
                w = observe("weak", make_op(sp["kind"], space, None), space)
                fm.clear_fmm_cache()
                reset_globals()
                for f, v in sp["mass_params"].items():
                    set_field(api.GLOBAL_PARAMETERS, f, v)
                m = observe("mass", None, new_space(sp["space"]))
                val = np.linalg.solve(m, w)
            else:
                # the values are passed "exactly as the same values set globally would be": parameters=None
                op = make_op(sp["kind"], space, None)
                val = observe(sp["what"], op, space)
            out.append({"value": pack(val)})
        except Exception as ex:
            out.append({"exception": type(ex).__name__, "message": str(ex)[:160]})
    reset_globals()
    return out


def main():
    cfg = json.load(sys.stdin)
    out = {}
    try:
        reset_globals()
        if cfg["mode"] == "replay":
            out["observations"] = replay(cfg["histories"])
        else:
            out["results"] = fresh(cfg["specs"])
    except Exception:
        out["crash"] = traceback.format_exc()
    emit(out)


if __name__ == "__main__":
    main()
