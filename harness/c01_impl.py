"""C01 implementation side.  stdin JSON {"strength": "quick"|"thorough", "parts": [...]}; prints '@@JSON {...}'.

parts:
  arrays   _SingularQuadratureRuleInterfaceGalerkin(grid, order, test_support, trial_support).get_arrays():
           per-pair index/offset arrays (exact integers) together with the grid's adjacency tables
  rule     the three concatenated point/weight arrays for orders 1..4 as exact rationals
  search   Calderon identities on small closed meshes (affine u), residuals as the orders are raised
"""
import json
import os
import sys
import time
from fractions import Fraction as F

import numpy as np

import c11_meshes as M


def log(*a):
    print(*a, file=sys.stderr, flush=True)


def fr(x):
    f = F(float(x))
    return [f.numerator, f.denominator]


def run_arrays(rng, thorough, out):
    from bempp_cl.api import Grid
    from bempp_cl.core.singular_assembler import _SingularQuadratureRuleInterfaceGalerkin as Rule
    cases = []
    grids = [("octahedron", M.octahedron()), ("screen2x2", M.screen(2)), ("tetrahedron", M.tetrahedron()),
             ("cube12", M.cube12())]
    # a non-manifold fan and a relabelled octahedron
    v = np.array([[0, 1, 0, 0, 0.5], [0, 0, 1, 0, -1], [0, 0, 0, 1.0, 0.3]])
    grids.append(("fan", (v, np.array([[0, 1, 2], [0, 1, 3], [1, 0, 4]], dtype="uint32").T)))
    grids.append(("octahedron-relabelled", M.relabel(*M.octahedron(), rng)))
    n = 8 if thorough else 3
    for tag, (v, e) in grids:
        g = Grid(v, e)
        ea = [[int(x) for x in c] for c in g.edge_adjacency.T]
        va = [[int(x) for x in c] for c in g.vertex_adjacency.T]
        # high orders (large offsets) on the small grids only: the arrays have 42 n^4 columns
        high = [7, 9, 12, 16] if tag in ("tetrahedron", "fan") else []
        for k in range(n + len(high)):
            order = int(rng.integers(1, 7)) if k < n else high[k - n]
            nel = g.number_of_elements
            if k == 0 or k >= n:
                ts = np.ones(nel, dtype=bool)
                rs = np.ones(nel, dtype=bool)
            else:
                ts = rng.random(nel) < 0.6
                rs = rng.random(nel) < 0.6 if k % 2 else ts.copy()
            try:
                r = Rule(g, order, ts, rs)
                arr = r.get_arrays()
            except Exception as ex:   # an exception on a valid grid/order is a failing input of the implementation
                out["failures"].append({"signature": "singular_assembler.get_arrays:raises-on-valid-input",
                                        "what": "get_arrays() raised %s(%s) on %s, singular order %d" % (
                                            type(ex).__name__, str(ex)[:120], tag, order),
                                        "data": {"mesh": tag, "order": order, "vertices": v.tolist(), "elements": e.tolist()}})
                continue
            cases.append({"tag": tag, "order": order, "ts": [bool(b) for b in ts], "rs": [bool(b) for b in rs],
                          "ea": ea, "va": va,
                          "test_indices": [int(x) for x in arr[3]], "trial_indices": [int(x) for x in arr[4]],
                          "test_offsets": [int(x) for x in arr[5]], "trial_offsets": [int(x) for x in arr[6]],
                          "weights_offsets": [int(x) for x in arr[7]], "nquad": [int(x) for x in arr[8]],
                          "npoints": [int(arr[0].shape[1]), int(arr[1].shape[1]), int(len(arr[2]))],
                          "dtypes": [str(a.dtype) for a in arr[3:]]})
    out["arrays"] = cases


def run_topo(rng, thorough, out):
    """Reduced rerun of the C11 topology correspondence (the adjacency model is shared)."""
    import c11_impl
    v, e = M.octahedron()
    res = []
    subs = list(M.subcomplexes(e))
    if not thorough:
        subs = [subs[i] for i in sorted(rng.choice(len(subs), 60, replace=False))] + [subs[-1]]
    for sub in subs:
        g, kind, name = c11_impl.try_grid(v, e[:, sub].copy())
        res.append({"els": [[int(x) for x in col] for col in e[:, sub].T], "nv": 6, "kind": kind, "exc": name,
                    "tables": c11_impl.tables(g) if g is not None else None})
    for k in range(60 if thorough else 25):
        nv = int(rng.integers(4, 9))
        els = [list(rng.choice(nv, 3, replace=False)) for _ in range(int(rng.integers(1, 9)))]
        ee = np.array(els, dtype="uint32").T
        g, kind, name = c11_impl.try_grid(c11_impl.general_coords(nv, rng), ee)
        res.append({"els": [[int(x) for x in c] for c in els], "nv": nv, "kind": kind, "exc": name,
                    "tables": c11_impl.tables(g) if g is not None else None})
    out["topo"] = res
    # elements_adjacent (the regular kernels skip exactly these pairs) on all ordered pairs of some grids
    from bempp_cl.core.numba_kernels import elements_adjacent
    adj = []
    for c in res[-25:]:
        el = np.array(c["els"], dtype="uint32").T
        adj.append({"els": c["els"], "adj": [bool(elements_adjacent.py_func(el, i, j))
                                             for i in range(el.shape[1]) for j in range(el.shape[1])]})
    out["adjacent"] = adj
    # Space.get_elements_by_color() against the colour map, on whole grids and on segments (supports)
    import bempp_cl.api as api
    cols = []
    for tag, (v, e) in (("octahedron", M.octahedron()), ("screen", M.screen(3)), ("cube12", M.cube12())):
        dom = rng.integers(0, 3, size=e.shape[1]).astype("uint32")
        dom[0] = 0
        g = api.Grid(v, e, dom)
        for kind, deg in (("DP", 0), ("P", 1)):
            for segs in (None, [0], [1, 2]):
                if segs is not None and not any(d in segs for d in dom):
                    continue
                sp = api.function_space(g, kind, deg, segments=segs) if segs else api.function_space(g, kind, deg)
                si, ip = sp.get_elements_by_color()
                cols.append({"cm": [int(c) for c in sp.color_map], "sorted": [int(x) for x in si], "indexptr": [int(x) for x in ip],
                             "support": [bool(b) for b in sp.support]})
    out["colors"] = cols


def run_rule(rng, thorough, out):
    from bempp_cl.api import Grid
    from bempp_cl.core.singular_assembler import _SingularQuadratureRuleInterfaceGalerkin as Rule
    g = Grid(*M.tetrahedron())
    ones = np.ones(4, dtype=bool)
    res = {}
    from bempp_cl.api.integration import duffy_galerkin
    full = (1, 2, 3, 4) if thorough else (1, 2, 3)
    structural = (4,)
    for order in sorted(set(full) | set(structural)):
        try:
            arr = Rule(g, order, ones, ones).get_arrays()
        except Exception as ex:
            out["failures"].append({"signature": "singular_assembler.get_arrays:raises-on-valid-input",
                                    "what": "get_arrays() raised %s(%s) on the tetrahedron, singular order %d" % (
                                        type(ex).__name__, str(ex)[:120], order),
                                    "data": {"mesh": "tetrahedron", "order": order}})
            continue
        tp, rp, w = arr[0], arr[1], arr[2]
        rec = {"tp": [[fr(tp[0, i]), fr(tp[1, i])] for i in range(tp.shape[1])],
               "rp": [[fr(rp[0, i]), fr(rp[1, i])] for i in range(rp.shape[1])],
               "w": [fr(x) for x in w]}
        if order in full:
            res[str(order)] = rec
        if order in structural:
            rec = dict(rec)
            for key, adj in (("rc", "coincident"), ("re", "edge_adjacent"), ("rv", "vertex_adjacent")):
                t, r, ww = duffy_galerkin.rule(order, adj)
                rec[key] = [[fr(t[0, i]), fr(t[1, i]), fr(r[0, i]), fr(r[1, i]), fr(ww[i])] for i in range(len(ww))]
            out.setdefault("rule2", {})[str(order)] = rec
    out["rule"] = res


# ------------------------------------------------------------------------------------------------------------
def operator_vectors(v, e, a, b, orders, which):
    """The vectors entering the identities for u = a.x + b on the closed mesh (v, e), one per (regular, singular) order:
    which = "V": V psi;  "K": (1/2 M + K) g;  "W": W g;  "Kt": (1/2 M' - K') psi
    (g = vertex values of u in P1, psi = element values of a.n in DP0)."""
    import bempp_cl.api as api
    from bempp_cl.api.operators.boundary import laplace, sparse
    g = api.Grid(v, e)
    p1 = api.function_space(g, "P", 1)
    dp0 = api.function_space(g, "DP", 0)
    gv = a @ g.vertices + b
    psi = g.normals @ a
    res = []
    for reg, sing in orders:
        api.GLOBAL_PARAMETERS.quadrature.regular = reg
        api.GLOBAL_PARAMETERS.quadrature.singular = sing
        try:
            res.append(_one_vector(which, laplace, sparse, p1, dp0, gv, psi))
        except Exception as ex:
            res.append({"error": "%s(%s)" % (type(ex).__name__, str(ex)[:160])})
    return res


def _one_vector(which, laplace, sparse, p1, dp0, gv, psi):
    if True:
        if which == "V":
            vec = laplace.single_layer(dp0, dp0, dp0, assembler="dense").weak_form().to_dense() @ psi
        elif which == "K":
            K = laplace.double_layer(p1, dp0, dp0, assembler="dense").weak_form().to_dense()
            Mm = sparse.identity(p1, dp0, dp0).weak_form().to_sparse()
            vec = 0.5 * (Mm @ gv) + K @ gv
        elif which == "W":
            vec = laplace.hypersingular(p1, p1, p1, assembler="dense").weak_form().to_dense() @ gv
        else:
            Kt = laplace.adjoint_double_layer(dp0, p1, p1, assembler="dense").weak_form().to_dense()
            Mt = sparse.identity(dp0, p1, p1).weak_form().to_sparse()
            vec = 0.5 * (Mt @ psi) - Kt @ psi
        return [float(x) for x in vec]


def calderon_residuals(v, e, a, b, orders):
    """Both residuals for each order (single process; used by replays)."""
    vec = {w: operator_vectors(v, e, a, b, orders, w) for w in ("V", "K", "W", "Kt")}
    for w in vec:
        for x in vec[w]:
            if isinstance(x, dict):
                raise RuntimeError("assembly of %s raised %s" % (w, x["error"]))
    return [residual_pair(vec["V"][k], vec["K"][k], vec["W"][k], vec["Kt"][k]) for k in range(len(orders))]


def residual_pair(Vpsi, Kg, Wg, Ktpsi):
    n = lambda x: sum(t * t for t in x) ** 0.5
    return [n([p - q for p, q in zip(Kg, Vpsi)]) / n(Vpsi), n([p - q for p, q in zip(Wg, Ktpsi)]) / n(Ktpsi)]


TARGET = 1e-6


def judge(seq):
    """Verdict on one residual sequence (orders raised along the sequence).  Convergence, never one order:
    ok    the residual falls below 1e-6 (the last one is below) and never grows by more than a factor 2 from one
          step to the next while it is above 1e-6
    fail  it does not get below 1e-6 up to the highest order tried, or grows with the order"""
    for x, y in zip(seq, seq[1:]):
        if x >= TARGET and y > 2 * x:
            return "fail"
    return "ok" if seq[-1] < TARGET else "fail"


def search_meshes(rng, thorough):
    """The deterministic (seeded) list of search inputs: (tag, name, v, e, a, b, orders)."""
    orders = [(6, 6), (8, 8), (10, 10), (12, 12)]
    names = ["tetrahedron", "octahedron", "cube12", "dent_equator", "two_tetrahedra"]
    gens = dict(M.CLOSED)
    gens["two_tetrahedra"] = lambda: M.two_components(M.tetrahedron, M.tetrahedron, shift=(2.5, 0.3, -0.4))
    base_names = list(names)
    if thorough:
        # (a 48-element torus at singular order 14 alone costs > 10 min per operator: left out)
        names += ["dented", "lshape", "two_components", "sphere1"]
        gens["sphere1"] = lambda: M.sphere(1)
    out = []
    for name in names:
        for rep in range(2 if (thorough and name in base_names) else 1):
            v, e = gens[name]()
            tag = name
            if rep or name in ("octahedron", "dent_equator", "two_tetrahedra"):
                v = M.affine(v, rng)
                v, e = M.relabel(v, e, rng)
                tag = name + "+motion+relabel"
            a = rng.normal(size=3)
            a /= np.linalg.norm(a)
            # coarse non-convex meshes: besides slower singular convergence (adjacent elements face each other) they
            # have NON-adjacent elements that nearly touch (dented octahedron: apex at distance 0.35 from opposite faces
            # of diameter 1.4), where the REGULAR rule is the limit: measured per pair class at (14,14) the error of K is
            # 1.9e-7 on non-adjacent pairs against <= 1e-8 on all singular classes, and it vanishes with regular order 20.
            # So on these meshes the regular order is raised to the top of the triangle tables (20).
            o = orders + [(16, 12), (20, 14)] if name in M.HARD else orders
            out.append((tag, name, v, e, a, float(rng.normal()), o))
    return out


def run_search(rng, thorough, out, which):
    """One operator family per process (numba compiles every kernel family anew in each process)."""
    res = []
    for tag, name, v, e, a, b, orders in search_meshes(rng, thorough):
        t0 = time.time()
        try:
            vecs = operator_vectors(v, e, a, b, orders, which)
        except Exception as ex:   # Grid / function_space on a valid closed mesh
            vecs = [{"error": "%s(%s)" % (type(ex).__name__, str(ex)[:160])} for _ in orders]
        log("%s %s: %.1fs" % (which, tag, time.time() - t0))
        for o, x in zip(orders, vecs):
            if isinstance(x, dict):
                out["failures"].append({"signature": "laplace-operator-assembly:raises-on-valid-input",
                                        "what": "assembling the operator family %s raised %s on %s at orders %s" % (
                                            which, x["error"], tag, list(o)),
                                        "data": {"mesh": name, "vertices": v.tolist(), "elements": e.tolist(),
                                                 "a": a.tolist(), "b": b, "orders": [list(o)]}})
        res.append({"tag": tag, "mesh": name, "vertices": v.tolist(), "elements": e.tolist(), "a": a.tolist(), "b": b,
                    "orders": orders, "vectors": vecs})
    out["vectors"] = {"which": which, "cases": res}
    out["search_evals"] = sum(len(c["orders"]) for c in res)


def main():
    cfg = json.load(sys.stdin)
    thorough = cfg.get("strength") == "thorough"
    parts = cfg.get("parts") or ["arrays", "rule", "search"]
    rng = np.random.default_rng(int(os.environ.get("VERIF_SEED", "0")))
    out = {"failures": [], "search_evals": 0}
    if "arrays" in parts:
        run_arrays(rng, thorough, out)
    if "rule" in parts:
        run_rule(rng, thorough, out)
    if "search" in parts:
        run_search(rng, thorough, out, cfg["operator"])
    if "topo" in parts:
        run_topo(rng, thorough, out)
    if "replay_arrays" in parts:
        from bempp_cl.api import Grid
        from bempp_cl.core.singular_assembler import _SingularQuadratureRuleInterfaceGalerkin as Rule
        d = cfg["input"]
        v, e = (np.array(d["vertices"]), np.array(d["elements"], dtype="uint32")) if "vertices" in d else M.tetrahedron()
        try:
            g = Grid(v, e)
            ones = np.ones(g.number_of_elements, dtype=bool)
            Rule(g, int(d["order"]), ones, ones).get_arrays()
        except Exception as ex:
            out["failures"].append({"signature": "singular_assembler.get_arrays:raises-on-valid-input",
                                    "what": "replayed: get_arrays() raised %s(%s)" % (type(ex).__name__, str(ex)[:120]), "data": d})
        out["search_evals"] = 1
    if "replay" in parts:
        d = cfg["input"]
        try:
            r = calderon_residuals(np.array(d["vertices"]), np.array(d["elements"], dtype="uint32"), np.array(d["a"]), d["b"],
                                   [tuple(o) for o in d["orders"]])
        except Exception as ex:
            out["failures"].append({"signature": "laplace-operator-assembly:raises-on-valid-input",
                                    "what": "replayed: %s" % str(ex)[:300], "data": d})
            print("@@JSON " + json.dumps(out))
            return
        out["search_evals"] = len(d["orders"])
        out["worst"] = {"replay": r}
        for idx in (0, 1):
            seq = [x[idx] for x in r]
            if judge(seq) == "fail":
                out["failures"].append({"signature": "calderon:%s-identity-residual-does-not-fall-below-1e-6" % ("first" if idx == 0 else "second"),
                                        "what": "replayed: residuals %s" % seq, "data": d})
    print("@@JSON " + json.dumps(out))


if __name__ == "__main__":
    main()
