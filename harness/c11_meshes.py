"""Small mesh generators shared by the C11 and C01 harnesses (numpy only; no gmsh).
Every generator returns (vertices (3,n) float64, elements (3,m) uint32); closed meshes are outward oriented."""
import itertools

import numpy as np


def _arr(v, e):
    return np.array(v, dtype="float64").T.copy(), np.array(e, dtype="uint32").T.copy()


def orient_outward(v, e, centre=None):
    """Flip elements of a star-shaped closed mesh so that normals point away from `centre`."""
    v = np.asarray(v, dtype="float64")
    e = np.array(e, dtype="uint32")
    c = v.mean(axis=1) if centre is None else np.asarray(centre, dtype="float64")
    for k in range(e.shape[1]):
        a, b, d = (v[:, e[i, k]] for i in range(3))
        n = np.cross(b - a, d - a)
        if np.dot(n, (a + b + d) / 3 - c) < 0:
            e[1, k], e[2, k] = e[2, k], e[1, k]
    return v, e


def tetrahedron():
    v, e = _arr([(0, 0, 0), (1, 0, 0), (0, 1, 0), (0, 0, 1)], [(0, 2, 1), (0, 1, 3), (0, 3, 2), (1, 2, 3)])
    return orient_outward(v, e)


def octahedron():
    v = [(1, 0, 0), (-1, 0, 0), (0, 1, 0), (0, -1, 0), (0, 0, 1), (0, 0, -1)]
    e = [(0, 2, 4), (2, 1, 4), (1, 3, 4), (3, 0, 4), (2, 0, 5), (1, 2, 5), (3, 1, 5), (0, 3, 5)]
    return orient_outward(*_arr(v, e))


def cube12():
    v = [(x, y, z) for x in (0, 1) for y in (0, 1) for z in (0, 1)]
    idx = {p: i for i, p in enumerate(v)}
    e = []
    for axis in range(3):
        for side in (0, 1):
            o = [a for a in range(3) if a != axis]

            def P(s, t):
                p = [0, 0, 0]
                p[axis] = side
                p[o[0]] = s
                p[o[1]] = t
                return idx[tuple(p)]
            e += [(P(0, 0), P(1, 0), P(1, 1)), (P(0, 0), P(1, 1), P(0, 1))]
    return orient_outward(*_arr(v, e), centre=(0.5, 0.5, 0.5))


def screen(n=2, m=None):
    """n x m squares on [0,1]^2 in the plane z=0, each split into two triangles, normals +z."""
    m = n if m is None else m
    v = [(i / n, j / m, 0.0) for j in range(m + 1) for i in range(n + 1)]
    e = []
    for j in range(m):
        for i in range(n):
            a = j * (n + 1) + i
            b, c, d = a + 1, a + n + 2, a + n + 1
            e += [(a, b, c), (a, c, d)]
    return _arr(v, e)


def lshape_prism():
    """Non-convex closed surface: an L-shaped prism of height 1 made of three unit cubes; 28 well-shaped triangles."""
    poly = [(0, 0), (1, 0), (2, 0), (2, 1), (1, 1), (1, 2), (0, 2), (0, 1)]  # counter-clockwise L, unit steps
    n = len(poly)
    v = [(x, y, 0.0) for x, y in poly] + [(x, y, 1.0) for x, y in poly]
    e = []
    for i in range(n):  # side walls, outward for a ccw polygon
        j = (i + 1) % n
        e += [(i, j, n + j), (i, n + j, n + i)]
    # caps: squares [0,1]^2 = (0,1,4,7), [1,2]x[0,1] = (1,2,3,4), [0,1]x[1,2] = (7,4,5,6)
    caps = [(0, 1, 4), (0, 4, 7), (1, 2, 3), (1, 3, 4), (7, 4, 5), (7, 5, 6)]
    for a, b, c in caps:
        e.append((a, c, b))              # bottom: normal -z
        e.append((n + a, n + b, n + c))  # top: normal +z
    return _arr(v, e)


def dent_equator():
    """Non-convex, 8 elements: octahedron with the equatorial vertex (1,0,0) pulled inward to (-0.2,0,0)."""
    v, e = octahedron()
    v = v.copy()
    v[:, 0] = (-0.2, 0, 0)
    return v, e


def dented_octahedron():
    """Non-convex, 8 elements: octahedron with the top vertex pushed to z = -0.4 (still a closed, embedded surface)."""
    v, e = octahedron()
    v = v.copy()
    v[:, 4] = (0, 0, -0.4)
    return v, e


def two_components(gen1=tetrahedron, gen2=octahedron, shift=(3.0, 0.5, 0.25)):
    v1, e1 = gen1()
    v2, e2 = gen2()
    v2 = v2 + np.array(shift).reshape(3, 1)
    return np.hstack([v1, v2]), np.hstack([e1, e2 + v1.shape[1]]).astype("uint32")


def refine_arrays(v, e):
    """Uniform 1->4 refinement (independent of bempp), midpoints shared through a dict."""
    v = [tuple(c) for c in v.T]
    mid = {}

    def M(a, b):
        k = (min(a, b), max(a, b))
        if k not in mid:
            mid[k] = len(v)
            v.append(tuple((np.array(v[a]) + np.array(v[b])) / 2))
        return mid[k]
    out = []
    for a, b, c in e.T:
        a, b, c = int(a), int(b), int(c)
        ab, bc, ca = M(a, b), M(b, c), M(c, a)
        out += [(a, ab, ca), (ab, b, bc), (ca, bc, c), (ab, bc, ca)]
    return _arr(v, out)


def sphere(level=2):
    v, e = octahedron()
    for _ in range(level):
        v, e = refine_arrays(v, e)
    v = v / np.linalg.norm(v, axis=0)
    return v, e


def torus(nu=8, nv=6, R=2.0, r=0.7):
    v = []
    for i in range(nu):
        for j in range(nv):
            u, w = 2 * np.pi * i / nu, 2 * np.pi * j / nv
            v.append(((R + r * np.cos(w)) * np.cos(u), (R + r * np.cos(w)) * np.sin(u), r * np.sin(w)))
    e = []
    for i in range(nu):
        for j in range(nv):
            a = i * nv + j
            b = ((i + 1) % nu) * nv + j
            c = ((i + 1) % nu) * nv + (j + 1) % nv
            d = i * nv + (j + 1) % nv
            e += [(a, b, c), (a, c, d)]
    return _arr(v, e)


def affine(v, rng, scale_range=(0.3, 3.0)):
    """Random rotation + anisotropic-free scaling + translation (a similarity), returns new vertices."""
    q, _ = np.linalg.qr(rng.normal(size=(3, 3)))
    if np.linalg.det(q) < 0:
        q[:, 0] = -q[:, 0]
    s = rng.uniform(*scale_range)
    t = rng.uniform(-2, 2, size=(3, 1))
    return s * (q @ v) + t


def relabel(v, e, rng, dom=None):
    """Random renumbering of vertices and elements and a random cyclic shift inside every element."""
    pv = rng.permutation(v.shape[1])
    inv = np.empty_like(pv)
    inv[pv] = np.arange(len(pv))
    v2 = v[:, pv]
    e2 = inv[e.astype(np.int64)]
    pe = rng.permutation(e.shape[1])
    e2 = e2[:, pe]
    for k in range(e2.shape[1]):
        e2[:, k] = np.roll(e2[:, k], int(rng.integers(0, 3)))
    if dom is None:
        return v2, e2.astype("uint32")
    return v2, e2.astype("uint32"), np.asarray(dom)[pe]


def subcomplexes(e):
    """All non-empty subsets of the columns of e (as lists of column indices)."""
    m = e.shape[1]
    for r in range(1, m + 1):
        for comb in itertools.combinations(range(m), r):
            yield list(comb)


CLOSED = {"tetrahedron": tetrahedron, "octahedron": octahedron, "cube12": cube12, "lshape": lshape_prism,
          "dented": dented_octahedron, "dent_equator": dent_equator, "two_components": two_components}
# coarse non-convex meshes: adjacent elements face each other across reflex edges, singular quadrature converges slowly
HARD = {"lshape", "dented", "dent_equator", "torus6x4"}
