"""C12 implementation side: dump the rules the library actually returns (exact rationals) and run the
failing-input search on them.  Input JSON on stdin: {"strength": "quick"|"thorough"}; output '@@JSON {...}'."""
import json
import sys
import math
from fractions import Fraction as F

import numpy as np

from bempp_cl.api.integration import triangle_gauss, gauss, duffy_galerkin


def fr(x):
    f = F(float(x))
    return [f.numerator, f.denominator]


def main():
    cfg = json.load(sys.stdin)
    thorough = cfg.get("strength") == "thorough"
    out = {"tri": {}, "gauss": {}, "duffy": {}, "remap_edge": {}, "remap_vertex": {}, "counts": {}, "failures": [],
           "search_evals": 0}
    fails = out["failures"]
    # ---- lookups ---------------------------------------------------------------------------------
    for order in range(-2, 24):
        try:
            p, w = triangle_gauss.rule(order)
            out["tri"][str(order)] = [[fr(p[0, i]), fr(p[1, i]), fr(w[i])] for i in range(len(w))]
        except ValueError:
            out["tri"][str(order)] = "ValueError"
        except Exception as e:  # any other exception type is a different behaviour
            out["tri"][str(order)] = type(e).__name__
    for order in range(-2, 34):
        try:
            x, w = gauss.rule(order)
            out["gauss"][str(order)] = [[fr(x[i]), fr(w[i])] for i in range(len(w))]
        except ValueError:
            out["gauss"][str(order)] = "ValueError"
        except Exception as e:
            out["gauss"][str(order)] = type(e).__name__
    adjs = ["coincident", "edge_adjacent", "vertex_adjacent"]
    for order in (1, 2, 3):
        for a in adjs:
            t, r, w = duffy_galerkin.rule(order, a)
            out["duffy"]["%d,%s" % (order, a)] = [[fr(t[0, i]), fr(t[1, i]), fr(r[0, i]), fr(r[1, i]), fr(w[i])]
                                                  for i in range(len(w))]
    for order in range(1, 9 if thorough else 7):
        for a in adjs:
            t, r, w = duffy_galerkin.rule(order, a)
            out["counts"]["%d,%s" % (order, a)] = [int(t.shape[1]), int(r.shape[1]), int(len(w)),
                                                   int(duffy_galerkin.number_of_quadrature_points(order, a))]
    pts = np.array([[0.0, 1.0, 0.0, 0.25, 0.125], [0.0, 0.0, 1.0, 0.5, 0.375]])
    for v0 in range(3):
        for v1 in range(3):
            if v0 != v1:
                q = duffy_galerkin.remap_points_shared_edge(pts, v0, v1)
                out["remap_edge"]["%d,%d" % (v0, v1)] = [[fr(q[0, i]), fr(q[1, i])] for i in range(pts.shape[1])]
    for k in range(3):
        q = duffy_galerkin.remap_points_shared_vertex(pts, k)
        out["remap_vertex"][str(k)] = [[fr(q[0, i]), fr(q[1, i])] for i in range(pts.shape[1])]
    out["remap_points"] = [[fr(pts[0, i]), fr(pts[1, i])] for i in range(pts.shape[1])]

    # ---- search (exact-fraction recomputation on what rule() returns) ---------------------------------
    tol = F(1, 10 ** 14)
    worst_tri = F(0)
    for order in range(1, 21):
        try:
            p, w = triangle_gauss.rule(order)
        except Exception as e:
            fails.append({"signature": "triangle_gauss.rule(%d) raises" % order, "what": repr(e), "data": {"order": order}})
            continue
        X = [F(float(v)) for v in p[0]]; Y = [F(float(v)) for v in p[1]]; W = [F(float(v)) for v in w]
        for a in range(order + 1):
            for b in range(order + 1 - a):
                out["search_evals"] += 1
                s = sum(wi * xi ** a * yi ** b for wi, xi, yi in zip(W, X, Y))
                ex = F(math.factorial(a) * math.factorial(b), math.factorial(a + b + 2))
                worst_tri = max(worst_tri, abs(s - ex))
                if abs(s - ex) > tol:
                    fails.append({"signature": "triangle rule order %d not exact" % order,
                                  "what": "x^%d y^%d integrated with error %.3e" % (a, b, float(abs(s - ex))),
                                  "data": {"order": order, "a": a, "b": b, "error": float(abs(s - ex))}})
                    break
            else:
                continue
            break
    worst_g = F(0)
    for n in range(1, 31):
        try:
            x, w = gauss.rule(n)
        except Exception as e:
            fails.append({"signature": "gauss.rule(%d) raises" % n, "what": repr(e), "data": {"order": n}})
            continue
        if len(w) != n:
            fails.append({"signature": "gauss.rule(%d) has %d points" % (n, len(w)), "what": "wrong count", "data": {"order": n}})
        X = [F(float(v)) for v in x]; W = [F(float(v)) for v in w]
        for k in range(2 * n):
            out["search_evals"] += 1
            s = sum(wi * xi ** k for wi, xi in zip(W, X))
            worst_g = max(worst_g, abs(s - F(1, k + 1)))
            if abs(s - F(1, k + 1)) > tol:
                fails.append({"signature": "gauss rule n=%d not exact" % n,
                              "what": "x^%d integrated with error %.3e" % (k, float(abs(s - F(1, k + 1)))),
                              "data": {"order": n, "k": k}})
                break
    for order, mod, name in [(0, triangle_gauss, "triangle_gauss"), (-1, triangle_gauss, "triangle_gauss"),
                            (21, triangle_gauss, "triangle_gauss"), (22, triangle_gauss, "triangle_gauss"),
                            (0, gauss, "gauss"), (-1, gauss, "gauss"), (31, gauss, "gauss"), (32, gauss, "gauss")]:
        out["search_evals"] += 1
        try:
            mod.rule(order)
            fails.append({"signature": "%s.rule(%d) not rejected" % (name, order), "what": "out-of-range lookup accepted",
                          "data": {"order": order}})
        except ValueError:
            pass
        except Exception as e:
            fails.append({"signature": "%s.rule(%d) raises %s" % (name, order, type(e).__name__),
                          "what": "out-of-range lookup not rejected cleanly", "data": {"order": order}})
    # Duffy: counts and polynomial exactness (float sums, tolerance 1e-12)
    facs = {"coincident": 6, "edge_adjacent": 5, "vertex_adjacent": 2}
    for key, c in out["counts"].items():
        order, a = key.split(",")
        want = facs[a] * int(order) ** 4
        if c != [want] * 4:
            fails.append({"signature": "duffy %s count" % a, "what": "order %s: %s, advertised %d" % (order, c, want),
                          "data": {"order": int(order), "adjacency": a}})
    worst_d = 0.0
    for n in range(2, 7 if thorough else 6):
        for a in adjs:
            t, r, w = duffy_galerkin.rule(n, a)
            D = 2 * n - 4
            bad = None
            for e0 in range(D + 1):
                for e1 in range(D + 1 - e0):
                    for e2 in range(D + 1 - e0 - e1):
                        for e3 in range(D + 1 - e0 - e1 - e2):
                            out["search_evals"] += 1
                            s = float(np.sum(w * t[0] ** e0 * t[1] ** e1 * r[0] ** e2 * r[1] ** e3))
                            ex = (math.factorial(e0) * math.factorial(e1) / math.factorial(e0 + e1 + 2)
                                  * math.factorial(e2) * math.factorial(e3) / math.factorial(e2 + e3 + 2))
                            worst_d = max(worst_d, abs(s - ex))
                            if abs(s - ex) > 1e-12 and bad is None:
                                bad = (e0, e1, e2, e3, abs(s - ex))
            if bad:
                fails.append({"signature": "duffy %s rule not exact on polynomials" % a,
                              "what": "n=%d monomial %s error %.3e" % (n, bad[:4], bad[4]),
                              "data": {"order": n, "adjacency": a, "monomial": bad[:4]}})
    # 1/|x-y| : every remapping must converge to the same value, geometrically
    P = np.array([[0.0, 0.0, 0.0], [1.0, 0.0, 0.0], [0.2, 0.9, 0.1], [0.3, -0.7, 0.5], [-0.8, -0.3, 0.4], [-0.5, 0.6, -0.2]])

    def tri_map(verts, pts2):
        return verts[0][:, None] + np.outer(verts[1] - verts[0], pts2[0]) + np.outer(verts[2] - verts[0], pts2[1])

    def jac(verts):
        return np.linalg.norm(np.cross(verts[1] - verts[0], verts[2] - verts[0]))

    def value(n, kind, rm_test, rm_trial):
        if kind == "edge":
            t, r, w = duffy_galerkin.rule(n, "edge_adjacent")
            tp = duffy_galerkin.remap_points_shared_edge(t, *rm_test)
            rp = duffy_galerkin.remap_points_shared_edge(r, *rm_trial)
            tv = [None] * 3; tv[rm_test[0]] = P[0]; tv[rm_test[1]] = P[1]; tv[3 - sum(rm_test)] = P[2]
            rv = [None] * 3; rv[rm_trial[0]] = P[0]; rv[rm_trial[1]] = P[1]; rv[3 - sum(rm_trial)] = P[3]
        elif kind == "vertex":
            t, r, w = duffy_galerkin.rule(n, "vertex_adjacent")
            tp = duffy_galerkin.remap_points_shared_vertex(t, rm_test)
            rp = duffy_galerkin.remap_points_shared_vertex(r, rm_trial)
            oth = lambda k: [i for i in range(3) if i != k]
            tv = [None] * 3; tv[rm_test] = P[0]; tv[oth(rm_test)[0]] = P[1]; tv[oth(rm_test)[1]] = P[2]
            rv = [None] * 3; rv[rm_trial] = P[0]; rv[oth(rm_trial)[0]] = P[4]; rv[oth(rm_trial)[1]] = P[5]
        else:
            t, r, w = duffy_galerkin.rule(n, "coincident")
            tp, rp = t, r
            tv = rv = [P[0], P[1], P[2]]
        x = tri_map(tv, tp); y = tri_map(rv, rp)
        d = np.linalg.norm(x - y, axis=0)
        return float(np.sum(w / d)) * jac(tv) * jac(rv)

    nref = 9
    ns = [2, 3, 4, 5, 6]
    conv = {}
    cases = [("coincident", None, None)]
    cases += [("edge", a, b) for a in [(0, 1), (1, 0), (1, 2), (2, 1), (0, 2), (2, 0)]
              for b in [(0, 1), (1, 0), (1, 2), (2, 1), (0, 2), (2, 0)]]
    cases += [("vertex", a, b) for a in range(3) for b in range(3)]
    refs = {}
    for kind, a, b in cases:
        ref = value(nref, kind, a, b)
        refs.setdefault(kind, ref)
        errs = [abs(value(n, kind, a, b) - ref) / abs(ref) for n in ns]
        out["search_evals"] += len(ns) + 1
        conv["%s %s %s" % (kind, a, b)] = errs
        ok = errs[-1] < 1e-6 and all(errs[i + 1] <= 0.6 * errs[i] + 1e-13 for i in range(len(errs) - 1))
        same = abs(ref - refs[kind]) <= 1e-8 * abs(ref)
        if not ok or not same:
            fails.append({"signature": "1/r integral does not converge for %s remap" % kind,
                          "what": "remap test=%s trial=%s errors %s ref %.12g vs %.12g" % (a, b, ["%.2e" % e for e in errs], ref, refs[kind]),
                          "data": {"kind": kind, "test": a, "trial": b}})
    out["worst"] = {"triangle": float(worst_tri), "gauss": float(worst_g), "duffy_poly": worst_d,
                    "inv_r_sample": {k: conv[k] for k in list(conv)[:3]}}
    print("@@JSON " + json.dumps(out))


main()
