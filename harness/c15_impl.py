"""C15 implementation side: lu / gmres / cg wrappers on stub-assembled operators with exactly known, well-conditioned
matrices (real spaces and mass matrices), plus - thorough tier - real Laplace operators.

correspondence: the linear system the wrappers hand to SciPy (captured by replacing scipy's solve / gmres for one
call) and the IterationCounter bookkeeping, for the Coq model;  search: lu(A, A*f) = f, gmres / cg reach the tolerance
with info 0 in weak and strong form, result spaces, residual / count outputs = those of the same SciPy run,
precomputed LU factors.
"""
import json
import sys
import traceback
import warnings

import numpy as np

warnings.filterwarnings("ignore")
from c14_common import emit, fr, rng  # noqa: E402
import c14_impl as c14  # noqa: E402
import bempp_cl.api as api  # noqa: E402
import scipy.linalg  # noqa: E402
import scipy.sparse.linalg  # noqa: E402
from bempp_cl.api.assembly.boundary_operator import BoundaryOperatorWithAssembler  # noqa: E402
from bempp_cl.api.utils.helpers import get_inverse_mass_matrix, get_mass_matrix  # noqa: E402
from bempp_cl.api.linalg.iterative_solvers import IterationCounter  # noqa: E402

cq, mat_q, close = c14.cq, c14.mat_q, c14.close


class Captured(Exception):
    pass


class SWorld(c14.World):
    """Square, well-conditioned atoms on grid 1 (P1: 4 dofs, DP0: 4 dofs)."""

    def __init__(self, r, thorough):
        super().__init__(r, thorough)
        sp = self.spaces
        self.atoms = []
        triples = [(0, 0, 0), (0, 0, 1), (1, 1, 1), (1, 0, 0), (0, 1, 1), (0, 0, 0), (0, 0, 0), (1, 1, 1)]
        for k, (d, q, u) in enumerate(triples):
            n = sp[d].global_dof_count
            m = r.integers(-2, 3, size=(n, n)).astype("float64") + 8 * np.eye(n)
            if k in (5,):
                m = m + 1j * r.integers(-2, 3, size=(n, n))
            if k in (6, 7):      # symmetric positive definite (for cg)
                a = r.integers(-2, 3, size=(n, n)).astype("float64")
                m = a @ a.T + 6 * np.eye(n)
            op = BoundaryOperatorWithAssembler(sp[d], sp[q], sp[u], c14.StubAssembler(m), None)
            self.atoms.append((op, (d, q, u), m))
        self.nprog = len(self.atoms)
        for q in (0, 1):
            for u in (0, 1):
                key = (self.sid[q], self.sid[u])
                self.invmass[key] = np.asarray(get_inverse_mass_matrix(sp[q], sp[u]).to_dense())
                self.mass[key] = np.asarray(get_mass_matrix(sp[q], sp[u]).to_dense())
        self.spd = [6, 7]


def space_index(w, s):
    return [i for i, x in enumerate(w.spaces) if x is s or x == s][0]


def make_b(w, r, s, dual, rep, cplx):
    nd = w.spaces[s].global_dof_count
    c = r.integers(-4, 5, nd).astype(float) + (1j * r.integers(-3, 4, nd) if cplx else 0)
    if rep == "coef":
        return api.GridFunction(w.spaces[s], dual_space=w.spaces[dual], coefficients=c), c
    return api.GridFunction(w.spaces[s], dual_space=w.spaces[dual], projections=c), c


def capture_system(w, op, b, strong):
    """What gmres' wrapper hands to SciPy: replace scipy.sparse.linalg.gmres for one call."""
    box = {}
    orig = scipy.sparse.linalg.gmres

    def fake(A_op, b_vec, **kw):
        box["A"], box["b"], box["kw"] = A_op, b_vec, kw
        raise Captured()
    scipy.sparse.linalg.gmres = fake
    try:
        api.linalg.gmres(op, b, use_strong_form=strong)
    except Captured:
        return {"result": "ok", "A": np.asarray(box["A"].to_dense()), "rhs": np.asarray(box["b"]),
                "kw": sorted(box["kw"])}
    except Exception as ex:
        return {"result": type(ex).__name__, "message": str(ex)[:100]}
    finally:
        scipy.sparse.linalg.gmres = orig
    return {"result": "no-call"}


def capture_lu(w, op, b):
    box = {}
    orig = scipy.linalg.solve

    def fake(mat, vec, *a, **k):
        box["mat"], box["vec"] = np.asarray(mat), np.asarray(vec)
        return orig(mat, vec, *a, **k)
    scipy.linalg.solve = fake
    try:
        g = api.linalg.lu(op, b)
        return {"result": "ok", "mat": box["mat"], "vec": box["vec"], "space": w.sid[space_index(w, g.space)],
                "sol": np.asarray(g.coefficients)}
    except Exception as ex:
        return {"result": type(ex).__name__, "message": str(ex)[:100]}
    finally:
        scipy.linalg.solve = orig


def correspondence(w, out, n):
    r = w.r
    for _ in range(n):
        e = c14.gen_expr(r, w.nprog, 2)
        try:
            t, m = c14.ref(w, e)
        except c14.IllTyped:
            continue
        op = c14.build(w, e, w.atoms)
        # right-hand side: mostly in the range, sometimes in another space of the same grid
        s = t[1] if r.random() < 0.75 else int(r.choice([0, 1]))
        s_idx = [i for i in (0, 1) if w.sid[i] == s][0]
        dual = int(r.choice([0, 1]))
        rep = str(r.choice(["coef", "proj"]))
        b, c = make_b(w, r, s_idx, dual, rep, r.random() < 0.3)
        strong = bool(r.random() < 0.5)
        case = {"expr": e, "show": c14.show(e), "b": {"space": w.sid[s_idx], "dual": w.sid[dual], "rep": rep,
                                                     "vec": [cq(x) for x in c]}, "strong": strong}
        obs = capture_system(w, op, b, strong)
        case["result"] = obs["result"]
        if obs["result"] == "ok":
            case["A"], case["rhs"] = mat_q(obs["A"]), [cq(x) for x in obs["rhs"]]
            case["space"] = t[0]
            if obs["kw"] != ["callback", "maxiter", "restart", "rtol"]:
                out["failures"].append({"signature": "C15:gmres:unexpected-scipy-keywords", "what": str(obs["kw"]),
                                        "data": {}})
        out["sys_cases"].append(case)
        out["evaluations"] += 1
        lu = capture_lu(w, op, b)
        lc = {"expr": e, "show": c14.show(e), "b": case["b"], "result": lu["result"]}
        if lu["result"] == "ok":
            lc["vec"], lc["space"] = [cq(x) for x in lu["vec"]], lu["space"]
            lc["mat"] = mat_q(lu["mat"])
        out["lu_cases"].append(lc)
        out["evaluations"] += 1
    # IterationCounter
    for _ in range(12):
        n_ = 3
        op = r.integers(-3, 4, (n_, n_)).astype(float)
        rhs = r.integers(-3, 4, n_).astype(float)
        store, is_cg = bool(r.random() < .7), bool(r.random() < .5)
        xs = [r.integers(-3, 4, n_).astype(float) for _ in range(int(r.integers(0, 6)))]
        # the wrappers pass a discrete operator: `operator * x` is a matrix-vector product
        ic = IterationCounter(store, is_cg, c14.dbo.DenseDiscreteBoundaryOperator(op), rhs)
        for x in xs:
            ic(x)
        out["ic_cases"].append({"store": store, "is_cg": is_cg, "op": mat_q(op), "rhs": [cq(v) for v in rhs],
                                "xs": [[cq(v) for v in x] for x in xs], "count": int(ic.count),
                                "res2": [fr(float(v) ** 2) for v in ic.residuals]})
        out["evaluations"] += 1


# ---- search ---------------------------------------------------------------------------------------------------------
def rec(out, sig, what, data=None):
    out["failures"].append({"signature": sig, "what": what, "data": data or {}})


def solver_search(w, out, thorough):
    r = w.r
    sp = w.spaces
    pool = list(range(len(w.atoms)))
    tols = [1e-4, 1e-6, 1e-8, 1e-10, 1e-12]
    for k in pool:
        op, (d, q, u), m = w.atoms[k]
        n = m.shape[1]
        cplx = np.iscomplexobj(m)
        for trial in range(2):          # a real and a complex right-hand side for every operator
            c = r.integers(-4, 5, n).astype(float) + (1j * r.integers(-3, 4, n) if (cplx or trial == 1) else 0)
            f = api.GridFunction(sp[d], coefficients=c)
            b = op * f
            # --- lu
            out["evaluations"] += 1
            try:
                g = api.linalg.lu(op, b)
                if not (g.space == op.domain):
                    rec(out, "C15:lu:result-not-in-domain-space", "lu returns a function outside the domain of A")
                if not close(g.coefficients, c):
                    rec(out, "C15:lu:lu(A,A*f)-differs-from-f", "lu(A, A*f) != f", {"atom": k})
                fac = api.compute_lu_factors(op)
                g2 = api.linalg.lu(op, b, lu_factor=fac)
                if not close(g2.coefficients, g.coefficients):
                    rec(out, "C15:lu:precomputed-factors-differ", "lu with precomputed factors differs from direct solve")
            except Exception as ex:
                rec(out, "C15:lu:raises-%s" % type(ex).__name__, str(ex)[:120], {"atom": k})
            # --- gmres / cg
            for strong in (False, True):
                if strong and not (sp[q] == b.space):
                    continue
                for ti, tol in enumerate(tols if (thorough or (k < 3 and trial == 0)) else [1e-6, 1e-10]):
                    for solver in (["gmres", "cg"] if k in w.spd else ["gmres"]):
                        check_iterative(w, out, op, m, (d, q, u), b, c, strong, tol, solver, r,
                                        restart=[None, 3, 20][(k + trial + ti) % 3])
        # ill-typed strong form must be rejected
        other = [i for i in (0, 1) if w.sid[i] != w.sid[q]]
        if other:
            out["evaluations"] += 1
            bb = api.GridFunction(sp[other[0]], coefficients=np.ones(sp[other[0]].global_dof_count))
            try:
                api.linalg.gmres(op, bb, use_strong_form=True)
                rec(out, "C15:gmres:strong-form-accepts-rhs-outside-range", "use_strong_form with b not in range(A) accepted")
            except ValueError:
                pass
            except Exception as ex:
                rec(out, "C15:gmres:strong-form-rhs-outside-range-raises-%s" % type(ex).__name__, str(ex)[:100])
    blocked_search(w, out, thorough)


def check_iterative(w, out, op, m, t, b, c, strong, tol, solver, r, restart=None):
    out["evaluations"] += 1
    d, q, u = t
    if solver != "gmres":
        restart = None
    kw = dict(tol=tol, use_strong_form=strong, return_residuals=True, return_iteration_count=True)
    if solver == "gmres":
        kw["restart"] = restart
        kw["maxiter"] = 200
    else:
        kw["maxiter"] = 500
    tag = "%s-%s" % (solver, "strong" if strong else "weak")
    try:
        x, info, res, count = getattr(api.linalg, solver)(op, b, **kw)
    except Exception as ex:
        rec(out, "C15:%s:raises-%s" % (tag, type(ex).__name__), str(ex)[:120], {"tol": tol})
        return
    if not (x.space == op.domain):
        rec(out, "C15:%s:result-not-in-domain-space" % tag, "solution is not in the domain space")
    im = w.invmass[(w.sid[q], w.sid[u])]
    A = im @ m if strong else m
    # CG on the strong form: M^-1 W is not symmetric unless the mass matrix is a multiple of the identity (recorded finding)
    nonsym_cg = solver == "cg" and strong and float(np.abs(A - A.conj().T).max()) > 1e-12 * float(np.abs(A).max())
    if info != 0:
        if nonsym_cg:
            rec(out, CG_STRONG_SIG, CG_STRONG_WHAT, {"tol": tol, "info": int(info)})
        else:
            rec(out, "C15:%s:info-nonzero-on-well-conditioned-system" % tag, "info=%s tol=%g" % (info, tol),
                {"tol": tol, "restart": restart})
        return
    # the system that was solved
    rhs = np.asarray(b.coefficients if strong else b.projections(op.dual_to_range))
    xv = np.asarray(x.coefficients)
    relres = np.linalg.norm(rhs - A @ xv) / np.linalg.norm(rhs)
    if relres > 1.5 * tol + 1e-13 and nonsym_cg:
        rec(out, CG_STRONG_SIG, CG_STRONG_WHAT, {"tol": tol, "relative_residual": float(relres)})
    elif relres > 1.5 * tol + 1e-13:
        rec(out, "C15:%s:residual-above-requested-tolerance" % tag, "relative residual %.3e > tol %.1e" % (relres, tol),
            {"tol": tol, "restart": restart})
    cond = np.linalg.cond(A)
    if np.linalg.norm(xv - c) > 4 * cond * (tol + 1e-13) * np.linalg.norm(c) and not nonsym_cg:
        rec(out, "C15:%s:solution-differs-from-f-beyond-cond*tol" % tag,
            "error %.3e" % (np.linalg.norm(xv - c) / np.linalg.norm(c)), {"tol": tol})
    if count != len(res):
        rec(out, "C15:%s:iteration-count-differs-from-number-of-residuals" % tag, "%d vs %d" % (count, len(res)))
    # the count must not depend on whether residuals are stored
    try:
        kw2 = dict(kw)
        kw2["return_residuals"] = False
        _, info_b, count_b = getattr(api.linalg, solver)(op, b, **kw2)
        if count_b != count:
            rec(out, "C15:%s:iteration-count-depends-on-return_residuals" % tag, "%d without vs %d with residuals" % (
                count_b, count))
    except Exception as ex:
        rec(out, "C15:%s:raises-%s-without-residuals" % (tag, type(ex).__name__), str(ex)[:100])
    # the same SciPy run, observed directly
    mine = []
    if solver == "gmres":
        x2, info2 = scipy.sparse.linalg.gmres(A_as_op(op, strong), rhs, rtol=tol, restart=restart, maxiter=kw["maxiter"],
                                              callback=lambda v: mine.append(float(np.linalg.norm(v))),
                                              callback_type="legacy")
    else:
        Aop = A_as_op(op, strong)
        x2, info2 = scipy.sparse.linalg.cg(Aop, rhs, rtol=tol, maxiter=kw["maxiter"],
                                           callback=lambda v: mine.append(float(np.linalg.norm(rhs - Aop @ v))))
    if len(mine) != count or not np.allclose(mine, res, rtol=1e-9, atol=1e-300):
        rec(out, "C15:%s:residuals-or-count-differ-from-the-scipy-run" % tag,
            "wrapper count %d / scipy %d" % (count, len(mine)), {"tol": tol})
    if not np.allclose(x2, xv, rtol=1e-9, atol=1e-12):
        rec(out, "C15:%s:solution-differs-from-the-scipy-run" % tag, "different iterate returned")


def A_as_op(op, strong):
    return op.strong_form() if strong else op.weak_form()


def blocked_search(w, out, thorough):
    r, sp = w.r, w.spaces
    A = [a[0] for a in w.atoms]
    M = [np.asarray(a[2], dtype=complex) for a in w.atoms]
    # (i) 2x2, all P1 / P1 / P1 ; (ii) mixed P1 / DP0 with equal dof counts on the tetrahedron
    configs = {"p1-p1": ((0, 5), (5, 0)), "p1-dp0-equal-dofs": ((1, 1), (1, 1))}
    for name, ((a00, a01), (a10, a11)) in configs.items():
        B = api.BlockedOperator(2, 2)
        B[0, 0], B[0, 1], B[1, 0], B[1, 1] = A[a00], 0.25 * A[a01], 0.25 * A[a10], A[a11]
        ref = np.block([[M[a00], 0.25 * M[a01]], [0.25 * M[a10], M[a11]]])
        nd = [s.global_dof_count for s in B.domain_spaces]
        cs = [r.integers(-4, 5, n).astype(float) + 1j * r.integers(-2, 3, n) for n in nd]
        fs = [api.GridFunction(s, coefficients=c) for s, c in zip(B.domain_spaces, cs)]
        out["evaluations"] += 1
        try:
            b = B * fs
            sol = api.linalg.lu(B, b)
            ok = all(close(g.coefficients, c) and g.space == s for g, c, s in zip(sol, cs, B.domain_spaces))
            if not ok:
                rec(out, "C15:lu-blocked:lu(A,A*f)-differs-from-f[%s]" % name, "blocked lu does not recover f")
            fac = scipy.linalg.lu_factor(B.weak_form().to_dense())
            sol2 = api.linalg.lu(B, b, lu_factor=fac)
            if not all(close(g.coefficients, h.coefficients) for g, h in zip(sol, sol2)):
                rec(out, "C15:lu-blocked:precomputed-factors-differ[%s]" % name, "")
        except Exception as ex:
            rec(out, "C15:lu-blocked:raises-%s[%s]" % (type(ex).__name__, name), str(ex)[:120])
            continue
        for strong in (False, True):
            for tol in (1e-6, 1e-10):
                out["evaluations"] += 1
                try:
                    x, info, res, count = api.linalg.gmres(B, b, tol=tol, use_strong_form=strong, return_residuals=True,
                                                           return_iteration_count=True, maxiter=300)
                    xv = np.concatenate([np.asarray(g.coefficients) for g in x])
                    cv = np.concatenate(cs)
                    if info != 0:
                        rec(out, "C15:gmres-blocked-%s:info-nonzero" % ("strong" if strong else "weak"), "info=%s" % info)
                    elif np.linalg.norm(xv - cv) > 10 * np.linalg.cond(ref) * tol * np.linalg.norm(cv):
                        rec(out, "C15:gmres-blocked-%s:solution-differs-from-f[%s]" % ("strong" if strong else "weak", name),
                            "error %.2e" % (np.linalg.norm(xv - cv) / np.linalg.norm(cv)))
                    if not all(g.space == s for g, s in zip(x, B.domain_spaces)):
                        rec(out, "C15:gmres-blocked:result-spaces-differ", "")
                    if count != len(res):
                        rec(out, "C15:gmres-blocked:count-differs-from-residuals", "")
                except Exception as ex:
                    rec(out, "C15:gmres-blocked-%s:raises-%s[%s]" % ("strong" if strong else "weak", type(ex).__name__, name),
                        str(ex)[:120])
    # (ii-b) blocks of different sizes: P1 on the tetrahedron (4 dofs) and P1 on the octahedron (6 dofs), complex right-hand side,
    # weak and strong form
    pa, pb = sp[0], sp[2]
    mk2 = lambda d, q, u, m: BoundaryOperatorWithAssembler(d, q, u, c14.StubAssembler(m), None)  # noqa: E731
    maa = r.integers(-2, 3, (4, 4)).astype(float) + 8 * np.eye(4)
    mab = r.integers(-2, 3, (4, 6)).astype(float)
    mba = r.integers(-2, 3, (6, 4)) + 1j * r.integers(-2, 3, (6, 4))
    mbb = r.integers(-2, 3, (6, 6)).astype(float) + 8 * np.eye(6)
    B2 = api.BlockedOperator(2, 2)
    B2[0, 0], B2[0, 1], B2[1, 0], B2[1, 1] = mk2(pa, pa, pa, maa), mk2(pb, pa, pa, mab), mk2(pa, pb, pb, mba), mk2(pb, pb, pb, mbb)
    ref2 = np.block([[maa, mab], [mba, mbb]])
    cs2 = [r.integers(-4, 5, 4) + 1j * r.integers(-3, 4, 4), r.integers(-4, 5, 6) + 1j * r.integers(-3, 4, 6)]
    fs2 = [api.GridFunction(pa, coefficients=cs2[0]), api.GridFunction(pb, coefficients=cs2[1])]
    name = "different-block-sizes"
    out["evaluations"] += 1
    try:
        b2 = B2 * fs2
        sol = api.linalg.lu(B2, b2)
        if not all(close(g.coefficients, c) and g.space == s_ for g, c, s_ in zip(sol, cs2, B2.domain_spaces)):
            rec(out, "C15:lu-blocked:lu(A,A*f)-differs-from-f[%s]" % name, "blocked lu does not recover f")
        for strong in (False, True):
            for tol, restart in ((1e-6, None), (1e-10, 4)):
                out["evaluations"] += 1
                x, info, res, count = api.linalg.gmres(B2, b2, tol=tol, restart=restart, use_strong_form=strong,
                                                       return_residuals=True, return_iteration_count=True, maxiter=300)
                xv = np.concatenate([np.asarray(g.coefficients) for g in x])
                cv = np.concatenate(cs2)
                tag = "strong" if strong else "weak"
                if info != 0:
                    rec(out, "C15:gmres-blocked-%s:info-nonzero[%s]" % (tag, name), "info=%s" % info)
                elif np.linalg.norm(xv - cv) > 10 * np.linalg.cond(ref2) * tol * np.linalg.norm(cv):
                    rec(out, "C15:gmres-blocked-%s:solution-differs-from-f[%s]" % (tag, name),
                        "error %.2e" % (np.linalg.norm(xv - cv) / np.linalg.norm(cv)))
                if [g.space == s_ for g, s_ in zip(x, B2.domain_spaces)] != [True, True]:
                    rec(out, "C15:gmres-blocked:result-spaces-differ[%s]" % name, "")
                if count != len(res) or count == 0:
                    rec(out, "C15:gmres-blocked:count-differs-from-residuals[%s]" % name, "%d vs %d" % (count, len(res)))
                # the same SciPy run observed directly
                A_op = B2.strong_form() if strong else B2.weak_form()
                rhs = (c14.blk.coefficients_from_grid_functions_list(b2) if strong
                       else c14.blk.projections_from_grid_functions_list(b2, B2.dual_to_range_spaces))
                mine = []
                x2, _ = scipy.sparse.linalg.gmres(A_op, rhs, rtol=tol, restart=restart, maxiter=300,
                                                  callback=lambda v: mine.append(float(np.linalg.norm(v))),
                                                  callback_type="legacy")
                if len(mine) != count or not np.allclose(mine, res, rtol=1e-9, atol=1e-300):
                    rec(out, "C15:gmres-blocked-%s:residuals-or-count-differ-from-the-scipy-run[%s]" % (tag, name),
                        "wrapper %d / scipy %d" % (count, len(mine)))
    except Exception as ex:
        rec(out, "C15:blocked:raises-%s[%s]" % (type(ex).__name__, name), str(ex)[:160])
    # (ii-c) domain spaces != range spaces, different kinds and dof counts per block (octahedron: P1 6 dofs, DP0 8 dofs):
    #   A = [[A00, A01], [A10, A11]], domain [P1, DP0], range = dual [DP0, P1]; real and complex.
    #   Checks: returned functions live in A.domain_spaces, equal f, and A * result reproduces the right-hand side.
    p1o, dp0o = sp[2], sp[4]
    for cplx in (False, True):
        name = "domain!=range-%s" % ("complex" if cplx else "real")
        j = (1j if cplx else 0)
        n00 = r.integers(-2, 3, (8, 6)) + j * r.integers(-2, 3, (8, 6))
        n01 = r.integers(-2, 3, (8, 8)) + 9 * np.eye(8) + j * r.integers(-2, 3, (8, 8))
        n10 = r.integers(-2, 3, (6, 6)) + 9 * np.eye(6) + j * r.integers(-2, 3, (6, 6))
        n11 = r.integers(-2, 3, (6, 8)) + j * r.integers(-2, 3, (6, 8))
        n00, n01, n10, n11 = [np.asarray(x, dtype=complex if cplx else float) for x in (n00, n01, n10, n11)]
        B3 = api.BlockedOperator(2, 2)
        B3[0, 0], B3[0, 1] = mk2(p1o, dp0o, dp0o, n00), mk2(dp0o, dp0o, dp0o, n01)
        B3[1, 0], B3[1, 1] = mk2(p1o, p1o, p1o, n10), mk2(dp0o, p1o, p1o, n11)
        ref3 = np.block([[n00, n01], [n10, n11]])
        cs3 = [r.integers(-4, 5, 6) + j * r.integers(-3, 4, 6), r.integers(-4, 5, 8) + j * r.integers(-3, 4, 8)]
        cs3 = [np.asarray(c, dtype=complex if cplx else float) for c in cs3]
        fs3 = [api.GridFunction(p1o, coefficients=cs3[0]), api.GridFunction(dp0o, coefficients=cs3[1])]
        doms = list(B3.domain_spaces)

        def check_solution(tag, sol, tol):
            dofs = [int(g.space.global_dof_count) for g in sol]
            if [g.space == s_ for g, s_ in zip(sol, doms)] != [True, True]:
                rec(out, "C15:%s:returned-functions-not-in-A.domain_spaces[%s]" % (tag, name),
                    "components live in spaces with %s dofs, the domain spaces have %s" % (
                        dofs, [int(s_.global_dof_count) for s_ in doms]), {"dofs": dofs})
                return
            xv = np.concatenate([np.asarray(g.coefficients) for g in sol])
            cv = np.concatenate(cs3)
            if np.linalg.norm(xv - cv) > 10 * np.linalg.cond(ref3) * tol * np.linalg.norm(cv):
                rec(out, "C15:%s:solution-differs-from-f[%s]" % (tag, name),
                    "error %.2e" % (np.linalg.norm(xv - cv) / np.linalg.norm(cv)))
            back = B3 * list(sol)
            want = c14.blk.projections_from_grid_functions_list(b3, B3.dual_to_range_spaces)
            got = c14.blk.projections_from_grid_functions_list(back, B3.dual_to_range_spaces)
            if np.linalg.norm(got - want) > 10 * np.linalg.cond(ref3) * tol * np.linalg.norm(want):
                rec(out, "C15:%s:A*result-differs-from-rhs[%s]" % (tag, name), "")
        out["evaluations"] += 1
        try:
            b3 = B3 * fs3
            check_solution("lu-blocked", api.linalg.lu(B3, b3), 1e-12)
            check_solution("lu-blocked-factors", api.linalg.lu(B3, b3, lu_factor=scipy.linalg.lu_factor(
                B3.weak_form().to_dense())), 1e-12)
            for strong in (False, True):
                # (the matrix is indefinite - dominant off-diagonal blocks -: short restarts stagnate, so restart >= size)
                for tol, restart in ((1e-6, None), (1e-10, 16)):
                    out["evaluations"] += 1
                    x, info, res, count = api.linalg.gmres(B3, b3, tol=tol, restart=restart, use_strong_form=strong,
                                                           return_residuals=True, return_iteration_count=True, maxiter=400)
                    tag = "gmres-blocked-%s" % ("strong" if strong else "weak")
                    if info != 0:
                        rec(out, "C15:%s:info-nonzero[%s]" % (tag, name), "info=%s" % info)
                        continue
                    check_solution(tag, x, tol)
                    if count != len(res) or count == 0:
                        rec(out, "C15:%s:count-differs-from-residuals[%s]" % (tag, name), "%d vs %d" % (count, len(res)))
        except Exception as ex:
            rec(out, "C15:blocked:raises-%s[%s]" % (type(ex).__name__, name), str(ex)[:160])
    # (iii) duals whose dof counts differ from the ranges' (octahedron: P1 6, DP0 8): the right-hand side A*f is built by
    # grid_function_list_from_projections
    p1, dp0 = sp[2], sp[4]
    m00 = r.integers(-2, 3, (8, 6)).astype(float)
    m01 = r.integers(-2, 3, (8, 8)).astype(float) + 8 * np.eye(8)
    m10 = r.integers(-2, 3, (6, 6)).astype(float) + 8 * np.eye(6)
    m11 = r.integers(-2, 3, (6, 8)).astype(float)
    mk = lambda d, q, u, m: BoundaryOperatorWithAssembler(d, q, u, c14.StubAssembler(m), None)  # noqa: E731
    B = api.BlockedOperator(2, 2)
    B[0, 0], B[0, 1] = mk(p1, p1, dp0, m00), mk(dp0, p1, dp0, m01)
    B[1, 0], B[1, 1] = mk(p1, dp0, p1, m10), mk(dp0, dp0, p1, m11)
    cs = [r.integers(-4, 5, 6).astype(float), r.integers(-4, 5, 8).astype(float)]
    fs = [api.GridFunction(p1, coefficients=cs[0]), api.GridFunction(dp0, coefficients=cs[1])]
    out["evaluations"] += 1
    try:
        b = B * fs
        sol = api.linalg.lu(B, b)
        if not all(close(g.coefficients, c) for g, c in zip(sol, cs)):
            lens = [len(x.projections()) for x in b]
            rec(out, "C15:lu-blocked:lu(A,A*f)-differs-from-f[range-dofs!=dual-dofs]",
                "blocked lu(A, A*[f, g]) does not return [f, g] when dual_to_range and range spaces have different dof "
                "counts: the right-hand side A*[f, g] carries projection vectors of lengths %s, dual dof counts are [8, 6]"
                % lens, {"projection_lengths": lens})
    except Exception as ex:
        rec(out, "C15:lu-blocked:raises-%s[range-dofs!=dual-dofs]" % type(ex).__name__,
            "blocked lu(A, A*[f, g]) with dual dof counts [8, 6] and range dof counts [6, 8]: %s" % str(ex)[:160])


CG_STRONG_SIG = "C15:cg-strong:system-matrix-M^-1*W-is-not-symmetric(cg-stalls-or-loses-accuracy-although-A-is-SPD)"
CG_STRONG_WHAT = ("cg(A, b, use_strong_form=True) hands SciPy's CG the matrix M^-1 W, which is symmetric only with respect to the "
                  "M-inner product; for an SPD operator A the weak-form CG converges (4 iterations on the witness) while the "
                  "strong-form CG stalls above the requested tolerance (info = maxiter) whenever the mass matrix is not a "
                  "multiple of the identity")


def cg_strong_witness(w, out):
    """Fixed, seed-independent system: DP0 on the tetrahedron (mass matrix diag(1/2, 1/2, 1/2, sqrt(3)/2)), W SPD, cond 3.2."""
    sp = w.spaces[1]
    W = np.array([[19, -4, -2, 0], [-4, 8, 0, 0], [-2, 0, 16, 4], [0, 0, 4, 14]], dtype="float64")
    op = BoundaryOperatorWithAssembler(sp, sp, sp, c14.StubAssembler(W), None)
    c = np.array([1.0, -2.0, 3.0, 0.5])
    f = api.GridFunction(sp, coefficients=c)
    b = op * f
    out["evaluations"] += 2
    xw, infow, cw = api.linalg.cg(op, b, tol=1e-10, maxiter=500, return_iteration_count=True)
    if infow != 0 or not close(xw.coefficients, c):
        rec(out, "C15:cg-weak:witness-system-does-not-converge", "weak-form cg on the fixed SPD witness: info=%s" % infow)
    xs, infos, cs_ = api.linalg.cg(op, b, tol=1e-10, maxiter=500, use_strong_form=True, return_iteration_count=True)
    A = np.asarray(op.strong_form().to_dense())
    asym = float(np.abs(A - A.T).max())
    rhs = np.asarray(b.coefficients)
    relres = float(np.linalg.norm(rhs - A @ np.asarray(xs.coefficients)) / np.linalg.norm(rhs))
    if infos != 0 or relres > 1.5e-10:
        rec(out, CG_STRONG_SIG, CG_STRONG_WHAT,
            {"space": "DP0 on the tetrahedron (0,0,0),(1,0,0),(0,1,0),(0,0,1)", "W": W.tolist(), "f": c.tolist(), "tol": 1e-10,
             "maxiter": 500, "weak": {"info": int(infow), "iterations": int(cw)},
             "strong": {"info": int(infos), "iterations": int(cs_), "relative_residual": relres},
             "asymmetry_of_M^-1W": asym})


def flag_combinations(w, out):
    """Deterministic (seed-independent): all four combinations of return_residuals x return_iteration_count for single
    gmres / cg and blocked gmres, weak and strong form, on fixed systems.  With return_residuals the list has one entry per
    iteration and equals the direct SciPy run on the same system; without it no list is returned; the count equals the number
    of SciPy callbacks; solution and info do not depend on the flags."""
    p1, dp0 = w.spaces[0], w.spaces[1]
    W = np.array([[19, -4, -2, 0], [-4, 8, 0, 0], [-2, 0, 16, 4], [0, 0, 4, 14]], dtype="float64")
    N = np.array([[9, 1, -2, 0], [2, 8, 0, 1], [-1, 0, 10, 3], [0, -2, 1, 7]], dtype="float64")
    mk = lambda d, q, u, m: BoundaryOperatorWithAssembler(d, q, u, c14.StubAssembler(m), None)  # noqa: E731
    single = mk(dp0, dp0, dp0, W)
    single_n = mk(p1, p1, p1, N)
    B = api.BlockedOperator(2, 2)
    B[0, 0], B[0, 1] = mk(p1, p1, p1, N), mk(dp0, p1, p1, 0.5 * W[::-1])
    B[1, 0], B[1, 1] = mk(p1, dp0, dp0, 0.25 * N.T), mk(dp0, dp0, dp0, W)
    c = np.array([1.0, -2.0, 3.0, 0.5])
    c2 = np.array([-1.0, 0.5, 2.0, 4.0])
    systems = [("gmres", single_n, single_n * api.GridFunction(p1, coefficients=c), None),
               ("cg", single, single * api.GridFunction(dp0, coefficients=c), None),
               ("gmres-blocked", B, B * [api.GridFunction(p1, coefficients=c), api.GridFunction(dp0, coefficients=c2)], None)]
    for name, op, b, _ in systems:
        blocked = name == "gmres-blocked"
        solver = api.linalg.cg if name == "cg" else api.linalg.gmres
        for strong in (False, True):
            tag = "%s-%s" % (name, "strong" if strong else "weak")
            kw = dict(tol=1e-9, maxiter=40, use_strong_form=strong)
            if name != "cg":
                kw["restart"] = 3          # several restart cycles: the count is a number of inner iterations
            # the direct SciPy run on the system the wrapper states
            try:
                A_op = op.strong_form() if strong else op.weak_form()
                if blocked:
                    rhs = (c14.blk.coefficients_from_grid_functions_list(b) if strong else
                           c14.blk.projections_from_grid_functions_list(b, op.dual_to_range_spaces))
                else:
                    rhs = np.asarray(b.coefficients if strong else b.projections(op.dual_to_range))
                mine = []
                if name == "cg":
                    x0, info0 = scipy.sparse.linalg.cg(A_op, rhs, rtol=kw["tol"], maxiter=kw["maxiter"],
                                                       callback=lambda v: mine.append(float(np.linalg.norm(rhs - A_op @ v))))
                else:
                    x0, info0 = scipy.sparse.linalg.gmres(A_op, rhs, rtol=kw["tol"], restart=kw["restart"], maxiter=kw["maxiter"],
                                                          callback=lambda v: mine.append(float(np.linalg.norm(v))),
                                                          callback_type="legacy")
            except Exception as ex:
                rec(out, "C15:%s:flags:direct-scipy-run-raises-%s" % (tag, type(ex).__name__), str(ex)[:120])
                continue
            if not mine:
                rec(out, "C15:%s:flags:harness-system-needs-no-iteration" % tag, "the fixed system converged without a callback")
            base = None
            for rr in (False, True):
                for ric in (False, True):
                    out["evaluations"] += 1
                    fl = "[return_residuals=%s,return_iteration_count=%s]" % (rr, ric)
                    data = {"solver": name, "use_strong_form": strong, "return_residuals": rr, "return_iteration_count": ric,
                            "scipy_iterations": len(mine)}
                    try:
                        ret = solver(op, b, return_residuals=rr, return_iteration_count=ric, **kw)
                    except Exception as ex:
                        rec(out, "C15:%s:flags:raises-%s%s" % (tag, type(ex).__name__, fl), str(ex)[:120], data)
                        continue
                    if not isinstance(ret, tuple) or len(ret) != 2 + int(rr) + int(ric):
                        rec(out, "C15:%s:flags:return-tuple-has-wrong-length%s" % (tag, fl),
                            "expected (x, info%s%s)" % (", residuals" if rr else "", ", count" if ric else ""), data)
                        continue
                    x, info = ret[0], ret[1]
                    res = ret[2] if rr else None
                    count = ret[-1] if ric else None
                    if rr:
                        ok_list = isinstance(res, (list, tuple, np.ndarray)) and len(res) == len(mine) and len(res) > 0
                        if not ok_list or not np.allclose(np.asarray(res, dtype=float), mine, rtol=1e-9, atol=1e-300):
                            n_res = len(res) if hasattr(res, "__len__") else -1
                            rec(out, "C15:%s:flags:residual-list-is-not-one-entry-per-iteration-of-the-scipy-run%s" % (tag, fl),
                                "return_residuals=True returned %d residuals, the same SciPy run performs %d iterations"
                                % (n_res, len(mine)), dict(data, residuals_returned=n_res))
                    if ric and not (isinstance(count, (int, np.integer)) and int(count) == len(mine)):
                        rec(out, "C15:%s:flags:iteration-count-differs-from-the-scipy-run%s" % (tag, fl),
                            "count %r, SciPy callbacks %d" % (count, len(mine)), data)
                    if rr and ric and hasattr(res, "__len__") and len(res) != count:
                        rec(out, "C15:%s:flags:count-differs-from-number-of-residuals%s" % (tag, fl), "%r vs %d" % (count, len(res)), data)
                    xv = (np.concatenate([np.asarray(g.coefficients) for g in x]) if blocked else np.asarray(x.coefficients))
                    if base is None:
                        base = (xv, info)
                        if info != info0 or not np.allclose(xv, np.asarray(x0).ravel(), rtol=1e-12, atol=1e-14):
                            rec(out, "C15:%s:flags:solution-or-info-differs-from-the-scipy-run" % tag,
                                "info %r vs %r" % (info, info0), data)
                    elif info != base[1] or not np.array_equal(xv, base[0]):
                        rec(out, "C15:%s:flags:solution-or-info-depends-on-the-return-flags%s" % (tag, fl),
                            "info %r vs %r, max deviation %.3g" % (info, base[1], float(np.abs(xv - base[0]).max())), data)


def main():
    cfg = json.load(sys.stdin)
    thorough = cfg.get("strength") == "thorough"
    out = {"sys_cases": [], "lu_cases": [], "ic_cases": [], "failures": [], "evaluations": 0}
    try:
        w = SWorld(rng(), thorough)
        out["env"] = w.env_json()
        correspondence(w, out, 80 if thorough else 36)
        cg_strong_witness(w, out)
        flag_combinations(w, out)
        solver_search(w, out, thorough)
    except Exception:
        out["crash"] = traceback.format_exc()
    counts, uniq = {}, []
    for f in out["failures"]:
        counts[f["signature"]] = counts.get(f["signature"], 0) + 1
        if counts[f["signature"]] == 1:
            uniq.append(f)
    out["failure_counts"], out["failures"] = counts, uniq
    emit(out)


if __name__ == "__main__":
    main()
