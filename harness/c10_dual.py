"""C10 harness: nodal values of the DUAL0 / DUAL1 bases (search) and the data the hand model needs (correspondence)."""
import numpy as np

import bempp_cl.api as api

CENTRE = np.array([[1.0 / 3], [1.0 / 3]])
CORNERS = np.array([[0.0, 1.0, 0.0], [0.0, 0.0, 1.0]])


def _opt_name(o):
    return ",".join("%s=%s" % (k, o[k]) for k in sorted(o)) or "whole"


def dual_options(dom, thorough):
    doms = sorted(set(int(x) for x in dom))
    opts = [{}]
    if len(doms) > 1:
        opts.append({"segments": [doms[-1]]})
        opts.append({"segments": [doms[-1]], "truncate_at_segment_edge": True})
        opts.append({"segments": [doms[-1]], "include_boundary_dofs": True, "truncate_at_segment_edge": True})
        opts.append({"segments": [doms[-1]], "include_boundary_dofs": True})
        if thorough:
            opts.append({"segments": [doms[0]]})
            opts.append({"segments": [doms[0]], "truncate_at_segment_edge": True})
            opts.append({"segments": doms[:2], "truncate_at_segment_edge": True})
    return opts


def _sparse_triples(D):
    D = D.tocoo()
    D.sum_duplicates()
    return sorted((int(r), int(c), float(v)) for r, c, v in zip(D.row, D.col, D.data) if v != 0)


def _input_class(o):
    if "segments" not in o:
        return "whole"
    return "segment,truncate" if o.get("truncate_at_segment_edge") else "segment"


def check_dual0(out, name, grid, dom, o, rng):
    bg = grid.barycentric_refinement
    p1o = dict(o)
    p1o.setdefault("include_boundary_dofs", False)
    p1o.setdefault("truncate_at_segment_edge", False)
    p1 = api.function_space(grid, "P", 1, **p1o)
    try:
        sp = api.function_space(grid, "DUAL", 0, **o)
    except Exception as e:
        out["failures"].append({"signature": "C10:dual0:raises:" + _input_class(o),
                                "what": "DUAL0 (%s) on %s raises %s: %s" % (_opt_name(o), name, type(e).__name__, e),
                                "data": {"grid": name, "options": o, "vertices": grid.vertices.tolist(),
                                         "elements": grid.elements.tolist(), "domain_indices": grid.domain_indices.tolist()}})
        return None
    n = sp.global_dof_count
    if n != p1.global_dof_count:
        out["failures"].append({"signature": "C10:dual0:dof_count:" + _input_class(o),
                                "what": "DUAL0 (%s) on %s has %d dofs, the P1 space with the same options %d" % (
                                    _opt_name(o), name, n, p1.global_dof_count), "data": {"grid": name, "options": o}})
        return sp
    bad = None
    nbad = 0
    for d in range(n):
        g2l = p1.global2local[d]
        if len(g2l) == 0:
            continue
        V = int(grid.elements[g2l[0][1], g2l[0][0]])
        c = np.zeros(n)
        c[d] = 1.0
        gf = api.GridFunction(sp, coefficients=c)
        sup = set(int(x) for x in sp.support_elements)
        for be in range(bg.number_of_elements):
            want = 1.0 if (int(bg.elements[0, be]) == V and p1.support[be // 6]) else 0.0
            got = float(gf.evaluate(be, CENTRE)[0, 0]) if be in sup else 0.0
            out["search_evals"] += 1
            if abs(got - want) > 1e-12:
                nbad += 1
                if bad is None:
                    bad = (d, V, be, got, want)
    if bad:
        out["failures"].append({
            "signature": "C10:dual0:nodal_values:" + _input_class(o),
            "what": "DUAL0 (%s) on %s: basis function of vertex %d is %g instead of %g on barycentric element %d "
                    "(coarse %d, j=%d); %d wrong element values in total" % (
                        _opt_name(o), name, bad[1], bad[3], bad[4], bad[2], bad[2] // 6, bad[2] % 6, nbad),
            "data": {"grid": name, "options": o, "dof": bad[0], "bary_element": bad[2], "vertices": grid.vertices.tolist(),
                     "elements": grid.elements.tolist(), "domain_indices": grid.domain_indices.tolist()}})
    return sp


def check_dual1(out, name, grid, dom, o, rng):
    bg = grid.barycentric_refinement
    dp0 = api.function_space(grid, "DP", 0, **{k: v for k, v in o.items() if k == "segments"})
    if "include_boundary_dofs" in o:
        return None                      # has no effect on DUAL1 (documented); not a separate case
    try:
        sp = api.function_space(grid, "DUAL", 1, **o)
    except Exception as e:
        out["failures"].append({"signature": "C10:dual1:raises:" + _input_class(o),
                                "what": "DUAL1 (%s) on %s raises %s: %s" % (_opt_name(o), name, type(e).__name__, e),
                                "data": {"grid": name, "options": o}})
        return None
    n = sp.global_dof_count
    nV = grid.number_of_vertices
    valence = np.zeros(nV, int)
    for e in range(grid.number_of_elements):
        for k in range(3):
            valence[grid.elements[k, e]] += 1
    # expected support
    seg = set(int(x) for x in dp0.support_elements)
    if o.get("truncate_at_segment_edge"):
        want_sup = seg
    else:
        vs = set(int(v) for e in seg for v in grid.elements[:, e])
        want_sup = set(e for e in range(grid.number_of_elements) if vs & set(int(v) for v in grid.elements[:, e]))
    got_sup = set(int(b) // 6 for b in sp.support_elements)
    if got_sup != want_sup or len(sp.support_elements) != 6 * len(want_sup):
        out["failures"].append({"signature": "C10:dual1:support:" + _input_class(o),
                                "what": "DUAL1 (%s) on %s: support is coarse elements %s, expected %s" % (
                                    _opt_name(o), name, sorted(got_sup), sorted(want_sup)),
                                "data": {"grid": name, "options": o}})
    bad = None
    nbad = 0
    kinds = {}
    for d in range(n):
        E = int(dp0.support_elements[d])
        expected = {}                                  # bary vertex id -> value
        Pc = grid.vertices[:, grid.elements[:, E]]
        targets = [(Pc.mean(axis=1), 1.0, "barycentre")]
        for (a, b) in ((0, 1), (1, 2), (2, 0)):
            targets.append((0.5 * (Pc[:, a] + Pc[:, b]), 0.5, "edge midpoint"))
        for k in range(3):
            expected[int(grid.elements[k, E])] = (1.0 / valence[grid.elements[k, E]], "vertex")
        for X, val, what in targets:
            dist = np.linalg.norm(bg.vertices[:, nV:] - X[:, None], axis=0)
            i = int(np.argmin(dist))
            if dist[i] < 1e-10:
                expected[nV + i] = (val, what)
        c = np.zeros(n)
        c[d] = 1.0
        gf = api.GridFunction(sp, coefficients=c)
        for be in sp.support_elements:
            be = int(be)
            got = gf.evaluate(be, CORNERS)[0]
            for v in range(3):
                want, what = expected.get(int(bg.elements[v, be]), (0.0, "other node"))
                out["search_evals"] += 1
                if abs(got[v] - want) > 1e-12:
                    nbad += 1
                    kinds[what] = kinds.get(what, 0) + 1
                    if bad is None:
                        bad = (d, E, be, v, float(got[v]), want, what)
    if bad:
        out["failures"].append({
            "signature": "C10:dual1:nodal_values:" + "+".join(sorted(kinds)),
            "what": "DUAL1 (%s) on %s: basis function of element %d takes %g instead of %g at a %s (barycentric element "
                    "%d local vertex %d); wrong nodal values by kind: %s" % (
                        _opt_name(o), name, bad[1], bad[4], bad[5], bad[6], bad[2], bad[3], kinds),
            "data": {"grid": name, "options": o, "dof": bad[0], "bary_element": bad[2], "local_vertex": bad[3],
                     "vertices": grid.vertices.tolist(), "elements": grid.elements.tolist(),
                     "domain_indices": grid.domain_indices.tolist()}})
    return sp


def dump_case(grid, name, o, sp0, sp1):
    """Everything the Gallina models of dual0_function_space / dual1_function_space read, plus what they returned."""
    p1o = dict(o)
    p1o.setdefault("include_boundary_dofs", False)
    p1o.setdefault("truncate_at_segment_edge", False)
    p1 = api.function_space(grid, "P", 1, **p1o)
    dp0 = api.function_space(grid, "DP", 0, **{k: v for k, v in o.items() if k == "segments"})
    vn = grid.vertex_neighbors
    case = {"grid": name, "options": _opt_name(o), "truncate": bool(o.get("truncate_at_segment_edge", False)),
            "elements": grid.elements.T.astype(int).tolist(), "element_edges": grid.element_edges.T.astype(int).tolist(),
            "edge_neighbors": [[int(x) for x in l] for l in grid.edge_neighbors],
            "vertex_neighbors": [[int(x) for x in vn.indices[vn.indexptr[v]:vn.indexptr[v + 1]]]
                                 for v in range(grid.number_of_vertices)],
            "p1_support_elements": [int(x) for x in p1.support_elements],
            "p1_g2l": [[[int(f), int(v)] for f, v in p1.global2local[d]] for d in range(p1.global_dof_count)],
            "dp0_support_elements": [int(x) for x in dp0.support_elements]}
    if sp0 is not None:
        case["dual0"] = [[r, c, [int(v), 1]] for r, c, v in _sparse_triples(sp0.dof_transformation)]
        case["dual0_shape"] = list(sp0.dof_transformation.shape)
        case["dual0_support"] = [int(x) for x in sp0.support_elements]
    if sp1 is not None:
        from fractions import Fraction as F
        tr = []
        for r, c, v in _sparse_triples(sp1.dof_transformation):
            f = F(v)
            tr.append([r, c, [f.numerator, f.denominator]])
        case["dual1"] = tr
        case["dual1_shape"] = list(sp1.dof_transformation.shape)
        case["dual1_support"] = [int(x) for x in sp1.support_elements]
    return case


def check_dofmap(out, name, o, sp, kind, nb):
    """local2global / local_multipliers of a dual space: identity numbering over its barycentric support."""
    if sp is None:
        return
    sup = sp.support_elements.astype(int)
    ok = sp.dof_transformation.shape[0] == nb * len(sup)
    for pos, be in enumerate(sup):
        if list(sp.local2global[be]) != list(range(nb * pos, nb * pos + nb)) or any(int(m) != 1 for m in sp.local_multipliers[be]):
            ok = False
    g2l_ok = all(len(sp.global2local[nb * pos + k]) == 1 and tuple(sp.global2local[nb * pos + k][0]) == (be, k)
                 for pos, be in enumerate(sup) for k in range(nb))
    if not (ok and g2l_ok):
        out["failures"].append({"signature": "C10:%s:dofmap" % kind,
                                "what": "%s (%s) on %s: local2global/local_multipliers/global2local are not the identity "
                                        "numbering of its barycentric support" % (kind.upper(), _opt_name(o), name),
                                "data": {"grid": name, "options": o}})


def run(out, grids, rng, thorough):
    cases = []
    for name, grid, dom in grids:
        for o in dual_options(dom, thorough):
            sp0 = check_dual0(out, name, grid, dom, o, rng)
            sp1 = check_dual1(out, name, grid, dom, o, rng)
            check_dofmap(out, name, o, sp0, "dual0", 1)
            check_dofmap(out, name, o, sp1, "dual1", 3)
            if grid.number_of_elements <= 12:
                cases.append(dump_case(grid, name, o, sp0, sp1))
    out["dual_cases"] = cases
