"""C11 implementation side.  stdin JSON {"strength": "quick"|"thorough", "parts": [...]}; prints '@@JSON {...}'.

parts:
  topo     exhaustive sub-complexes of the octahedron and of a 2x2 screen + seeded random soups + malformed stream:
           what bempp_cl.api.Grid(...) returns (canonicalised tables) or the exception class
  geom     per-element geometric quantities as exact rationals of the doubles
  derived  refine / barycentric_refinement / union / grid_from_segments outputs for the model comparison
  search   the C11 relations evaluated with numpy on larger meshes (failing-input search)
"""
import json
import os
import sys
import time
from fractions import Fraction as F

import numpy as np

import c11_meshes as M


def log(*a):
    print(*a, file=sys.stderr, flush=True)


def fr(x):
    f = F(float(x))
    return [f.numerator, f.denominator]


def il(x, n):
    """Rows of an IndexList(indices, indexptr); rows the (too short) indexptr does not describe are left out, so a
    wrong-length table shows up as a wrong number of rows instead of an IndexError in the harness."""
    m = min(n, len(x.indexptr) - 1)
    return [sorted(int(i) for i in x.indices[x.indexptr[k]:x.indexptr[k + 1]]) for k in range(m)]


def layout_problems(g):
    """Length checks of every table of a Grid (a valid grid must have one entry / row per entity)."""
    ne, nv, nel = g.number_of_edges, g.number_of_vertices, g.number_of_elements
    bad = []
    for name, got, want in (
            ("vertex_neighbors", len(g.vertex_neighbors.indexptr), nv + 1),
            ("element_neighbors", len(g.element_neighbors.indexptr), nel + 1),
            ("vertex_on_boundary", len(g.vertex_on_boundary), nv), ("edge_on_boundary", len(g.edge_on_boundary), ne),
            ("edge_neighbors", len(g.edge_neighbors), ne), ("element_edges", g.element_edges.shape[1], nel),
            ("edges", g.edges.shape[1] if g.edges.ndim == 2 else -1, ne),
            ("normals", len(g.normals), nel), ("volumes", len(g.volumes), nel), ("centroids", len(g.centroids), nel),
            ("diameters", len(g.diameters), nel), ("integration_elements", len(g.integration_elements), nel),
            ("jacobians", len(g.jacobians), nel), ("jacobian_inverse_transposed", len(g.jacobian_inverse_transposed), nel),
            ("domain_indices", len(g.domain_indices), nel)):
        if got != want:
            bad.append((name, got, want))
    for name, x in (("vertex_neighbors", g.vertex_neighbors), ("element_neighbors", g.element_neighbors)):
        ip = np.asarray(x.indexptr)
        if len(ip) and (ip[0] != 0 or ip[-1] != len(x.indices) or np.any(np.diff(ip.astype(np.int64)) < 0)):
            bad.append((name + ".indexptr", "not a partition of indices", ""))
    return bad


def report_layout(g, els, nv, fails, where):
    for name, got, want in layout_problems(g):
        fails.append({"signature": "Grid.%s:wrong-length" % name.split(".")[0],
                      "what": "%s has length %s, expected %s (%s)" % (name, got, want, where),
                      "data": {"els": els, "nv": nv}})


def tables(g):
    """Canonicalised topology tables of a Grid (order-unspecified ones sorted)."""
    ne, nv, nel = g.number_of_edges, g.number_of_vertices, g.number_of_elements
    return {
        "edges": [[int(a), int(b)] for a, b in g.edges.T],
        "element_edges": [[int(x) for x in c] for c in g.element_edges.T],
        "edge_adjacency": sorted([int(x) for x in c] for c in g.edge_adjacency.T),
        "vertex_adjacency": sorted([int(x) for x in c] for c in g.vertex_adjacency.T),
        "element_neighbors": il(g.element_neighbors, nel),
        "edge_neighbors": [[int(x) for x in t] for t in g.edge_neighbors],
        "vertex_neighbors": il(g.vertex_neighbors, nv),
        "edge_on_boundary": [bool(b) for b in g.edge_on_boundary],
        "vertex_on_boundary": [bool(b) for b in g.vertex_on_boundary],
        "counts": [int(ne), int(nv), int(nel)],
    }


KINDS = {"IndexError": 1, "ValueError": 2, "LinAlgError": 3}


def try_grid(v, e, dom=None):
    from bempp_cl.api import Grid
    import warnings
    try:
        with warnings.catch_warnings():
            warnings.simplefilter("ignore")
            g = Grid(v, e, dom)
        return g, 0, ""
    except Exception as ex:  # the class is part of the observable behaviour
        name = type(ex).__name__
        return None, KINDS.get(name, 9), name


def general_coords(nv, rng):
    """Vertex coordinates in general position (no three collinear), multiples of 1/8."""
    while True:
        v = rng.integers(-32, 33, size=(3, nv)).astype("float64") / 8
        ok = True
        for a in range(nv):
            for b in range(a + 1, nv):
                for c in range(b + 1, nv):
                    if np.linalg.norm(np.cross(v[:, b] - v[:, a], v[:, c] - v[:, a])) < 1e-9:
                        ok = False
        if ok:
            return v


def topo_cases(rng, thorough):
    cases = []
    # exhaustive sub-complexes; all vertices of the base mesh are kept (isolated vertices occur)
    for tag, (v, e) in (("octahedron", M.octahedron()), ("screen2x2", M.screen(2))):
        for sub in M.subcomplexes(e):
            cases.append({"tag": tag, "v": v, "e": e[:, sub].copy(), "dt": ("uint32", "float64")})
    # seeded random soups: non-manifold fans, duplicate triangles, several components, isolated vertices
    nrand = 600 if thorough else 150
    for k in range(nrand):
        nv = int(rng.integers(3, 10))
        m = int(rng.integers(1, 11))
        style = k % 5
        els = []
        if style == 0:      # fan around one edge (non-manifold)
            nv = max(nv, 4)
            a, b = rng.choice(nv, 2, replace=False)
            others = [x for x in range(nv) if x not in (a, b)]
            for c in others[:m]:
                els.append([a, b, c] if rng.integers(2) else [b, a, c])
        elif style == 1:    # arbitrary soup, distinct vertices per element, duplicates allowed
            for _ in range(m):
                els.append(list(rng.choice(nv, 3, replace=False)))
        elif style == 2:    # soup without duplicate triangles
            seen = set()
            for _ in range(m):
                t = list(rng.choice(nv, 3, replace=False))
                if frozenset(t) not in seen:
                    seen.add(frozenset(t))
                    els.append(t)
        elif style == 3:    # two components + isolated vertices
            nv = 9
            for _ in range(max(1, m // 2)):
                els.append(list(rng.choice(4, 3, replace=False)))
            for _ in range(max(1, m // 2)):
                els.append(list(4 + rng.choice(4, 3, replace=False)))
        else:               # random relabelling of a closed/open base mesh piece
            v0, e0 = M.octahedron() if rng.integers(2) else M.screen(2)
            v1, e1 = M.relabel(v0, e0, rng)
            keep = rng.choice(e1.shape[1], int(rng.integers(1, e1.shape[1] + 1)), replace=False)
            cases.append({"tag": "relabel", "v": v1, "e": e1[:, sorted(keep)].copy(), "dt": ("uint32", "float64")})
            continue
        e = np.array(els, dtype="int64").T
        dt = [("uint32", "float64"), ("int64", "float64"), ("uint32", "float32"), ("int32", "float64")][k % 4]
        cases.append({"tag": "soup%d" % style, "v": general_coords(nv, rng), "e": e, "dt": dt})
    # unused vertices at the front, in the middle and at the end of the vertex array; Grid(all vertices, some elements)
    for k in range(24 if thorough else 12):
        m = int(rng.integers(1, 6))
        used = int(rng.integers(3, 7))
        pads = [(2, 0, 0), (0, 0, 2), (0, 2, 0), (1, 1, 1), (0, 0, 1), (3, 0, 3)][k % 6]     # front, middle, end
        els = [list(rng.choice(used, 3, replace=False)) for _ in range(m)]
        mid = used // 2
        remap = [i + pads[0] + (pads[1] if i >= mid else 0) for i in range(used)]
        e = np.array([[remap[x] for x in t] for t in els], dtype="int64").T
        nv = used + sum(pads)
        cases.append({"tag": "unused%d%d%d" % pads, "v": general_coords(nv, rng), "e": e, "dt": ("uint32", "float64")})
    v0, e0 = M.sphere(1)
    for k in range(4 if thorough else 2):
        keep = sorted(rng.choice(e0.shape[1], int(rng.integers(1, 7)), replace=False))
        cases.append({"tag": "sphere-subset", "v": v0, "e": e0[:, keep].copy(), "dt": ("uint32", "float64")})
    # malformed stream: repeated vertex in an element, out-of-range index, no elements
    nbad = 120 if thorough else 40
    for k in range(nbad):
        nv = int(rng.integers(3, 8))
        m = int(rng.integers(1, 6))
        els = [list(rng.choice(nv, 3, replace=False)) for _ in range(m)]
        style = k % 4
        if style == 0:
            t = els[int(rng.integers(m))]
            t[int(rng.integers(3))] = t[int(rng.integers(3))]
        elif style == 1:
            els[int(rng.integers(m))][int(rng.integers(3))] = nv + int(rng.integers(0, 3))
        elif style == 2:
            a = int(rng.integers(nv))
            els[int(rng.integers(m))] = [a, a, a] if rng.integers(2) else [a, a, int(rng.integers(nv))]
        else:
            if k % 8 == 3:
                els = []
            else:
                els.append([els[0][0], els[0][0], els[0][1]])
        e = np.array(els, dtype="int64").T if els else np.zeros((3, 0), dtype="int64")
        cases.append({"tag": "malformed%d" % style, "v": general_coords(nv, rng), "e": e, "dt": ("uint32", "float64")})
    return cases


def run_topo(rng, thorough, out):
    from bempp_cl.core.numba_kernels import elements_adjacent
    res = []
    hist = {}
    adjacent = []
    t0 = time.time()
    for c in topo_cases(rng, thorough):
        v = np.asarray(c["v"]).astype(c["dt"][1])
        e = np.asarray(c["e"]).astype(c["dt"][0])
        g, kind, name = try_grid(v, e)
        nv = int(v.shape[1])
        els_l = [[int(x) for x in col] for col in e.T]
        tb = None
        if g is not None:
            try:
                tb = tables(g)
            except Exception as ex:
                out["failures"].append({"signature": "Grid.tables:raises-on-valid-input",
                                        "what": "reading the topology tables raised %s (%s)" % (type(ex).__name__, c["tag"]),
                                        "data": {"els": els_l, "nv": nv}})
                continue
        rec = {"tag": c["tag"], "els": els_l, "nv": nv, "kind": kind, "exc": name, "tables": tb}
        if g is not None:
            report_layout(g, rec["els"], nv, out["failures"], c["tag"])
            # normalisation of the inputs is part of the observable contract
            if g.elements.dtype != np.uint32 or g.vertices.dtype != np.float64 or not g.elements.flags.f_contiguous:
                out["failures"].append({"signature": "Grid.__init__:input-not-normalised",
                                        "what": "elements/vertices not converted to uint32/float64 Fortran order",
                                        "data": {"els": rec["els"], "dtypes": list(c["dt"])}})
        key = "%s:%s" % (c["tag"], name or "ok")
        hist[key] = hist.get(key, 0) + 1
        res.append(rec)
        if g is not None and len(adjacent) < (60 if thorough else 25) and e.shape[1] <= 6 and c["tag"] != "octahedron":
            el = g.elements
            adjacent.append({"els": rec["els"], "adj": [bool(elements_adjacent.py_func(el, i, j))
                                                         for i in range(el.shape[1]) for j in range(el.shape[1])]})
    # python lists are rejected (documented input type is ndarray)
    from bempp_cl.api import Grid
    try:
        Grid([[0, 1, 0], [0, 0, 1], [0, 0, 0.0]], [[0], [1], [2]])
        out["lists"] = "accepted"
    except Exception as ex:
        out["lists"] = type(ex).__name__
    out["topo"] = res
    out["topo_hist"] = hist
    out["adjacent"] = adjacent
    log("topo: %d cases in %.1fs" % (len(res), time.time() - t0))


def geom_record(g):
    recs = []
    for k in range(g.number_of_elements):
        J = g.jacobians[k]
        T = g.jacobian_inverse_transposed[k]
        recs.append({"n": [fr(x) for x in g.normals[k]], "vol": fr(g.volumes[k]), "ie": fr(g.integration_elements[k]),
                     "diam": fr(g.diameters[k]), "c": [fr(x) for x in g.centroids[k]],
                     "ja": [fr(x) for x in J[:, 0]], "jb": [fr(x) for x in J[:, 1]],
                     "ta": [fr(x) for x in T[:, 0]], "tb": [fr(x) for x in T[:, 1]]})
    return recs


def run_geom(rng, thorough, out):
    cases = []
    n = 60 if thorough else 20
    for k in range(n):
        style = k % 4
        if style == 0:
            v, e = M.octahedron()
            v = (np.round(M.affine(v, rng) * 8) / 8)
        elif style == 1:
            v, e = M.screen(2)
            v = v.copy()
            v[2, :] = rng.integers(-8, 9, size=v.shape[1]) / 8     # a warped screen
            v, e = M.relabel(v, e, rng)
        elif style == 2:
            nv = int(rng.integers(3, 8))
            v = general_coords(nv, rng)
            e = np.array([rng.choice(nv, 3, replace=False) for _ in range(int(rng.integers(1, 7)))], dtype="uint32").T
        else:   # degenerate geometry: coincident coordinates for two different vertex numbers
            nv = 5
            v = general_coords(nv, rng)
            v[:, 1] = v[:, 0]
            e = np.array([[0, 1, 2], [2, 3, 4]], dtype="uint32").T
        if style != 3:
            # keep clear of exactly collinear vertices: numpy.linalg.inv only raises when the rounded J^T J is exactly
            # singular, which is not decidable from the exact coordinates
            ee = e.astype(np.int64)
            cr = np.cross(v[:, ee[1]].T - v[:, ee[0]].T, v[:, ee[2]].T - v[:, ee[0]].T)
            if np.min(np.linalg.norm(cr, axis=1)) < 1e-3:
                continue
        g, kind, name = try_grid(v, e)
        cases.append({"vs": [[fr(x) for x in col] for col in v.T], "els": [[int(x) for x in col] for col in e.T],
                      "kind": kind, "exc": name, "geom": geom_record(g) if g is not None else None})
    out["geom"] = cases


# ------------------------------------------------------------------------------------------------------------
# derived grids (model comparison): connectivity as produced by the library
def run_derived(rng, thorough, out):
    import bempp_cl.api as api
    from bempp_cl.api.grid.grid import union, grid_from_segments
    cases = []
    bases = []
    for tag, (v, e) in (("octahedron", M.octahedron()), ("screen2x2", M.screen(2)), ("tetrahedron", M.tetrahedron())):
        bases.append((tag, v, e))
    nsub = 40 if thorough else 14
    for k in range(nsub):
        tag, v, e = bases[k % 2]
        keep = sorted(rng.choice(e.shape[1], int(rng.integers(1, e.shape[1] + 1)), replace=False))
        v1, e1 = M.relabel(v, e[:, keep], rng)
        bases.append(("sub-" + tag, np.round(v1 * 8) / 8, e1))
    for k in range(6 if not thorough else 20):   # non-manifold soups
        nv = int(rng.integers(4, 8))
        seen, els = set(), []
        for _ in range(int(rng.integers(2, 7))):
            t = list(rng.choice(nv, 3, replace=False))
            if frozenset(t) not in seen:
                seen.add(frozenset(t))
                els.append(t)
        bases.append(("soup", general_coords(nv, rng), np.array(els, dtype="uint32").T))
    for tag, v, e in bases:
        dom = rng.integers(0, 4, size=e.shape[1]).astype("uint32")
        g, kind, name = try_grid(v, e, dom)
        if g is None:
            continue
        rec = {"tag": tag, "vs": [[fr(x) for x in col] for col in v.T], "els": [[int(x) for x in col] for col in e.T],
               "dom": [int(d) for d in dom]}
        try:
            r, b = g.refine(), g.barycentric_refinement
        except Exception as ex:
            out["failures"].append({"signature": "Grid.refine/barycentric_refinement:raises-on-valid-grid",
                                    "what": "refinement of an accepted grid raised %s" % type(ex).__name__,
                                    "data": {"els": rec["els"], "nv": int(v.shape[1])}})
            continue
        rec["refine"] = {"vs": [[fr(x) for x in col] for col in r.vertices.T],
                         "els": [[int(x) for x in col] for col in r.elements.T], "dom": [int(d) for d in r.domain_indices]}
        rec["bary"] = {"vs": [[fr(x) for x in col] for col in b.vertices.T],
                       "els": [[int(x) for x in col] for col in b.elements.T], "dom": [int(d) for d in b.domain_indices]}
        segs = sorted(set(int(x) for x in rng.choice(4, int(rng.integers(1, 4)), replace=False)))
        if any(d in segs for d in dom):
            s = grid_from_segments(g, segs)
            rec["segments"] = {"segs": segs, "vs": [[fr(x) for x in col] for col in s.vertices.T],
                               "els": [[int(x) for x in col] for col in s.elements.T],
                               "dom": [int(d) for d in s.domain_indices]}
        cases.append(rec)
    out["derived"] = cases
    # unions of two or three of the accepted grids
    ucases = []
    accepted = []
    for tag, v, e in bases:
        dom = rng.integers(0, 5, size=e.shape[1]).astype("uint32") + int(rng.integers(0, 3))
        g, kind, _ = try_grid(v, e, dom)
        if g is not None:
            accepted.append((g, dom))
    nun = 30 if thorough else 10
    for k in range(nun):
        idx = rng.choice(len(accepted), int(rng.integers(1, 4)), replace=True)
        gs = [accepted[i][0] for i in idx]
        swapped = [bool(rng.integers(2)) for _ in gs]
        mode = k % 3
        kw = {}
        if mode == 1:
            kw["normalize_domain_indices"] = False
        if mode == 2:
            kw["domain_indices"] = [int(x) for x in rng.integers(0, 6, size=len(gs))]
        u = union(gs, swapped_normals=swapped if k % 2 else None, **kw)
        ucases.append({"grids": [{"nv": int(g.number_of_vertices), "els": [[int(x) for x in col] for col in g.elements.T],
                                  "dom": [int(d) for d in g.domain_indices]} for g in gs],
                       "swapped": swapped if k % 2 else None, "mode": mode, "given": kw.get("domain_indices"),
                       "els": [[int(x) for x in col] for col in u.elements.T], "dom": [int(d) for d in u.domain_indices],
                       "nv": int(u.number_of_vertices),
                       "vs_ok": bool(np.array_equal(u.vertices, np.hstack([g.vertices for g in gs])))})
    out["union"] = ucases


# ------------------------------------------------------------------------------------------------------------
# failing-input search: the C11 relations in numpy on larger meshes
def check_grid_relations(g, name, fails, counter):
    v, e = g.vertices, g.elements.astype(np.int64)
    nel, nv = e.shape[1], v.shape[1]

    def bad(sig, what, **data):
        fails.append({"signature": sig, "what": "%s on %s" % (what, name), "data": dict(mesh=name, **data)})
    EL = [(0, 1), (2, 0), (1, 2)]
    lp = layout_problems(g)
    for nm, got, want in lp:
        bad("Grid.%s:wrong-length" % nm.split(".")[0], "%s has length %s, expected %s" % (nm, got, want),
            els=[[int(x) for x in c] for c in e.T], nv=int(nv))
    if lp:
        return
    # edges: every undirected edge once, sorted, element_edges consistent
    edges = g.edges.astype(np.int64)
    counter[0] += 1
    es = set()
    for a, b in edges.T:
        if not a < b or (a, b) in es:
            bad("Grid.edges:not-sorted-or-duplicate", "edge list has an unsorted or repeated entry", edge=[int(a), int(b)])
        es.add((int(a), int(b)))
    want = set()
    for k in range(nel):
        for l, (i, j) in enumerate(EL):
            t = tuple(sorted((int(e[i, k]), int(e[j, k]))))
            want.add(t)
            if tuple(int(x) for x in edges[:, g.element_edges[l, k]]) != t:
                bad("Grid.element_edges:wrong-edge", "element_edges does not index the element's local edge", element=k, local=l)
    if want != es:
        bad("Grid.edges:incomplete", "edge list is not the set of element edges")
    # adjacency by brute force
    counter[0] += 1
    sets = [set(int(x) for x in e[:, k]) for k in range(nel)]
    vert_elems = [[] for _ in range(nv)]
    for k in range(nel):
        for x in sets[k]:
            vert_elems[x].append(k)
    want_e, want_v, want_n = {}, {}, [set() for _ in range(nel)]
    for k in range(nel):
        for x in sets[k]:
            for f in vert_elems[x]:
                want_n[k].add(f)
    for k in range(nel):
        for f in want_n[k]:
            if f == k:
                continue
            sh = [(i, j) for i in range(3) for j in range(3) if e[i, k] == e[j, f]]
            if len(sh) == 2:
                want_e[(k, f)] = sh
            elif len(sh) == 1:
                want_v[(k, f)] = sh
    ea, va = g.edge_adjacency, g.vertex_adjacency
    got_e = {}
    for c in ea.T:
        k, f, i0, i1, j0, j1 = (int(x) for x in c)
        if (k, f) in got_e:
            bad("Grid.edge_adjacency:pair-twice", "ordered pair listed twice", pair=[k, f])
        got_e[(k, f)] = sorted([(i0, j0), (i1, j1)])
        if not (j0 < j1):
            bad("Grid.edge_adjacency:trial-order", "trial local indices not ascending", pair=[k, f])
    if {p: sorted(s) for p, s in want_e.items()} != got_e:
        diff = [list(p) for p in set(want_e) ^ set(got_e)][:3] or \
            [list(p) for p in want_e if sorted(want_e[p]) != got_e.get(p)][:3]
        bad("Grid.edge_adjacency:not-exact", "edge adjacency differs from the pairs sharing two vertices", pairs=diff)
    got_v = {}
    for c in va.T:
        k, f, i, j = (int(x) for x in c)
        if (k, f) in got_v:
            bad("Grid.vertex_adjacency:pair-twice", "ordered pair listed twice", pair=[k, f])
        got_v[(k, f)] = [(i, j)]
    if want_v != got_v:
        diff = [list(p) for p in set(want_v) ^ set(got_v)][:3] or [list(p) for p in want_v if want_v[p] != got_v.get(p)][:3]
        bad("Grid.vertex_adjacency:not-exact", "vertex adjacency differs from the pairs sharing one vertex", pairs=diff)
    en = il(g.element_neighbors, nel)
    if en != [sorted(s) for s in want_n]:
        bad("Grid.element_neighbors:not-exact", "element_neighbors differs from elements sharing a vertex")
    # neighbours and boundary flags
    counter[0] += 1
    enb = [[] for _ in range(edges.shape[1])]
    for k in range(nel):
        for l in range(3):
            enb[g.element_edges[l, k]].append(k)
    if [tuple(x) for x in enb] != [tuple(int(y) for y in x) for x in g.edge_neighbors]:
        bad("Grid.edge_neighbors:inconsistent", "edge_neighbors inconsistent with element_edges")
    eb = np.array([len(x) == 1 for x in enb])
    if not np.array_equal(eb, g.edge_on_boundary):
        bad("Grid.edge_on_boundary:wrong", "edge_on_boundary is not 'exactly one neighbour'")
    vb = np.zeros(nv, dtype=bool)
    for i in np.flatnonzero(eb):
        vb[edges[:, i]] = True
    if not np.array_equal(vb, g.vertex_on_boundary):
        bad("Grid.vertex_on_boundary:wrong", "vertex_on_boundary is not 'end of a boundary edge'")
    if il(g.vertex_neighbors, nv) != [sorted(x) for x in vert_elems]:
        bad("Grid.vertex_neighbors:wrong", "vertex_neighbors differs from elements containing the vertex")
    # geometry
    counter[0] += 1
    p0, p1, p2 = (v[:, e[i]].T for i in range(3))
    a, b = p1 - p0, p2 - p0
    n = np.cross(a, b)
    nn = np.linalg.norm(n, axis=1)
    tol = 1e-10
    if np.max(np.abs(np.linalg.norm(g.normals, axis=1) - 1)) > tol:
        bad("Grid.normals:not-unit", "normal not of unit length")
    if np.max(np.abs(g.normals * nn[:, None] - n)) > tol * np.max(nn):
        bad("Grid.normals:not-right-handed", "normal is not (x1-x0)x(x2-x0) normalised")
    la, lb, lc = np.linalg.norm(a, axis=1), np.linalg.norm(b, axis=1), np.linalg.norm(a - b, axis=1)
    s = (la + lb + lc) / 2
    heron = np.sqrt(np.maximum(s * (s - la) * (s - lb) * (s - lc), 0))
    if np.max(np.abs(g.volumes - heron) / (heron + 1e-300)) > 1e-7 or np.max(np.abs(g.volumes - nn / 2) / nn) > tol:
        bad("Grid.volumes:wrong", "volume differs from Heron / half cross product")
    if np.max(np.abs(g.integration_elements - 2 * g.volumes) / nn) > tol:
        bad("Grid.integration_elements:wrong", "integration element differs from twice the area")
    circ = la * lb * lc / (4 * g.volumes) * 2
    if np.max(np.abs(g.diameters - circ) / circ) > 1e-9:
        bad("Grid.diameters:wrong", "diameter differs from the circumscribed-circle diameter")
    if np.max(np.abs(g.centroids - (p0 + p1 + p2) / 3)) > tol * (1 + np.max(np.abs(v))):
        bad("Grid.centroids:wrong", "centroid differs from the vertex mean")
    J = g.jacobians
    if np.max(np.abs(J[:, :, 0] - a)) > tol or np.max(np.abs(J[:, :, 1] - b)) > tol:
        bad("Grid.jacobians:wrong", "jacobian columns differ from the edge vectors")
    T = g.jacobian_inverse_transposed
    I2 = np.einsum("eki,ekj->eij", T, J)
    if np.max(np.abs(I2 - np.eye(2))) > 1e-9:
        bad("Grid.jacobian_inverse_transposed:wrong", "JinvT^T J differs from the identity")
    if np.max(np.abs(np.einsum("eki,ek->ei", T, g.normals))) > 1e-9 * np.max(np.abs(T)):
        bad("Grid.jacobian_inverse_transposed:not-tangential", "JinvT columns are not tangential")


def area_vec(g):
    v, e = g.vertices, g.elements.astype(np.int64)
    return 0.5 * np.cross(v[:, e[1]].T - v[:, e[0]].T, v[:, e[2]].T - v[:, e[0]].T)


def bary_inside(p, tri, tol=1e-9):
    a, b, c = tri
    m = np.stack([b - a, c - a], axis=1)
    st, res, _, _ = np.linalg.lstsq(m, p - a, rcond=None)
    r = m @ st - (p - a)
    return np.linalg.norm(r) < tol * (1 + np.linalg.norm(m)) and st[0] > -tol and st[1] > -tol and st.sum() < 1 + tol


def check_union_property(gs, u, swapped, mode, given, name, fails):
    """The property predicate of union() on the implementation: geometry kept / reversed per input grid; two elements get
    the same union index iff they come from the same input grid and had the same index there (given indices: the given
    constant per grid; normalised: indices are 0..N-1); extracting one input grid's indices gives that grid back."""
    from bempp_cl.api.grid.grid import grid_from_segments

    def bad(sig, what, **data):
        fails.append({"signature": sig, "what": "%s on %s" % (what, name),
                      "data": dict(mesh=name, mode=mode, swapped=swapped, given=given,
                                   grids=[{"nv": int(g.number_of_vertices), "els": [[int(x) for x in c] for c in g.elements.T],
                                           "dom": [int(d) for d in g.domain_indices]} for g in gs], **data)})
    sw = swapped or [False] * len(gs)
    want = np.vstack([area_vec(g) * (-1 if s else 1) for g, s in zip(gs, sw)])
    U = area_vec(u)
    if U.shape != want.shape or np.max(np.abs(U - want)) > 1e-12 * (1 + np.max(np.abs(want))):
        bad("grid.union:area-or-orientation", "union does not keep / reverse the area vectors")
        return
    d = u.domain_indices.astype(np.int64)
    off = np.cumsum([0] + [g.number_of_elements for g in gs])
    parts = [d[off[j]:off[j + 1]] for j in range(len(gs))]
    if given is not None:
        if any(np.any(pj != given[j]) for j, pj in enumerate(parts)):
            bad("grid.union:given-domain-indices", "explicit domain indices not attached")
        return
    keys = {}
    for j, (g, pj) in enumerate(zip(gs, parts)):
        for x, y in zip(g.domain_indices, pj):
            keys.setdefault(int(y), set()).add((j, int(x)))
    src = {}
    for y, ks in keys.items():
        if len(ks) > 1:
            same_grid = len({k[0] for k in ks}) == 1
            bad("grid.union:domain-partition" if same_grid else "grid.union:domain-overlap",
                ("two domains of one input grid are merged" if same_grid else
                 "elements of different input grids receive the same domain index %d" % y), index=int(y))
            return
        for k in ks:
            if src.setdefault(k, y) != y:
                bad("grid.union:domain-partition", "one input domain is split by the union")
                return
    for k in list(src):
        pass
    if len(set(src.values())) != len(src):
        bad("grid.union:domain-partition", "domains merged")
        return
    if mode == 0 and sorted(set(int(x) for x in d)) != list(range(len(set(int(x) for x in d)))):
        bad("grid.union:not-normalised", "normalised domain indices are not 0..N-1")
    # per-grid extraction through grid_from_segments
    for j, (g, pj) in enumerate(zip(gs, parts)):
        sub = grid_from_segments(u, sorted(set(int(x) for x in pj)))
        if sub.number_of_elements != g.number_of_elements or \
                np.max(np.abs(area_vec(sub) - area_vec(g) * (-1 if sw[j] else 1))) > 1e-12 * (1 + np.max(np.abs(want))):
            bad("grid.union:segment-extraction", "extracting input grid %d from the union by its domain indices does not "
                "give that grid back" % j, grid=j)
            return


def check_multi_union(rng, fails, counter):
    """Unions of 3 and 4 grids x {normalised, not normalised, explicit indices} x swapped_normals."""
    from bempp_cl.api import Grid
    from bempp_cl.api.grid.grid import union
    pool = []
    for k, (gen, doms) in enumerate(((M.tetrahedron, [2, 2, 5, 5]), (M.octahedron, [0, 1, 1, 3, 3, 3, 0, 7]),
                                     (lambda: M.screen(2), [4, 4, 4, 9, 9, 1, 1, 1]), (M.tetrahedron, [0, 0, 0, 0]),
                                     (M.cube12, [3] * 6 + [8] * 6))):
        v, e = gen()
        pool.append(Grid(v + 4.0 * k, e, np.array(doms, dtype="uint32")))
    for n in (3, 4):
        for rep in range(3):
            idx = rng.choice(len(pool), n, replace=False)
            gs = [pool[i] for i in idx]
            for mode in (0, 1, 2):
                for swapped in (None, [bool(rng.integers(2)) for _ in gs]):
                    given = [int(x) for x in rng.integers(0, 5, size=n)] if mode == 2 else None
                    kw = {"normalize_domain_indices": mode == 0}
                    if given is not None:
                        kw = {"domain_indices": given}
                    counter[0] += 1
                    name = "union of %d grids (pool %s)" % (n, [int(i) for i in idx])
                    try:
                        import warnings
                        with warnings.catch_warnings():
                            warnings.simplefilter("ignore")
                            u = union(gs, swapped_normals=swapped, **kw)
                    except Exception as ex:
                        fails.append({"signature": "grid.union:raises-on-valid-input", "what": "%s: %s" % (name, type(ex).__name__),
                                      "data": {"mesh": name, "mode": mode}})
                        continue
                    check_union_property(gs, u, swapped, mode, given, name, fails)


def check_derived(g, name, fails, counter, rng):
    from bempp_cl.api.grid.grid import union, grid_from_segments

    def bad(sig, what, **data):
        fails.append({"signature": sig, "what": "%s on %s" % (what, name), "data": dict(mesh=name, **data)})
    A = area_vec(g)
    closed = not g.edge_on_boundary.any()
    manifold = all(len(t) <= 2 for t in g.edge_neighbors)
    children = []
    for kind, fn, per in (("refine", lambda: g.refine(), 4), ("barycentric_refinement", lambda: g.barycentric_refinement, 6)):
        try:
            children.append((kind, fn(), per))
        except Exception as ex:
            bad("Grid.%s:raises-on-valid-grid" % kind, "%s raised %s" % (kind, type(ex).__name__))
    for kind, child, per in children:
        counter[0] += 1
        check_grid_relations(child, name + "/" + kind, fails, counter)
        B = area_vec(child)
        if child.number_of_elements != per * g.number_of_elements:
            bad("Grid.%s:element-count" % kind, "wrong number of children")
            continue
        S = B.reshape(g.number_of_elements, per, 3)
        if np.max(np.abs(S.sum(axis=1) - A)) > 1e-10 * (1 + np.max(np.abs(A))):
            bad("Grid.%s:area-or-orientation" % kind, "children's area vectors do not add up to the parent's")
        if np.max(np.abs(S - A[:, None, :] / per)) > 1e-10 * (1 + np.max(np.abs(A))):
            bad("Grid.%s:unequal-children" % kind, "children do not each carry 1/%d of the parent's area vector" % per)
        if not np.array_equal(child.domain_indices, np.repeat(g.domain_indices, per)):
            bad("Grid.%s:domain-indices" % kind, "children do not inherit the parent's domain index")
        if manifold and closed and child.edge_on_boundary.any():
            bad("Grid.%s:not-conforming" % kind, "refinement of a closed surface has boundary edges (hanging nodes)")
        if manifold and child.edge_on_boundary.sum() != 2 * g.edge_on_boundary.sum():
            bad("Grid.%s:boundary-edges" % kind, "boundary edges are not split in two")
        nv_expected = g.number_of_vertices + g.number_of_edges + (g.number_of_elements if per == 6 else 0)
        if child.number_of_vertices != nv_expected:
            bad("Grid.%s:vertex-count" % kind, "wrong number of vertices")
        # nesting: every child vertex lies in its parent
        ev, ee = g.vertices, g.elements.astype(np.int64)
        cv, ce = child.vertices, child.elements.astype(np.int64)
        for k in rng.choice(g.number_of_elements, min(12, g.number_of_elements), replace=False):
            tri = [ev[:, ee[i, k]] for i in range(3)]
            for c in range(per):
                for i in range(3):
                    if not bary_inside(cv[:, ce[i, per * k + c]], tri):
                        bad("Grid.%s:not-nested" % kind, "child vertex outside its parent", element=int(k))
    # union
    counter[0] += 1
    v2, e2 = M.tetrahedron()
    from bempp_cl.api import Grid
    h = Grid(v2 + 5.0, e2, np.array([3, 3, 7, 7], dtype="uint32"))
    for swapped in (None, [False, True], [True, True]):
        for norm in (True, False):
            u = union([g, h], swapped_normals=swapped, normalize_domain_indices=norm)
            U = area_vec(u)
            sw = swapped or [False, False]
            want = np.vstack([A * (-1 if sw[0] else 1), area_vec(h) * (-1 if sw[1] else 1)])
            if U.shape != want.shape or np.max(np.abs(U - want)) > 1e-12 * (1 + np.max(np.abs(want))):
                bad("grid.union:area-or-orientation", "union does not keep / reverse the area vectors", swapped=swapped)
            d = u.domain_indices.astype(np.int64)
            d1, d2 = d[: g.number_of_elements], d[g.number_of_elements:]
            # same partition into domains inside each part, and the two parts use disjoint indices
            for dd, orig in ((d1, g.domain_indices), (d2, h.domain_indices)):
                m1 = {}
                for x, y in zip(orig, dd):
                    if m1.setdefault(int(x), int(y)) != int(y):
                        bad("grid.union:domain-partition", "one input domain is split by the union", normalize=norm)
                if len(set(m1.values())) != len(m1):
                    bad("grid.union:domain-partition", "two input domains are merged by the union", normalize=norm)
            if set(d1) & set(d2):
                bad("grid.union:domain-overlap", "domain indices of two grids overlap in the union", normalize=norm)
            if norm and sorted(set(d)) != list(range(len(set(d)))):
                bad("grid.union:not-normalised", "normalised domain indices are not 0..N-1")
    u = union([g, h], domain_indices=[4, 9])
    if not (np.all(u.domain_indices[: g.number_of_elements] == 4) and np.all(u.domain_indices[g.number_of_elements:] == 9)):
        bad("grid.union:given-domain-indices", "explicit domain indices not attached")
    # segments
    counter[0] += 1
    doms = sorted(set(int(x) for x in g.domain_indices))
    for segs in ([doms[0]], doms[-1:], doms[: max(1, len(doms) // 2)]):
        s = grid_from_segments(g, segs)
        sel = np.isin(g.domain_indices, segs)
        if s.number_of_elements != int(sel.sum()):
            bad("grid_from_segments:selection", "wrong elements selected", segs=segs)
            continue
        if np.max(np.abs(area_vec(s) - A[sel])) > 1e-12 * (1 + np.max(np.abs(A))):
            bad("grid_from_segments:geometry", "selected elements changed geometry or order", segs=segs)
        if not np.array_equal(s.domain_indices, g.domain_indices[sel]):
            bad("grid_from_segments:domain-indices", "domain indices not preserved", segs=segs)
        used = np.unique(s.elements)
        if len(used) != s.number_of_vertices or len(used) != len(np.unique(g.elements[:, sel])):
            bad("grid_from_segments:vertices", "vertices not compacted injectively", segs=segs)
        sv, se = s.vertices, s.elements.astype(np.int64)
        gv, ge = g.vertices, g.elements[:, sel].astype(np.int64)
        if not np.array_equal(sv[:, se], gv[:, ge]):
            bad("grid_from_segments:vertex-map", "element vertices moved", segs=segs)


def run_search(rng, thorough, out):
    from bempp_cl.api import Grid
    fails = out["failures"]
    counter = [0]
    meshes = [("octahedron", M.octahedron()), ("cube12", M.cube12()), ("lshape", M.lshape_prism()),
              ("screen5", M.screen(5)), ("sphere2", M.sphere(2)), ("torus8x6", M.torus(8, 6)),
              ("two_components", M.two_components())]
    if thorough:
        meshes += [("sphere3", M.sphere(3)), ("torus16x10", M.torus(16, 10)), ("screen9x4", M.screen(9, 4))]
    # a non-manifold one: three screens glued along one line
    v, e = M.screen(3, 2)
    # second flap: rotate rows j>=1 out of the plane, sharing the row j=0 vertices (indices 0..3)
    flap = v.copy()
    flap[2, :] = flap[1, :]
    flap[1, :] = 0
    e_flap = e.astype(np.int64).copy()
    nvv = v.shape[1]
    remap = np.arange(nvv)
    remap[4:] = np.arange(nvv, nvv + nvv - 4)
    vv = np.hstack([v, flap[:, 4:]])
    ee = np.hstack([e.astype(np.int64), remap[e_flap]])
    meshes.append(("T-junction", (vv, ee.astype("uint32"))))
    # unused vertices at the front, in the middle and at the end; a few elements over a full vertex array
    v, e = M.screen(3)
    pad = rng.uniform(5, 6, size=(3, 2))
    nvs = v.shape[1]
    vpad = np.hstack([pad, v[:, :nvs // 2], pad + 1, v[:, nvs // 2:], pad + 2])
    ei = e.astype(np.int64)
    epad = np.where(ei < nvs // 2, ei + 2, ei + 4)
    meshes.append(("screen3+unused-vertices-front-middle-end", (vpad, epad.astype("uint32"))))
    v, e = M.sphere(2)
    meshes.append(("sphere2-first-20-elements-over-all-vertices", (v, e[:, :20].copy())))
    v, e = M.octahedron()
    meshes.append(("octahedron-top-half-last-vertex-unused", (v, e[:, :4].copy())))
    reps = 3 if thorough else 1
    for name, (v, e) in meshes:
        for r in range(reps):
            vr, er = (v, e) if r == 0 else M.relabel(M.affine(v, rng), e, rng)
            dom = rng.integers(0, 3, size=er.shape[1]).astype("uint32")
            dom[0] = 0
            if r == 0:
                vr = M.affine(vr, rng)
            try:
                g = Grid(vr, er, dom)
                check_grid_relations(g, name, fails, counter)
                check_derived(g, name, fails, counter, rng)
            except Exception as ex:
                import traceback
                fails.append({"signature": "Grid:exception-on-valid-mesh", "what": "%s on %s: %s" % (
                    type(ex).__name__, name, traceback.format_exc()[-600:]), "data": {"mesh": name}})
    check_multi_union(rng, fails, counter)
    out["search_evals"] = counter[0]


def recheck_cases(cfg, rng, out):
    """Evaluate the property predicates on exactly the cases on which library and model disagreed."""
    from bempp_cl.api import Grid
    from bempp_cl.api.grid.grid import union
    import warnings
    counter = [0]
    fails = out["failures"]

    def q(p):
        return p[0] / p[1]
    for c in cfg.get("union_cases", []):
        gs = []
        for k, gi in enumerate(c["grids"]):
            e = np.array(gi["els"], dtype="uint32").T
            gs.append(Grid(general_coords(gi["nv"], rng) + 20.0 * k, e, np.array(gi["dom"], dtype="uint32")))
        kw = {"normalize_domain_indices": c["mode"] == 0}
        if c["given"] is not None:
            kw = {"domain_indices": c["given"]}
        with warnings.catch_warnings():
            warnings.simplefilter("ignore")
            u = union(gs, swapped_normals=c["swapped"], **kw)
        counter[0] += 1
        check_union_property(gs, u, c["swapped"], c["mode"], c["given"], "replayed union case", fails)
    for c in cfg.get("derived_cases", []) + cfg.get("geom_cases", []):
        v = np.array([[q(x) for x in col] for col in c["vs"]]).T
        e = np.array(c["els"], dtype="uint32").T
        g, kind, name = try_grid(v, e, np.array(c["dom"], dtype="uint32") if "dom" in c else None)
        if g is None:
            continue
        check_grid_relations(g, "replayed grid %s" % c["els"], fails, counter)
        if "dom" in c:
            check_derived(g, "replayed grid %s" % c["els"], fails, counter, rng)
    out["search_evals"] += counter[0]


def main():
    cfg = json.load(sys.stdin)
    thorough = cfg.get("strength") == "thorough"
    parts = cfg.get("parts") or ["topo", "geom", "derived", "search"]
    rng = np.random.default_rng(int(os.environ.get("VERIF_SEED", "0")))
    out = {"failures": [], "search_evals": 0}
    def guarded(name, fn, *a):
        """No entry point may crash: an exception coming out of the library on valid input is a failing input, an
        exception of the harness itself is reported to the driver as a harness error."""
        import traceback
        try:
            fn(*a)
        except Exception as ex:
            tb = traceback.format_exc()
            in_lib = "bempp_cl" in tb.split("c11_impl.py")[-1]
            if in_lib:
                out["failures"].append({"signature": "Grid:raises-on-valid-input",
                                        "what": "%s in part %s: %s" % (type(ex).__name__, name, tb[-500:]), "data": {"part": name}})
            else:
                out.setdefault("errors", []).append("part %s: %s" % (name, tb[-800:]))
    if "topo" in parts:
        guarded("topo", run_topo, rng, thorough, out)
    if "geom" in parts:
        guarded("geom", run_geom, rng, thorough, out)
    if "derived" in parts:
        guarded("derived", run_derived, rng, thorough, out)
    if "search" in parts:
        guarded("search", run_search, rng, thorough, out)
    if "recheck" in parts:
        guarded("recheck", recheck_cases, cfg, rng, out)
    if "recheck" in parts:
        # the relations of the search on explicitly given element lists (replays, correspondence disagreements)
        counter = [0]
        for gi in cfg.get("grids", []):
            e = np.array(gi["els"], dtype="int64").T
            nv = gi.get("nv") or int(e.max()) + 1
            g, kind, name = try_grid(general_coords(nv, rng), e.astype("uint32"))
            if g is None:
                continue
            dup = len({frozenset(c) for c in gi["els"]}) != len(gi["els"]) or any(len(set(c)) < 3 for c in gi["els"])
            report_layout(g, gi["els"], nv, out["failures"], "replayed element list")
            if not dup and not layout_problems(g):
                try:
                    check_grid_relations(g, "replayed element list %s" % gi["els"], out["failures"], counter)
                except Exception as ex:
                    out["failures"].append({"signature": "Grid:raises-on-valid-input", "what": "%s on replayed element list" %
                                            type(ex).__name__, "data": {"els": gi["els"], "nv": nv}})
                for f in out["failures"]:
                    f["data"]["els"] = gi["els"]
                    f["data"]["nv"] = nv
        out["search_evals"] += counter[0]
    print("@@JSON " + json.dumps(out))


if __name__ == "__main__":
    main()
