"""C08 implementation side.

correspondence: (a) translator self-test of the regular (= potential) and far-field kernels; (b) every scalar potential /
far-field operator value equals the sum  sum_q w_q J f(y_q) K(x, y_q)  over the library's own quadrature points with K the
*translated* kernel (IR) that select_numba_kernels(mode="potential") names -- ties the Coq kernels to what the API uses.
search: finite-difference PDE residuals, closed-form kernel sums, far-field asymptotics and the translation law, for
real and complex wavenumbers and real and complex densities.

payload: {"job": "scalar" | "maxwell", "strength", "numba": IR, "table": factories}
"""
import cmath
import math
import os
import time
import traceback

import numpy as np

import kernel_ir as K

PI4 = 4 * math.pi
SIG_FF = "C08 far_field.helmholtz.%s ignores imag(k): value is not the far field for complex k"


def exc_name(e):
    return type(e).__name__ + ": " + str(e)[:80]


def check(res, ok, signature, what, data):
    res["search"]["evaluations"] += 1
    if not ok:
        if sum(1 for f in res["failures"] if f["signature"] == signature) < 3:
            res["failures"].append({"signature": signature, "what": what, "data": data})
    return ok


def quad_data(grid, space, order):
    """Library quadrature points on the support, weights*J, normals, element index per point."""
    from bempp_cl.api.integration.triangle_gauss import rule
    pts, w = rule(order)
    els = list(space.support_elements)
    gp, ww, nn, ee, loc = [], [], [], [], []
    for e in els:
        v = grid.vertices[:, grid.elements[:, e]]
        g = v[:, [0]] + (v[:, [1]] - v[:, [0]]) * pts[0] + (v[:, [2]] - v[:, [0]]) * pts[1]
        gp.append(g)
        ww.append(w * grid.integration_elements[e])
        nn.append(np.repeat((grid.normals[e] * space.normal_multipliers[e])[:, None], len(w), axis=1))
        ee += [e] * len(w)
        loc.append(pts)
    return np.hstack(gp), np.hstack(ww), np.hstack(nn), np.array(ee), np.hstack(loc)


def density_at(space, coef, ee, loc):
    """Value of the (scalar) grid function at the quadrature points, from the space's own local2global / multipliers."""
    vals = np.zeros(len(ee), dtype=complex)
    sh = np.asarray(space.shapeset.evaluate(loc))          # (1, nfun, npts)
    for i, e in enumerate(ee):
        for f in range(space.number_of_shape_functions):
            vals[i] += sh[0, f, i] * coef[space.local2global[e, f]] * space.local_multipliers[e, f]
    return vals


def closed_form(kind, family, x, y, ny, k):
    """Textbook kernels (independent of the translated ones). k complex (Helmholtz), w = k real (modified)."""
    d = y - x
    r = float(np.linalg.norm(d))
    if family == "laplace":
        g, dg = 1 / (PI4 * r), -1 / (PI4 * r * r)
    elif family == "helmholtz":
        g = cmath.exp(1j * k * r) / (PI4 * r)
        dg = (1j * k * r - 1) * cmath.exp(1j * k * r) / (PI4 * r * r)
    else:
        g = math.exp(-k.real * r) / (PI4 * r)
        dg = -(k.real * r + 1) * math.exp(-k.real * r) / (PI4 * r * r)
    if kind == "single_layer":
        return g
    return dg * float(np.dot(d, ny)) / r            # d/dn_y g(|x - y|)


BATCHES = (1, 2, 3, 4, 5)


def batch_sweep(res, label, make_op, evaluate, points, reference=None, tol=1e-11):
    """Evaluate one factory with the first n columns of `points` (3 x 5, not symmetric) for n = 1..5: the value at column j
    must not depend on the batch it is evaluated in (reference = the single-column (3,1) call) and, if given, must equal
    reference(j) computed independently."""
    single = [np.asarray(evaluate(make_op(np.ascontiguousarray(points[:, [j]])))) for j in range(points.shape[1])]
    scale = max(float(np.max(np.abs(v))) for v in single) + 1e-300
    for j, v in enumerate(single):
        if reference is not None:
            r = reference(j)
            check(res, float(np.max(np.abs(v[:, 0] - r))) <= tol * scale,
                  "C08 %s: single evaluation point given as a (3,1) array gives a wrong value" % label,
                  "value for one point / direction differs from the independent kernel sum",
                  {"point": points[:, j].tolist(), "api": [[z.real, z.imag] for z in np.atleast_1d(v[:, 0]).astype(complex)],
                   "reference": [[z.real, z.imag] for z in np.atleast_1d(r).astype(complex)]})
    for nb_ in BATCHES:
        vals = np.asarray(evaluate(make_op(np.ascontiguousarray(points[:, :nb_]))))
        ok = vals.shape[1] == nb_ and all(
            float(np.max(np.abs(vals[:, j] - single[j][:, 0]))) <= tol * scale for j in range(nb_))
        worst = max([float(np.max(np.abs(vals[:, j] - single[j][:, 0]))) for j in range(min(nb_, vals.shape[1]))] + [0.0])
        check(res, ok, "C08 %s: value depends on the number of evaluation points (batch of %d)" % (label, nb_),
              "evaluating %d points / directions at once gives different values than evaluating them one by one" % nb_,
              {"points": points[:, :nb_].tolist(), "batch_size": nb_, "max_abs_difference": worst, "scale": scale,
               "batch_values": [[[z.real, z.imag] for z in row] for row in np.asarray(vals).astype(complex)][:3]})


def job_scalar(pl, res, rng):
    import bempp_cl.api as api
    from bempp_cl.api.operators import potential, far_field
    strength = pl["strength"]
    nb = pl["numba"]
    corr = res["corr"]
    a = np.array([[1.0, 0.25, 0.0], [0.0, 0.8, 0.125], [0.0, 0.0, 0.625]])
    # non-uniform triangle areas; segment 2 = elements {1,2,4,5,6,7}: not a prefix of the element list, not contiguous
    SEG = [1, 2, 2, 1, 2, 2, 2, 2]
    grids = [("octahedron-distorted", K.octahedron(distort=a, domain_indices=SEG))]
    if strength == "thorough":
        grids += [("screen-2x2", K.screen(2)), ("octahedron-segment", K.octahedron(domain_indices=[0, 0, 1, 1, 0, 2, 2, 1]))]
    order = api.GLOBAL_PARAMETERS.quadrature.regular
    table = {(f["package"], f["module"], f["name"]): f for f in (pl.get("table") or [])}
    regular = nb["tables"]["kernel_functions_regular"] if nb else {}
    builders = {
        # P1 on the non-prefix segment, boundary dofs dropped: local multipliers 0/1, support_elements[i] != i
        "P1-segment[2]": lambda g: api.function_space(g, "P", 1, segments=[2]),
        "DP0": lambda g: api.function_space(g, "DP", 0),
        "P1": lambda g: api.function_space(g, "P", 1),
        "DP0-segment[2]": lambda g: api.function_space(g, "DP", 0, segments=[2]),
        "DP1-segment[2]": lambda g: api.function_space(g, "DP", 1, segments=[2]),
        "DP0-segment[1]": lambda g: api.function_space(g, "DP", 0, segments=[1]),
    }
    for gname, grid in grids:
        if gname == "octahedron-distorted":
            names = ["P1-segment[2]"] + (["DP0", "P1", "DP0-segment[2]", "DP1-segment[2]"] if strength == "thorough" else [])
        elif gname == "octahedron-segment":
            names = ["DP0", "DP0-segment[1]"]
        else:
            names = ["DP0", "P1"]
        spaces = [(n, builders[n](grid)) for n in names]
        v = grid.vertices
        D = float(np.max(np.linalg.norm(v[:, :, None] - v[:, None, :], axis=0)))
        centre = v.mean(axis=1)
        dirs = np.array([K.unit(rng.normal(size=3)) for _ in range(4)]).T
        radii = np.array([0.5, 1.0, 3.0, 1.3]) * D + D
        pts = centre[:, None] + dirs * radii
        h = 1e-3
        stencil = [pts]
        for i in range(3):
            e = np.zeros((3, 1))
            e[i] = h
            stencil += [pts + e, pts - e]
        allpts = np.hstack(stencil)
        npt = pts.shape[1]
        for sname, sp in spaces:
            gp, ww, nn, ee, loc = quad_data(grid, sp, order)
            coefs = [("real", rng.uniform(-1, 1, sp.global_dof_count)),
                     ("complex", rng.uniform(-1, 1, sp.global_dof_count) + 1j * rng.uniform(-1, 1, sp.global_dof_count))]
            if strength == "quick":
                coefs = coefs[1:]
            cases = [("laplace", None), ("modified_helmholtz", 1.3 / D), ("helmholtz", 2.2 / D + 0j),
                     ("helmholtz", 1.7 / D + 0.6j / D)]
            if strength == "thorough":
                cases += [("helmholtz", -1.1 / D + 0.2j / D), ("modified_helmholtz", 0.05 / D)]
            for family, k in cases:
                for kind in ("single_layer", "double_layer"):
                    mod = getattr(potential, family)
                    args = (sp, allpts) + (() if k is None else (k,) if family == "helmholtz" else (float(np.real(k)),))
                    try:
                        op = getattr(mod, kind)(*args)
                    except Exception as e:
                        check(res, False, "C08 potential.%s.%s cannot be constructed" % (family, kind),
                              "potential operator construction raised", {"exception": exc_name(e), "k": str(k)})
                        continue
                    kc = complex(k) if k is not None else 0j
                    for cname, coef in coefs:
                        tag = "%s %s %s.%s k=%s %s density" % (gname, sname, family, kind, k, cname)
                        u = np.asarray(op.evaluate(api.GridFunction(sp, coefficients=coef)))[0]
                        dens = density_at(sp, coef, ee, loc) * ww
                        scale = float(np.max(np.abs(u[:npt]))) + 1e-300
                        # (b) correspondence: translated kernel summed over the library's quadrature points
                        if nb:
                            kt = table[("potential", family, kind)]["kernel_type"] if table else "%s_%s" % (family, kind)
                            info = nb["kernels"][regular[kt]]
                            p = (kc.real, kc.imag) if family == "helmholtz" else (kc.real, 0.0)
                            for j in range(npt):
                                s = 0j
                                for q in range(gp.shape[1]):
                                    env = K.env_of(pts[:, j], gp[:, q], (0, 0, 0), nn[:, q], p)
                                    s += complex(K.ev(info["re"], env)[0], K.ev(info["im"], env)[0]) * dens[q]
                                corr["evaluations"] += 1
                                corr["nontrivial"] += 1 if abs(u[j]) > 0 else 0
                                corr["hist"]["potential = translated-kernel sum"] = corr["hist"].get(
                                    "potential = translated-kernel sum", 0) + 1
                                if not abs(s - u[j]) <= 1e-11 * scale:
                                    corr["disagreements"].append({
                                        "kind": "kernel-sum", "what": "potential value differs from the sum of the translated "
                                        "kernel over the library's quadrature points: " + tag,
                                        "data": {"point": pts[:, j].tolist(), "api": [u[j].real, u[j].imag], "model": [s.real, s.imag]}})
                                elif len(corr["samples"]) < 5 and j == 0:
                                    corr["samples"].append({"case": tag, "point": pts[:, 0].tolist(), "api": [u[0].real, u[0].imag]})
                        # search 1: closed-form kernel sum
                        for j in range(npt):
                            s = sum(closed_form(kind, family, pts[:, j], gp[:, q], nn[:, q], kc) * dens[q]
                                    for q in range(gp.shape[1]))
                            check(res, abs(s - u[j]) <= 1e-11 * scale,
                                  "C08 potential.%s.%s != closed-form kernel sum" % (family, kind),
                                  "potential value differs from the closed-form kernel sum over the library's quadrature points",
                                  {"case": tag, "point": pts[:, j].tolist(), "api": [u[j].real, u[j].imag], "sum": [s.real, s.imag]})
                        # search 2: PDE by finite differences
                        lap = -6 * u[:npt]
                        for i in range(6):
                            lap = lap + u[(1 + i) * npt:(2 + i) * npt]
                        lap = lap / h ** 2
                        k2 = {"laplace": 0, "helmholtz": kc * kc, "modified_helmholtz": -kc.real ** 2}[family]
                        resid = np.abs(lap + k2 * u[:npt])
                        dist = radii - D * 0.7
                        ref = np.abs(u[:npt]) * (1 / dist ** 2 + abs(k2)) + scale * 1e-3
                        worst = float(np.max(resid / ref))
                        res["search"]["worst"]["pde " + family + " " + kind] = max(
                            res["search"]["worst"].get("pde " + family + " " + kind, 0.0), round(worst, 6))
                        check(res, worst <= 1e-4, "C08 potential.%s.%s violates its PDE" % (family, kind),
                              "finite-difference residual of the PDE is too large away from the surface",
                              {"case": tag, "worst_relative_residual": worst})
            # ---------------- batch-size sweep: every scalar potential and far-field factory ---------------------------
            if sname == names[0]:
                cf = api.GridFunction(sp, coefficients=rng.uniform(-1, 1, sp.global_dof_count) + 1j * rng.uniform(-1, 1, sp.global_dof_count))
                dens_b = density_at(sp, cf.coefficients, ee, loc) * ww
                bpts = centre[:, None] + np.array([[1.9, 0.3, -0.2], [-0.4, 2.2, 0.7], [0.5, -0.6, 2.4], [-1.7, -1.1, 0.9],
                                                   [0.8, 1.3, -2.1]]).T * D
                bdir = np.array([K.unit(np.array(v_)) for v_ in ([1.0, 0.2, -0.3], [-0.4, 1.0, 0.5], [0.3, -0.7, 1.0],
                                                                 [-1.0, -0.6, 0.2], [0.1, 0.9, -1.0])]).T
                kb = 1.4 / D + 0j
                for family, karg in (("laplace", ()), ("modified_helmholtz", (1.1 / D,)), ("helmholtz", (kb,))):
                    for kind in ("single_layer", "double_layer"):
                        kc_ = complex(karg[0]) if karg else 0j
                        batch_sweep(res, "potential.%s.%s" % (family, kind),
                                    lambda P, fam=family, kd=kind, ka=karg: getattr(getattr(potential, fam), kd)(sp, P, *ka),
                                    lambda op: op.evaluate(cf), bpts,
                                    reference=lambda j, fam=family, kd=kind, kc2=kc_: np.array([sum(
                                        closed_form(kd, fam, bpts[:, j], gp[:, q], nn[:, q], kc2) * dens_b[q]
                                        for q in range(gp.shape[1]))]))
                for kind in ("single_layer", "double_layer"):
                    def ff_ref(j, kd=kind):
                        tot = 0j
                        for q in range(gp.shape[1]):
                            e_ = cmath.exp(-1j * kb * float(np.dot(bdir[:, j], gp[:, q]))) / PI4
                            tot += (e_ if kd == "single_layer" else -1j * kb * float(np.dot(bdir[:, j], nn[:, q])) * e_) * dens_b[q]
                        return np.array([tot])
                    batch_sweep(res, "far_field.helmholtz.%s" % kind,
                                lambda P, kd=kind: getattr(far_field.helmholtz, kd)(sp, P, kb),
                                lambda op: op.evaluate(cf), bdir, reference=ff_ref)
            # ---------------- far field -------------------------------------------------------------------------------
            xhat = np.array([K.unit(rng.normal(size=3)) for _ in range(5)]).T
            tvec = np.array([0.3, -0.2, 0.45]) * D
            coef = rng.uniform(-1, 1, sp.global_dof_count) + 1j * rng.uniform(-1, 1, sp.global_dof_count)
            gt = api.Grid(grid.vertices + tvec[:, None], grid.elements, grid.domain_indices)
            spt = builders[sname](gt)
            dens = density_at(sp, coef, ee, loc) * ww
            for k in (2.2 / D + 0j, 1.7 / D + 0.6j / D, 0.9 / D + 0j):
                for kind in ("single_layer", "double_layer"):
                    tag = "%s %s far_field.%s k=%s" % (gname, sname, kind, k)
                    ff = np.asarray(getattr(far_field.helmholtz, kind)(sp, xhat, k).evaluate(
                        api.GridFunction(sp, coefficients=coef)))[0]
                    scale = float(np.max(np.abs(ff))) + 1e-300
                    info = nb["kernels"][regular["helmholtz_far_field_" + kind]] if nb else None
                    for j in range(xhat.shape[1]):
                        # correspondence with the translated far-field kernel
                        if info is not None:
                            s = 0j
                            for q in range(gp.shape[1]):
                                env = K.env_of(xhat[:, j], gp[:, q], (0, 0, 0), nn[:, q], (k.real, k.imag))
                                s += complex(K.ev(info["re"], env)[0], K.ev(info["im"], env)[0]) * dens[q]
                            corr["evaluations"] += 1
                            corr["nontrivial"] += 1
                            corr["hist"]["far field = translated-kernel sum"] = corr["hist"].get(
                                "far field = translated-kernel sum", 0) + 1
                            if not abs(s - ff[j]) <= 1e-11 * scale:
                                corr["disagreements"].append({
                                    "kind": "kernel-sum", "what": "far-field value differs from the translated-kernel sum: " + tag,
                                    "data": {"direction": xhat[:, j].tolist(), "api": [ff[j].real, ff[j].imag], "model": [s.real, s.imag]}})
                        # closed form  exp(-i k xhat.y)/(4 pi)  and its normal derivative  -i k (xhat.n) exp(-i k xhat.y)/(4 pi)
                        s = 0j
                        for q in range(gp.shape[1]):
                            e = cmath.exp(-1j * k * float(np.dot(xhat[:, j], gp[:, q]))) / PI4
                            s += (e if kind == "single_layer" else -1j * k * float(np.dot(xhat[:, j], nn[:, q])) * e) * dens[q]
                        sig = SIG_FF % kind if k.imag != 0 else "C08 far_field.helmholtz.%s != closed-form kernel sum (real k)" % kind
                        check(res, abs(s - ff[j]) <= 1e-11 * scale, sig,
                              "far-field value differs from the closed-form far-field kernel sum exp(-ik xhat.y)/(4 pi)",
                              {"case": tag, "direction": xhat[:, j].tolist(), "api": [ff[j].real, ff[j].imag], "closed_form": [s.real, s.imag]})
                    # translation law
                    fft = np.asarray(getattr(far_field.helmholtz, kind)(spt, xhat, k).evaluate(
                        api.GridFunction(spt, coefficients=coef)))[0]
                    want = np.array([cmath.exp(-1j * k * float(np.dot(xhat[:, j], tvec))) for j in range(xhat.shape[1])]) * ff
                    sig = SIG_FF % kind if k.imag != 0 else "C08 far_field.helmholtz.%s violates the translation law (real k)" % kind
                    check(res, float(np.max(np.abs(fft - want))) <= 1e-10 * scale * math.exp(abs(k.imag) * D), sig,
                          "translating the grid by t does not multiply the far field by exp(-i k xhat.t)",
                          {"case": tag, "t": tvec.tolist(), "maxdiff": float(np.max(np.abs(fft - want))), "scale": scale})
                    # far field = lim r exp(-ikr) potential(r xhat)
                    errs = []
                    rs = (1e3 * D, 1e4 * D) if k.imag == 0 else (20 * D, 80 * D)
                    for r in rs:
                        up = np.asarray(getattr(potential.helmholtz, kind)(sp, r * xhat, k).evaluate(
                            api.GridFunction(sp, coefficients=coef)))[0]
                        errs.append(float(np.max(np.abs(r * cmath.exp(-1j * k * r) * up - ff))) / scale)
                    res["search"]["worst"]["far-field limit %s k=%s" % (kind, k)] = [round(e, 8) for e in errs]
                    sig = SIG_FF % kind if k.imag != 0 else "C08 far_field.helmholtz.%s is not the limit of r exp(-ikr) potential (real k)" % kind
                    ratio = rs[1] / rs[0]
                    bound = 3.0 * (1 + abs(k) * D) * D / rs[1]
                    check(res, errs[1] <= bound and errs[1] <= errs[0] * 2.5 / ratio + 1e-9, sig,
                          "r exp(-ikr) u(r xhat) does not approach the far-field value like 1/r",
                          {"case": tag, "radii": list(rs), "relative_errors": errs, "bound_at_larger_radius": bound})


def rwg_densities(grid, space, coef, order):
    """Independent recomputation of what the Maxwell potential assemblers accumulate per quadrature point:
    y_q, v_q = sum_f w_q x_{e,f} |edge_f| J_e phihat_f(q)  (Piola-mapped RWG basis times the integration element), and
    s_q = sum_f 2 w_q x_{e,f} |edge_f|  (divergence), with x_{e,f} = coef[local2global[e,f]] * local_multipliers[e,f]."""
    from bempp_cl.api.integration.triangle_gauss import rule
    pts, w = rule(order)
    ref = [np.vstack((pts[0], pts[1] - 1)), np.vstack((pts[0] - 1, pts[1])), np.vstack((pts[0], pts[1]))]
    gp, vv, ss = [], [], []
    for e in space.support_elements:
        vt = grid.vertices[:, grid.elements[:, e]]
        jac = np.column_stack((vt[:, 1] - vt[:, 0], vt[:, 2] - vt[:, 0]))
        lens = [np.linalg.norm(vt[:, 0] - vt[:, 1]), np.linalg.norm(vt[:, 2] - vt[:, 0]), np.linalg.norm(vt[:, 1] - vt[:, 2])]
        gp.append(vt[:, [0]] + jac @ pts)
        v = np.zeros((3, len(w)), dtype=complex)
        sdiv = np.zeros(len(w), dtype=complex)
        for f in range(3):
            x = coef[space.local2global[e, f]] * space.local_multipliers[e, f]
            v += (w * x * lens[f])[None, :] * (jac @ ref[f])
            sdiv += 2 * w * x * lens[f]
        vv.append(v)
        ss.append(sdiv)
    return np.hstack(gp), np.hstack(vv), np.hstack(ss)


def job_maxwell(pl, res, rng):
    """Maxwell potentials and far fields on an RWG space restricted to a non-prefix segment of a non-uniform mesh.
    correspondence: API value = sum over the library's quadrature points of the *translated* integrand (gen/MaxwellIntegrands.v)
    with the translated Helmholtz / far-field kernel value.  search: curl E = ik H, div H = 0 by finite differences; curl H =
    -ik E, div E = 0 as decay with the regular order (thorough); far-field translation law."""
    import bempp_cl.api as api
    from bempp_cl.api.operators import potential, far_field
    strength = pl["strength"]
    nb, mx = pl.get("numba"), pl.get("maxwell")
    corr = res["corr"]
    a = np.array([[1.0, 0.25, 0.0], [0.0, 0.8, 0.125], [0.0, 0.0, 0.625]])
    SEG = [1, 2, 2, 1, 2, 2, 2, 2]
    grid = K.octahedron(distort=a, domain_indices=SEG)
    builders = {"RWG-segment[2]": lambda g: api.function_space(g, "RWG", 0, segments=[2]),
                "RWG-segment[2]+boundary": lambda g: api.function_space(g, "RWG", 0, segments=[2], include_boundary_dofs=True),
                "RWG": lambda g: api.function_space(g, "RWG", 0)}
    names = ["RWG-segment[2]"] + (["RWG-segment[2]+boundary", "RWG"] if strength == "thorough" else [])
    order0 = api.GLOBAL_PARAMETERS.quadrature.regular
    pts = np.array([[2.0, 0.3, 0.4], [0.2, -2.5, 1.0], [-1.0, 1.0, 3.0]]).T
    h = 1e-3
    sten = [pts]
    for i in range(3):
        e = np.zeros((3, 1))
        e[i] = h
        sten += [pts + e, pts - e]
    sten = np.hstack(sten)
    n = pts.shape[1]
    xhat = np.array([K.unit(rng.normal(size=3)) for _ in range(3)]).T
    tvec = np.array([0.3, -0.2, 0.45])
    gt = api.Grid(grid.vertices + tvec[:, None], grid.elements, grid.domain_indices)

    def d(F, comp, i):
        return (F[comp, (1 + 2 * i) * n:(2 + 2 * i) * n] - F[comp, (2 + 2 * i) * n:(3 + 2 * i) * n]) / (2 * h)

    def curl(F):
        return np.array([d(F, 2, 1) - d(F, 1, 2), d(F, 0, 2) - d(F, 2, 0), d(F, 1, 0) - d(F, 0, 1)])

    def div(F):
        return d(F, 0, 0) + d(F, 1, 1) + d(F, 2, 2)

    def model_sum(assembler, kernel_name, x, gp, vv, ss, k):
        """sum_q integrand(x, y_q, G(x,y_q), v_q, s_q, k) with the translated integrand and kernel"""
        kin = nb["kernels"][kernel_name]
        out = np.zeros(3, dtype=complex)
        for q in range(gp.shape[1]):
            env = K.env_of(x, gp[:, q], (0, 0, 0), (0, 0, 0), (k.real, k.imag))
            env.update({"Gre": K.ev(kin["re"], env)[0], "Gim": K.ev(kin["im"], env)[0],
                        "qr": ss[q].real, "qi": ss[q].imag})
            for c in range(3):
                env["v%dr" % c], env["v%di" % c] = vv[c, q].real, vv[c, q].imag
            for c in range(3):
                out[c] += complex(K.ev(mx[assembler][c][0], env)[0], K.ev(mx[assembler][c][1], env)[0])
        return out

    for sname in names:
        sp = builders[sname](grid)
        spt = builders[sname](gt)
        nd = sp.global_dof_count
        coef = rng.uniform(-1, 1, nd) + 1j * rng.uniform(-1, 1, nd)
        f = api.GridFunction(sp, coefficients=coef)
        # the harness's own local coefficients must agree with the library's map to the full grid
        xlib = np.asarray(sp.map_to_full_grid @ (sp.dof_transformation @ coef)).ravel()
        xown = np.zeros(3 * grid.number_of_elements, dtype=complex)
        for e in sp.support_elements:
            for fi in range(3):
                xown[3 * e + fi] = coef[sp.local2global[e, fi]] * sp.local_multipliers[e, fi]
        check(res, float(np.max(np.abs(xlib - xown))) <= 1e-14, "C08 harness: local RWG coefficients differ from map_to_full_grid",
              "local2global/local_multipliers and map_to_full_grid @ dof_transformation disagree",
              {"space": sname, "maxdiff": float(np.max(np.abs(xlib - xown)))})
        for k in (1.3 + 0j, 0.9 + 0.4j):
            orders = (order0,) if strength == "quick" else (3, 6, 9)
            r_ibp = {}
            for order in orders:
                par = api.utils.parameters.DefaultParameters()
                par.quadrature.regular = order
                E = np.asarray(potential.maxwell.electric_field(sp, sten, k, parameters=par).evaluate(f))
                H = np.asarray(potential.maxwell.magnetic_field(sp, sten, k, parameters=par).evaluate(f))
                E0, H0 = E[:, :n], H[:, :n]
                scale = float(max(np.abs(E0).max(), np.abs(H0).max()))
                tag = "octahedron-distorted %s k=%s regular order %d" % (sname, k, order)
                if nb and mx and order == orders[0]:
                    gp, vv, ss = rwg_densities(grid, sp, coef, order)
                    for nm, api_vals, asm in (("electric_field", E0, "maxwell_efield_potential"),
                                              ("magnetic_field", H0, "maxwell_mfield_potential")):
                        for j in range(n):
                            m = model_sum(asm, "helmholtz_single_layer_regular", pts[:, j], gp, vv, ss, k)
                            corr["evaluations"] += 3
                            corr["nontrivial"] += int(np.sum(np.abs(api_vals[:, j]) > 0))
                            corr["hist"]["maxwell potential = translated-integrand sum"] = corr["hist"].get(
                                "maxwell potential = translated-integrand sum", 0) + 3
                            if not np.max(np.abs(m - api_vals[:, j])) <= 1e-11 * scale:
                                corr["disagreements"].append({
                                    "kind": "kernel-sum",
                                    "what": "potential.maxwell.%s differs from the sum of the translated integrand over the "
                                            "library's quadrature points: %s" % (nm, tag),
                                    "data": {"point": pts[:, j].tolist(), "api": [[z.real, z.imag] for z in api_vals[:, j]],
                                             "model": [[z.real, z.imag] for z in m]}})
                            elif j == 0 and len(corr["samples"]) < 6:
                                corr["samples"].append({"case": "potential.maxwell.%s %s" % (nm, tag),
                                                        "point": pts[:, 0].tolist(), "api": [[z.real, z.imag] for z in api_vals[:, 0]]})
                r1 = float(np.abs(curl(E) - 1j * k * H0).max()) / scale
                r2 = float(np.abs(div(H)).max()) / scale
                res["search"]["worst"]["maxwell curlE-ikH %s k=%s order %d" % (sname, k, order)] = round(r1, 9)
                check(res, r1 <= 1e-4, "C08 potential.maxwell: curl E != ik H", "finite-difference curl of the electric "
                      "potential differs from ik times the magnetic potential", {"case": tag, "relative_residual": r1})
                check(res, r2 <= 1e-4, "C08 potential.maxwell: div H != 0", "finite-difference divergence of the magnetic "
                      "potential is not zero", {"case": tag, "relative_residual": r2})
                r_ibp[order] = [float(np.abs(curl(H) + 1j * k * E0).max()) / scale, float(np.abs(div(E)).max()) / scale]
            # curl H = -ik E and div E = 0 rest on a surface integration by parts: only for div-conforming densities
            # (RWG with the half functions on the segment boundary kept is not div-conforming: line charges on the boundary)
            if sname.endswith("+boundary"):
                pass
            elif len(orders) == 3:
                res["search"]["worst"]["maxwell curlH+ikE, divE by regular order (3,6,9) %s k=%s" % (sname, k)] = [r_ibp[o] for o in orders]
                for j, nm in ((0, "curl H != -ik E"), (1, "div E != 0")):
                    a3, a9 = r_ibp[3][j], r_ibp[9][j]
                    check(res, a9 <= 0.5 * a3 + 1e-5 and a9 <= 2e-3, "C08 potential.maxwell: %s up to quadrature error" % nm,
                          "the residual does not decay with the regular quadrature order",
                          {"space": sname, "k": str(k), "relative_residual_orders_3_6_9": [r_ibp[o][j] for o in orders]})
            else:
                # one order only: the integration-by-parts relations hold up to the regular quadrature error (few percent)
                for j, nm in ((0, "curl H != -ik E"), (1, "div E != 0")):
                    check(res, r_ibp[order0][j] <= 0.2, "C08 potential.maxwell: %s up to quadrature error" % nm,
                          "the residual is far beyond the regular quadrature error",
                          {"space": sname, "k": str(k), "relative_residual": r_ibp[order0][j], "order": order0})
            # batch-size sweep for the four Maxwell factories (first space, first k)
            if sname == names[0] and k == 1.3 + 0j:
                bpts = np.array([[1.9, 0.3, -0.2], [-0.4, 2.2, 0.7], [0.5, -0.6, 2.4], [-1.7, -1.1, 0.9], [0.8, 1.3, -2.1]]).T
                bdir = np.array([K.unit(np.array(v_)) for v_ in ([1.0, 0.2, -0.3], [-0.4, 1.0, 0.5], [0.3, -0.7, 1.0],
                                                                 [-1.0, -0.6, 0.2], [0.1, 0.9, -1.0])]).T
                gpb, vvb, ssb = rwg_densities(grid, sp, coef, order0)
                for pkg, mod_, P_, kern, asms in (("potential", potential.maxwell, bpts, "helmholtz_single_layer_regular",
                                                   {"electric_field": "maxwell_efield_potential", "magnetic_field": "maxwell_mfield_potential"}),
                                                  ("far_field", far_field.maxwell, bdir, "helmholtz_far_field_single_layer",
                                                   {"electric_field": "maxwell_efield_far_field", "magnetic_field": "maxwell_mfield_far_field"})):
                    for nm, asm in asms.items():
                        ref = (lambda j, a_=asm, kn=kern, PP=P_: model_sum(a_, kn, PP[:, j], gpb, vvb, ssb, k)) if (nb and mx) else None
                        batch_sweep(res, "%s.maxwell.%s" % (pkg, nm), lambda P, m_=mod_, n_=nm: getattr(m_, n_)(sp, P, k),
                                    lambda op: op.evaluate(f), P_, reference=ref)
            # far fields: kernel-sum correspondence and translation law
            gp, vv, ss = rwg_densities(grid, sp, coef, order0)
            for nm, asm in (("electric_field", "maxwell_efield_far_field"), ("magnetic_field", "maxwell_mfield_far_field")):
                ff = np.asarray(getattr(far_field.maxwell, nm)(sp, xhat, k).evaluate(f))
                scale = float(np.abs(ff).max()) + 1e-300
                if nb and mx:
                    for j in range(xhat.shape[1]):
                        m = model_sum(asm, "helmholtz_far_field_single_layer", xhat[:, j], gp, vv, ss, k)
                        corr["evaluations"] += 3
                        corr["nontrivial"] += int(np.sum(np.abs(ff[:, j]) > 0))
                        corr["hist"]["maxwell far field = translated-integrand sum"] = corr["hist"].get(
                            "maxwell far field = translated-integrand sum", 0) + 3
                        if not np.max(np.abs(m - ff[:, j])) <= 1e-11 * scale:
                            corr["disagreements"].append({
                                "kind": "kernel-sum",
                                "what": "far_field.maxwell.%s differs from the sum of the translated integrand: %s k=%s" % (nm, sname, k),
                                "data": {"direction": xhat[:, j].tolist(), "api": [[z.real, z.imag] for z in ff[:, j]],
                                         "model": [[z.real, z.imag] for z in m]}})
                fft = np.asarray(getattr(far_field.maxwell, nm)(spt, xhat, k).evaluate(api.GridFunction(spt, coefficients=coef)))
                want = ff * np.array([cmath.exp(-1j * k * float(np.dot(xhat[:, j], tvec))) for j in range(xhat.shape[1])])[None, :]
                sig = ("C08 far_field.maxwell.%s ignores imag(k): translation law fails for complex k" % nm) if k.imag != 0 \
                    else "C08 far_field.maxwell.%s violates the translation law (real k)" % nm
                check(res, float(np.abs(fft - want).max()) <= 1e-10 * scale * math.exp(abs(k.imag) * 3), sig,
                      "translating the grid by t does not multiply the Maxwell far field by exp(-i k xhat.t)",
                      {"space": sname, "k": str(k), "maxdiff": float(np.abs(fft - want).max()), "scale": scale})


def main():
    pl = K.payload()
    rng = np.random.default_rng(int(os.environ.get("VERIF_SEED", "0")))
    res = {"corr": {"evaluations": 0, "nontrivial": 0, "disagreements": [], "hist": {}, "samples": []},
           "search": {"evaluations": 0, "worst": {}}, "failures": [], "notes": []}
    t0 = time.time()
    try:
        if pl["job"] == "scalar":
            if pl.get("numba"):
                def disagree(kind, what, data):
                    if len(res["corr"]["disagreements"]) < 40:
                        res["corr"]["disagreements"].append({"kind": kind, "what": what, "data": data})

                def count(kind, n=1, nontrivial=0):
                    res["corr"]["evaluations"] += n
                    res["corr"]["nontrivial"] += nontrivial
                    res["corr"]["hist"][kind] = res["corr"]["hist"].get(kind, 0) + n
                names = set(pl["numba"]["tables"]["kernel_functions_regular"].values())
                K.selftest_numba(pl["numba"], rng, 10 if pl["strength"] == "quick" else 100, disagree, count,
                                 res["corr"]["samples"], jit=False, names=names)
            job_scalar(pl, res, rng)
        elif pl["job"] == "maxwell":
            job_maxwell(pl, res, rng)
        res["corr"]["disagreements"] = res["corr"]["disagreements"][:40]
    except Exception:
        res["crash"] = traceback.format_exc()[-3000:]
    res["notes"].append("job %s %.1fs" % (pl["job"], time.time() - t0))
    K.out(res)


if __name__ == "__main__":
    main()
