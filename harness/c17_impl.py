"""C17 implementation side.

mode "corr":   the FMM glue of bempp-cl (exafmm stand-in + fmm.dense_evaluation) with the library's own exact point
               evaluator and near-field correction executing as Python bodies on a surrogate 4-component kernel, the
               singular part assembled with a surrogate kernel; boundary operators (as matrices: closure applied to
               unit vectors) and potential operators; dumped as exact rationals for the Coq model FmmModel.v.
               Also the point maps (map_to_points, curl/RWG/div transforms) as explicit matrices.
mode "search": API level, real kernels: assembler='fmm' versus assembler='dense'.
"""
import json
import sys
import time

import numpy as np

import bcommon as bc

PTS = [[2.0, 0.25, 0.5], [-1.5, 1.0, -0.75]]
SHIFT = (2.5, 0.5, 0.75)


def boundary_cases(strength):
    cases = [
        # (name, trial mesh, trial space, test mesh (None = same grid), test space, operator, k, near-field mode)
        ("sl/islands3/P1b", "islands3", ("P", 1, {"include_boundary_dofs": True}), None,
         ("P", 1, {"include_boundary_dofs": True}), "sl", None, "evaluate"),
        ("dl/tet/DP0seg0", "tet", ("DP", 0, {"segments": [0]}), None, ("DP", 0, {"segments": [0]}), "dl", 1.0 + 0.5j,
         "sparse"),
        ("dl/islands3/DP0swapped", "islands3", ("DP", 0, {"swapped_normals": [1]}), None,
         ("DP", 0, {"swapped_normals": [1]}), "dl", None, "evaluate"),
        ("hyp/islands3/P1b", "islands3", ("P", 1, {"include_boundary_dofs": True}), None,
         ("P", 1, {"include_boundary_dofs": True}), "hyp", 1.25 + 0.25j, "evaluate"),
        ("efield/islands3/RWGb", "islands3", ("RWG", 0, {"include_boundary_dofs": True}), None,
         ("SNC", 0, {"include_boundary_dofs": True}), "efield", 1.0 + 0.5j, "evaluate"),
        # supports that are not a prefix of the element list
        ("sl/tet/DP0seg1", "tet", ("DP", 0, {"segments": [1]}), None, ("DP", 0, {"segments": [1]}), "sl", None,
         "evaluate"),
        ("efield/islands3/RWGseg1", "islands3", ("RWG", 0, {"segments": [1], "include_boundary_dofs": True}), None,
         ("SNC", 0, {"include_boundary_dofs": True}), "efield", 1.0, "evaluate"),
        # one grid, DIFFERENT test and trial spaces (test-side maps must not be shared with the trial side)
        ("hyp/islands3/P1b<-P1b-swapped", "islands3", ("P", 1, {"include_boundary_dofs": True}), None,
         ("P", 1, {"include_boundary_dofs": True, "swapped_normals": [1]}), "hyp", 1.0 + 0.25j, "evaluate"),
        ("hyp/islands3/P1seg0<-P1seg1", "islands3", ("P", 1, {"segments": [1], "include_boundary_dofs": True}), None,
         ("P", 1, {"segments": [0], "include_boundary_dofs": True}), "hyp", None, "evaluate"),
        ("sl/islands3/P1b<-DP0seg1", "islands3", ("DP", 0, {"segments": [1]}), None,
         ("P", 1, {"include_boundary_dofs": True}), "sl", None, "evaluate"),
        # two different grids
        ("sl/strip2->tet", "strip2", ("DP", 0, {}), "tet", ("P", 1, {}), "sl", None, "evaluate"),
    ]
    if strength == "thorough":
        cases += [
            ("adl/islands3/DP1", "islands3", ("DP", 1, {"swapped_normals": [0]}), None,
             ("DP", 1, {"swapped_normals": [0]}), "adl", 0.75, "evaluate"),
            ("mfield/islands3/RWGb", "islands3", ("RWG", 0, {"include_boundary_dofs": True}), None,
             ("SNC", 0, {"include_boundary_dofs": True}), "mfield", 0.75, "sparse"),
            ("mfield/islands3/SNCb<-RWGseg1", "islands3", ("RWG", 0, {"segments": [1], "include_boundary_dofs": True}),
             None, ("SNC", 0, {"include_boundary_dofs": True}), "mfield", 1.0, "evaluate"),
            ("hypmod/islands3/P1seg1<-P1b", "islands3", ("P", 1, {"include_boundary_dofs": True}), None,
             ("P", 1, {"segments": [1], "include_boundary_dofs": True}), "hyp_mod", 0.5, "evaluate"),
            ("dl/islands3/DP0<-DP0swapped", "islands3", ("DP", 0, {"swapped_normals": [1]}), None, ("DP", 0, {}),
             "dl", 1.0, "evaluate"),
            ("hyp/strip3/P1b/lap", "strip3", ("P", 1, {"include_boundary_dofs": True}), None,
             ("P", 1, {"include_boundary_dofs": True}), "hyp", None, "sparse"),
            ("hyp/fan4/P1/mod", "fan4", ("P", 1, {}), None, ("P", 1, {}), "hyp_mod", 0.5, "evaluate"),
            ("mfield/strip3/RWGb", "strip3", ("RWG", 0, {"include_boundary_dofs": True}), None,
             ("SNC", 0, {"include_boundary_dofs": True}), "mfield", 1.0 + 0.5j, "evaluate"),
            ("mfield/tet/RWGseg2", "tet", ("RWG", 0, {"segments": [2], "include_boundary_dofs": True}), None,
             ("SNC", 0, {"segments": [2], "include_boundary_dofs": True}), "mfield", 1.0, "evaluate"),
            ("hyp/tet/P1seg1", "tet", ("P", 1, {"segments": [1], "include_boundary_dofs": True}), None,
             ("P", 1, {"segments": [1], "include_boundary_dofs": True}), "hyp", 1.0, "evaluate"),
            ("dl/fan4->strip2", "fan4", ("P", 1, {"include_boundary_dofs": True}), "strip2", ("DP", 0, {}), "dl", 1.0,
             "evaluate"),
            ("efield/strip2->tet", "strip2", ("RWG", 0, {"include_boundary_dofs": True}), "tet", ("SNC", 0, {}),
             "efield", 0.5 + 0.5j, "evaluate"),
        ]
    return cases


def potential_cases(strength):
    cases = [("psl/tet/P1", "tet", ("P", 1, {}), "psl", None),
             ("pdl/strip3/DP0", "strip3", ("DP", 0, {"swapped_normals": [1]}), "pdl", 1.0 + 0.25j),
             ("pefield/tet/RWG", "tet", ("RWG", 0, {}), "pefield", 0.75),
             ("pmfield/tet/RWGseg1", "tet", ("RWG", 0, {"segments": [1], "include_boundary_dofs": True}), "pmfield",
              1.0 + 0.5j),
             ("psl/tet/DP0seg1", "tet", ("DP", 0, {"segments": [1]}), "psl", None)]
    if strength == "thorough":
        cases += [("pmfield/strip3/RWGb", "strip3", ("RWG", 0, {"include_boundary_dofs": True}), "pmfield", 1.0),
                  ("pdl/tet/P1", "tet", ("P", 1, {}), "pdl", None),
                  ("pefield/fan4/RWG", "fan4", ("RWG", 0, {}), "pefield", 1.0 + 1.0j)]
    return cases


def boundary_factory(api, opname, dom, dual, k, assembler):
    B = api.operators.boundary
    if opname == "sl":
        return (B.laplace.single_layer(dom, dual, dual, assembler=assembler) if k is None else
                B.helmholtz.single_layer(dom, dual, dual, k, assembler=assembler))
    if opname == "dl":
        return (B.laplace.double_layer(dom, dual, dual, assembler=assembler) if k is None else
                B.helmholtz.double_layer(dom, dual, dual, k, assembler=assembler))
    if opname == "adl":
        return (B.laplace.adjoint_double_layer(dom, dual, dual, assembler=assembler) if k is None else
                B.modified_helmholtz.adjoint_double_layer(dom, dual, dual, k, assembler=assembler))
    if opname == "hyp":
        return (B.laplace.hypersingular(dom, dual, dual, assembler=assembler) if k is None else
                B.helmholtz.hypersingular(dom, dual, dual, k, assembler=assembler))
    if opname == "hyp_mod":
        return B.modified_helmholtz.hypersingular(dom, dual, dual, k, assembler=assembler)
    if opname == "efield":
        return B.maxwell.electric_field(dom, dual, dual, k, assembler=assembler)
    if opname == "mfield":
        return B.maxwell.magnetic_field(dom, dual, dual, k, assembler=assembler)
    raise ValueError(opname)


def potential_factory(api, opname, space, pts, k, assembler):
    P = api.operators.potential
    if opname == "psl":
        return (P.laplace.single_layer(space, pts, assembler=assembler) if k is None else
                P.helmholtz.single_layer(space, pts, k, assembler=assembler))
    if opname == "pdl":
        return (P.laplace.double_layer(space, pts, assembler=assembler) if k is None else
                P.helmholtz.double_layer(space, pts, k, assembler=assembler))
    if opname == "pefield":
        return P.maxwell.electric_field(space, pts, k, assembler=assembler)
    if opname == "pmfield":
        return P.maxwell.magnetic_field(space, pts, k, assembler=assembler)
    raise ValueError(opname)


def is_complex_op(opname, k):
    if opname in ("efield", "mfield", "pefield", "pmfield"):
        return True
    if opname in ("adl", "hyp_mod"):
        return False
    return k is not None


def run_corr(cfg):
    api = bc.enable_fmm_stub()
    from bempp_cl.api.integration.triangle_gauss import rule
    api.GLOBAL_PARAMETERS.quadrature.regular = 2
    api.GLOBAL_PARAMETERS.quadrature.singular = 1
    rng = np.random.default_rng(int(cfg.get("seed", 0)) + 1717)
    strength = cfg.get("strength", "quick")
    qp, qw = rule(2)
    out_b = []
    for (name, mA, sA, mB, sB, opname, k, nf) in boundary_cases(strength):
        gA = bc.make_grid(mA)
        gB = gA if mB is None else bc.make_grid(mB, shift=SHIFT)
        dom = bc.make_space(api, gA, sA)
        dual = bc.make_space(api, gB, sB)
        cplx = is_complex_op(opname, k)
        comps = bc.random_g4(rng, cplx)
        surr = bc.random_surr(rng, cplx, use_normals=opname not in ("efield", "mfield"))
        api.GLOBAL_PARAMETERS.fmm.near_field_representation = nf
        rec = {"name": name, "op": opname, "k": None if k is None else bc.frc(k), "same_grid": mB is None,
               "gt": bc.grid_dump(gB), "gs": bc.grid_dump(gA), "test": bc.space_dump(dual),
               "trial": bc.space_dump(dom), "quad": bc.quad_dump(qp, qw), "g4": [bc.surr_dump(s) for s in comps],
               "nbrs": bc.neighbors_dump(gA) if mB is None else [[] for _ in range(gB.number_of_elements)],
               "nEs": int(gA.number_of_elements), "near_field": nf,
               "shape": [int(dual.global_dof_count), int(dom.global_dof_count)]}
        try:
            with bc.PurePython(surr, cplx), bc.FmmPython(comps, cplx):
                op = boundary_factory(api, opname, dom, dual, k, "fmm")
                A = op.weak_form()
                nd = dom.global_dof_count
                M = np.zeros((dual.global_dof_count, nd), dtype=np.complex128)
                for J in range(nd):
                    e = np.zeros(nd, dtype=np.complex128 if cplx else np.float64)
                    e[J] = 1.0
                    M[:, J] = A @ e
                S = op.descriptor.singular_part.weak_form().to_sparse()
            rec["impl"] = bc.mat_dump(M)
            rec["scale"] = bc.fr(float(np.max(np.abs(M))))
            rec["sing"] = bc.sparse_dump(S)
            rec["error"] = None
        except Exception as ex:
            rec["impl"] = None
            rec["error"] = type(ex).__name__ + ": " + str(ex)[:200]
        out_b.append(rec)
    out_p = []
    for (name, m, spec, opname, k) in potential_cases(strength):
        g = bc.make_grid(m)
        space = bc.make_space(api, g, spec)
        cplx = is_complex_op(opname, k)
        comps = bc.random_g4(rng, cplx)
        nd = space.global_dof_count
        coefs = [rng.integers(-4, 5, size=nd) / 4.0 + (1j * rng.integers(-4, 5, size=nd) / 4.0 if cplx else 0.0)
                 for _ in range(2)]
        pts = np.array(PTS, dtype=np.float64).T
        rec = {"name": name, "op": opname, "k": None if k is None else bc.frc(k), "gs": bc.grid_dump(g),
               "trial": bc.space_dump(space), "quad": bc.quad_dump(qp, qw), "g4": [bc.surr_dump(s) for s in comps],
               "nEs": int(g.number_of_elements), "points": [[bc.fr(x) for x in p] for p in PTS],
               "coefs": [[bc.frc(x) for x in c] for c in coefs]}
        try:
            with bc.FmmPython(comps, cplx):
                op = potential_factory(api, opname, space, pts, k, "fmm")
                vals = [np.asarray(op.evaluate(api.GridFunction(space, coefficients=c))) for c in coefs]
            rec["dim"] = int(vals[0].shape[0])
            rec["impl"] = [bc.frc(v[d, p]) for v in vals for p in range(len(PTS)) for d in range(v.shape[0])]
            rec["scale"] = bc.fr(float(max(np.max(np.abs(v)) for v in vals)))
            rec["error"] = None
        except Exception as ex:
            rec["impl"] = None
            rec["error"] = type(ex).__name__ + ": " + str(ex)[:200]
        out_p.append(rec)
    return {"boundary": out_b, "potential": out_p}


def main():
    cfg = json.load(sys.stdin)
    t0 = time.time()
    if cfg.get("mode") == "corr":
        res = run_corr(cfg)
    else:
        import c17_search
        res = c17_search.run(cfg)
    res["wall"] = time.time() - t0
    bc.emit(res)


if __name__ == "__main__":
    main()
