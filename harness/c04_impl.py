"""C04 implementation side.
mode "corr":   run the library's own dense assembly (assemble_dense, dense_assembler colour loop, regular kernel loops,
               singular rule construction, np.add.at) with a polynomial surrogate kernel and dump every array the
               model needs as exact dyadic numbers, together with the matrix the library produced.
mode "search": real kernels at API level: || A_S - T' A_D T || <= 1e-12 ||A_D|| for random space selections with test and
               trial chosen independently, dense and sparse operators; nested-grid sanity under order refinement.
Input JSON on stdin {"mode", "strength", "families"}; output '@@JSON {...}'."""
import json
import os
import sys
import time

import numpy as np

import asm_common as C


def corr_cases(rng, strength):
    """(grid name, distorted, test kind, trial kind, kernel, regular order, singular order)."""
    cases = []
    kinds = ["DP0", "DP1", "P1", "RWG", "SNC"]
    grids = ["two", "screen21", "tetra", "screen31", "octa", "screen22"]
    n = 26 if strength == "quick" else 120
    for i in range(n):
        g = grids[i % len(grids)] if i < 12 else str(rng.choice(grids))
        tk = kinds[i % 5]
        rk = kinds[(i // 5 + i) % 5] if i % 3 else tk
        cases.append({"grid": g, "distorted": bool(i % 2), "test": tk, "trial": rk, "kernel": int(i % 2),
                      "oreg": int(1 + i % 3), "osing": 1 if (i % 7) else 2})
    return cases


def run_corr(cfg):
    import bempp_cl.api as api
    rng = np.random.default_rng(int(os.environ.get("VERIF_SEED", "0")) + 4004)
    out = {"cases": [], "errors": []}
    for spec in corr_cases(rng, cfg.get("strength", "quick")):
        grid = C.make_grid(spec["grid"], rng, spec["distorted"])
        # first case of each kind on the whole grid (the full spaces of the theorem), the rest on random selections
        full = rng.integers(0, 4) == 0
        topt = {} if full else C.random_space_opts(grid, spec["test"], rng)
        ropt = {} if full else C.random_space_opts(grid, spec["trial"], rng)
        try:
            st = C.make_space(grid, spec["test"], topt)
            sr = C.make_space(grid, spec["trial"], ropt)
        except Exception as e:  # space construction problems belong to C09
            out["errors"].append({"spec": spec, "topt": topt, "ropt": ropt, "error": repr(e)})
            continue
        C.set_orders(spec["oreg"], spec["osing"])
        with C.Patched(spec["kernel"]) as p:
            op = api.operators.boundary.laplace.single_layer(sr, sr, st, assembler="dense")
            mat = op.weak_form().to_dense()
        if len(p.captured) != 1:
            out["errors"].append({"spec": spec, "error": "singular rule captured %d times" % len(p.captured)})
            continue
        tt = st.map_to_full_grid.tocoo()
        tr = sr.map_to_full_grid.tocoo()
        out["cases"].append({
            "spec": spec, "topt": topt, "ropt": ropt, "grid": C.dump_grid(grid),
            "test": C.dump_space(st, spec["test"]), "trial": C.dump_space(sr, spec["trial"]),
            "rule": C.rule_dump(spec["oreg"]), "sing": C.dump_singular(p.captured[0], grid),
            "rows": int(mat.shape[0]), "cols": int(mat.shape[1]), "matrix": C.dump_matrix(mat),
            "scale": C.dy(max(1e-11 * float(np.abs(mat).max()), 1e-13)),
            "maxabs": float(np.abs(mat).max()),
            "Tt": sorted([int(a), int(b), C.dy(v)] for a, b, v in zip(tt.row, tt.col, tt.data) if v != 0),
            "Tr": sorted([int(a), int(b), C.dy(v)] for a, b, v in zip(tr.row, tr.col, tr.data) if v != 0),
        })
    out["lcases"] = run_level1(rng, cfg.get("strength", "quick"))
    return out


def full_counterpart(grid, kind, sw=None):
    """The full-grid element-wise space with the same shapeset: unit multipliers, local2global = ns*e + i."""
    import bempp_cl.api as api
    opts = {"swapped_normals": sw} if sw else {}
    if kind in ("DP0", "DP1", "P1"):
        sp = C.make_space(grid, "DP0" if kind == "DP0" else "DP1", opts)
    else:
        sp = C.make_space(grid, kind, opts).localised_space
        # the operator factories accept only identifier "rwg0"/"snc0"; the localised space is the same space type
        sp._identifier = {"RWG": "rwg0", "SNC": "snc0"}[kind]
    ns = sp.number_of_shape_functions
    nel = grid.number_of_elements
    assert np.array_equal(sp.local2global, np.arange(ns * nel).reshape(nel, ns)) and np.all(sp.local_multipliers == 1)
    return sp


def assembler_table(api):
    """One operator per Numba assembly type (regular + singular function each): name, factory, trial kind, test kind."""
    b = api.operators.boundary
    return [
        ("default_scalar", lambda d, t: b.laplace.double_layer(d, d, t, assembler="dense"), "P1", "DP1"),
        ("laplace_hypersingular", lambda d, t: b.laplace.hypersingular(d, d, t, assembler="dense"), "P1", "P1"),
        ("helmholtz_hypersingular", lambda d, t: b.helmholtz.hypersingular(d, d, t, 1.3, assembler="dense"), "P1", "P1"),
        ("modified_helmholtz_hypersingular",
         lambda d, t: b.modified_helmholtz.hypersingular(d, d, t, 0.7, assembler="dense"), "P1", "P1"),
        ("maxwell_electric_field", lambda d, t: b.maxwell.electric_field(d, d, t, 1.1, assembler="dense"), "RWG", "SNC"),
        ("maxwell_magnetic_field", lambda d, t: b.maxwell.magnetic_field(d, d, t, 1.1, assembler="dense"), "RWG", "SNC"),
    ]


def run_level1(rng, strength):
    """Every regular/singular assembler kernel (py_func + surrogate kernel) on restricted spaces with non-prefix supports
    and non-unit multipliers on both sides, and on the full element-wise spaces (source of the local values)."""
    import bempp_cl.api as api
    cases = []
    grids = ["screen22", "cube", "octa3", "twocomp"] if strength != "quick" else ["screen22", "cube"]
    reps = 1 if strength == "quick" else 3
    for ai, (aname, mk, dk, tk) in enumerate(assembler_table(api)):
        for gi, gname in enumerate(grids):
            for rep in range(reps):
                grid = C.make_grid(gname, rng, distorted=True)
                dopt, sd = C.designed_opts(grid, dk, rng)
                topt, st = C.designed_opts(grid, tk, rng, avoid=sd.support, partner=sd.support)
                kern = (ai + gi + rep) % 2
                C.set_orders(int(1 + (ai + gi) % 3), 1 if (ai + gi + rep) % 3 else 2)
                fd, ft = full_counterpart(grid, dk), full_counterpart(grid, tk)
                with C.Patched(kern) as p:
                    a_s = mk(sd, st).weak_form().to_dense()
                    a_d = mk(fd, ft).weak_form().to_dense()
                used = sorted(set(p.used))
                parts = [("re", np.real(a_s), np.real(a_d))]
                if np.iscomplexobj(a_s) and float(np.abs(np.imag(a_d)).max()) > 0:
                    parts.append(("im", np.imag(a_s), np.imag(a_d)))
                g = C.dump_grid(grid)
                for k in ("v0", "jac", "jit", "normal", "intel", "vol"):
                    g[k] = []
                for pname, ms, md in parts:
                    cases.append({
                        "spec": {"assembler": aname, "functions": used, "grid": gname, "test": [tk, topt],
                                 "trial": [dk, dopt], "kernel": kern, "part": pname},
                        "grid": g, "test": C.dump_space(st, tk), "trial": C.dump_space(sd, dk),
                        "AD": C.dump_matrix(md), "rows": int(ms.shape[0]), "cols": int(ms.shape[1]),
                        "matrix": C.dump_matrix(ms), "tol": C.dy(max(1e-11 * float(np.abs(md).max()), 1e-14)),
                        "maxabs": float(np.abs(ms).max())})
    return cases


# ---------------------------------------------------------------------------------------------------------------
FAMILIES = ["laplace", "helmholtz", "modified_helmholtz", "maxwell", "sparse"]


def operators_of(family, api):
    b = api.operators.boundary
    if family == "laplace":
        return [("laplace.single_layer", lambda d, t: b.laplace.single_layer(d, d, t, assembler="dense")),
                ("laplace.double_layer", lambda d, t: b.laplace.double_layer(d, d, t, assembler="dense")),
                ("laplace.adjoint_double_layer",
                 lambda d, t: b.laplace.adjoint_double_layer(d, d, t, assembler="dense")),
                ("laplace.hypersingular", lambda d, t: b.laplace.hypersingular(d, d, t, assembler="dense"))]
    if family == "helmholtz":
        k = 1.3
        return [("helmholtz.single_layer", lambda d, t: b.helmholtz.single_layer(d, d, t, k, assembler="dense")),
                ("helmholtz.double_layer", lambda d, t: b.helmholtz.double_layer(d, d, t, k, assembler="dense")),
                ("helmholtz.hypersingular", lambda d, t: b.helmholtz.hypersingular(d, d, t, k, assembler="dense"))]
    if family == "modified_helmholtz":
        w = 0.7
        return [("modified_helmholtz.single_layer",
                 lambda d, t: b.modified_helmholtz.single_layer(d, d, t, w, assembler="dense")),
                ("modified_helmholtz.adjoint_double_layer",
                 lambda d, t: b.modified_helmholtz.adjoint_double_layer(d, d, t, w, assembler="dense")),
                ("modified_helmholtz.hypersingular",
                 lambda d, t: b.modified_helmholtz.hypersingular(d, d, t, w, assembler="dense"))]
    if family == "maxwell":
        k = 1.1
        return [("maxwell.electric_field", lambda d, t: b.maxwell.electric_field(d, d, t, k, assembler="dense")),
                ("maxwell.magnetic_field", lambda d, t: b.maxwell.magnetic_field(d, d, t, k, assembler="dense"))]
    if family == "sparse":
        return [("sparse.identity", lambda d, t: b.sparse.identity(d, d, t)),
                ("sparse.laplace_beltrami", lambda d, t: b.sparse.laplace_beltrami(d, d, t))]
    raise ValueError(family)


def kinds_for(name):
    if name.startswith("maxwell"):
        return ["RWG"], ["SNC"]          # (domain kinds, dual kinds)
    if name.endswith("hypersingular") or name.endswith("laplace_beltrami"):
        return ["P1"], ["P1"]
    if name == "sparse.identity":
        return ["DP0", "DP1", "P1", "RWG", "SNC"], None   # dual of the same codomain dimension
    return ["DP0", "DP1", "P1"], ["DP0", "DP1", "P1"]


def congruence_error(api, mk, grid, dkind, dopt, tkind, topt):
    """|| A_S - T' A_D T || / max(||A_D||, floor) for one operator and one pair of restricted spaces (None: no DOFs)."""
    sd = C.make_space(grid, dkind, dopt)
    stt = C.make_space(grid, tkind, topt)
    if not (C.space_has_dofs(sd) and C.space_has_dofs(stt)):
        return None
    sw = dopt.get("swapped_normals")
    fd, ft = full_counterpart(grid, dkind, sw), full_counterpart(grid, tkind, sw)
    a_s = np.asarray(mk(sd, stt).weak_form().to_dense())
    a_d = np.asarray(mk(fd, ft).weak_form().to_dense())
    tt = stt.map_to_full_grid.toarray()
    td = sd.map_to_full_grid.toarray()
    if sd.requires_dof_transformation:
        td = td @ sd.dof_transformation.toarray()
    if stt.requires_dof_transformation:
        tt = tt @ stt.dof_transformation.toarray()
    ref = tt.T @ a_d @ td
    return float(np.abs(a_s - ref).max()) / max(float(np.abs(a_d).max()), 1e-4)


def run_search(cfg):
    """Deterministic coverage: EVERY operator (all three hypersingular operators, both Maxwell operators, all scalar
    operators of the three families, identity, Laplace-Beltrami) is run at least once per check with a non-prefix,
    non-unit-multiplier segment/support on the trial side and a different one on the test side.  quick: the Numba
    assembler loops run through .py_func with the library's own Green's functions on 8-element grids (no JIT);
    thorough: compiled code, more grids and random selections."""
    import bempp_cl.api as api
    seed = int(os.environ.get("VERIF_SEED", "0"))
    rng = np.random.default_rng(seed + 4104)
    strength = cfg.get("strength", "quick")
    quick = strength == "quick"
    fams = FAMILIES
    out = {"evaluations": 0, "failures": [], "worst": {}, "skipped": 0, "families": fams, "operators_run": [],
           "py_func_mode": quick}
    t0 = time.time()
    budget = float(cfg.get("budget", 1e9))
    allops = [(fam, nm, mk) for fam in fams for nm, mk in operators_of(fam, api)]
    designed_grids = ["screen22", "cube"] if quick else ["screen22", "cube", "octa3", "twocomp"]
    random_grids = ["octa", "screen22", "tetra", "twocomp", "octa3", "cube"]
    nrandom = 0 if quick else 6

    def one(name, mk, grid, gname, dkind, dopt, tkind, topt, label):
        try:
            with np.errstate(all="ignore"):
                err = congruence_error(api, mk, grid, dkind, dopt, tkind, topt)
        except Exception as e:
            out["failures"].append({"signature": "C04:%s raises %s" % (name, type(e).__name__),
                                    "what": "%s on %s/%s %s %s raised %r" % (name, tkind, dkind, topt, dopt, e),
                                    "data": {"op": name, "grid": gname, "test": [tkind, topt], "trial": [dkind, dopt]}})
            return
        if err is None:
            out["skipped"] += 1
            return
        out["worst"][name] = max(out["worst"].get(name, 0.0), err)
        out["evaluations"] += 1
        if not err <= 1e-12:
            out["failures"].append({
                "signature": "C04:congruence %s test=%s trial=%s" % (name, tkind, dkind),
                "what": "A_S differs from T' A_D T by %.3e (relative to max|A_D|) for %s (%s)" % (err, name, label),
                "data": {"op": name, "grid": gname, "test": [tkind, topt], "trial": [dkind, dopt], "err": err}})

    if True:
        for fam, name, mk in allops:
            if time.time() - t0 > budget and not quick:
                break
            out["operators_run"].append(name)
            dk, tk = kinds_for(name)
            for gi, gname in enumerate(designed_grids):
                grid = C.make_grid(gname, rng, distorted=True)
                # trial side P1 (scalar / hypersingular / sparse) or RWG (Maxwell); test side the matching kind
                dkind = "RWG" if fam == "maxwell" else "P1"
                tkind = "SNC" if fam == "maxwell" else ("P1" if "P1" in (tk or dk) and (gi % 2 == 0 or len(tk or dk) == 1)
                                                        else (tk or dk)[gi % len(tk or dk)])
                if name == "sparse.identity" and gi % 2:
                    dkind, tkind = "RWG", "SNC"
                C.set_orders(int(2 + (gi + len(name)) % 3), int(2 + (gi + len(name)) % 2) if quick else 4)
                try:
                    dopt, sd = C.designed_opts(grid, dkind, rng)
                    topt, st = C.designed_opts(grid, tkind, rng, avoid=sd.support, partner=sd.support)
                except RuntimeError:
                    out["skipped"] += 1
                    continue
                if name.startswith("sparse") and not np.any(sd.support & st.support):
                    topt = dict(topt)
                    topt.pop("segments", None)
                    topt["support_elements"] = sorted(set(int(x) for x in np.flatnonzero(st.support)) |
                                                      {int(np.flatnonzero(sd.support)[0])})
                one(name, mk, grid, gname, dkind, dopt, tkind, topt, "designed non-prefix supports")
            for rep in range(nrandom):
                gname = str(rng.choice(random_grids))
                grid = C.make_grid(gname, rng, distorted=bool(rng.integers(0, 2)))
                dkind = str(rng.choice(dk))
                if tk is None:
                    tkind = str(rng.choice([k for k in dk if (C.SHAPE_ID[k] == 2) == (C.SHAPE_ID[dkind] == 2)]))
                else:
                    tkind = str(rng.choice(tk))
                dopt = C.random_space_opts(grid, dkind, rng)
                topt = C.random_space_opts(grid, tkind, rng)
                if C.SHAPE_ID[dkind] == 2 or C.SHAPE_ID[tkind] == 2:
                    dopt.pop("swapped_normals", None)
                    topt.pop("swapped_normals", None)
                sw = dopt.get("swapped_normals") or topt.get("swapped_normals")
                if sw:      # the normal direction is part of the operator: both sides of the relation use the same flag
                    dopt["swapped_normals"] = sw
                    topt["swapped_normals"] = sw
                if name.startswith("sparse"):
                    try:
                        if not np.any(C.make_space(grid, dkind, dopt).support & C.make_space(grid, tkind, topt).support):
                            out["skipped"] += 1
                            continue
                    except Exception:
                        out["skipped"] += 1
                        continue
                C.set_orders(int(rng.integers(2, 5)), int(rng.integers(2, 5)))
                try:
                    C.make_space(grid, dkind, dopt), C.make_space(grid, tkind, topt)
                except Exception:
                    out["skipped"] += 1
                    continue
                one(name, mk, grid, gname, dkind, dopt, tkind, topt, "random selection")
    # DP segment spaces are sub-blocks: exact equality of entries
    grid = C.make_grid("octa3", rng, True)
    C.set_orders(3, 3)
    for kind in ("DP0", "DP1"):
        sup = sorted(int(x) for x in rng.choice(8, size=4, replace=False))
        s = C.make_space(grid, kind, {"support_elements": sup})
        f = C.make_space(grid, kind, {})
        a = api.operators.boundary.laplace.single_layer(s, s, s, assembler="dense").weak_form().to_dense()
        b = api.operators.boundary.laplace.single_layer(f, f, f, assembler="dense").weak_form().to_dense()
        ns = s.number_of_shape_functions
        idx = [ns * e + i for e in sup for i in range(ns)]
        err = float(np.abs(a - b[np.ix_(idx, idx)]).max())
        out["evaluations"] += 1
        out["worst"]["block_" + kind] = err
        if not err <= 1e-13:
            out["failures"].append({"signature": "C04:segment block %s" % kind,
                                    "what": "DP segment operator is not the sub-block (%.3e)" % err,
                                    "data": {"support": sup, "err": err}})
    # ---- nested grids: uniform (one and two levels) and barycentric refinement ---------------------------------
    def locate(coarse, x):
        """(element, barycentric coordinates) of the point x in the coarse grid."""
        best = None
        for e in range(coarse.number_of_elements):
            v = [coarse.vertices[:, coarse.elements[k, e]] for k in range(3)]
            a, b, r = v[1] - v[0], v[2] - v[0], x - v[0]
            g11, g12, g22 = a @ a, a @ b, b @ b
            det = g11 * g22 - g12 * g12
            s1 = (g22 * (r @ a) - g12 * (r @ b)) / det
            s2 = (g11 * (r @ b) - g12 * (r @ a)) / det
            resid = np.linalg.norm(r - s1 * a - s2 * b)
            lam = np.array([1 - s1 - s2, s1, s2])
            score = resid + max(0.0, -lam.min())
            if best is None or score < best[0]:
                best = (score, e, lam)
        return best

    def prolongation_p1(coarse, fine, sc, sf):
        p = np.zeros((sf.global_dof_count, sc.global_dof_count))
        for e in range(fine.number_of_elements):
            for k in range(3):
                x = fine.vertices[:, fine.elements[k, e]]
                score, ce, lam = locate(coarse, x)
                assert score < 1e-9
                row = sf.local2global[e, k]
                p[row, :] = 0
                for j in range(3):
                    if abs(lam[j]) > 1e-12:
                        p[row, sc.local2global[ce, j]] += lam[j]
        return p

    def prolongation_dp0(coarse, fine):
        p = np.zeros((fine.number_of_elements, coarse.number_of_elements))
        for e in range(fine.number_of_elements):
            x = fine.vertices[:, fine.elements[:, e]].mean(axis=1)
            score, ce, lam = locate(coarse, x)
            p[e, ce] = 1.0
        return p

    coarse = C.make_grid("octa3", rng, True)
    levels = [("refine", coarse.refine()), ("barycentric", coarse.barycentric_refinement)]
    if strength != "quick":
        levels.append(("refine2", coarse.refine().refine()))
    C.set_orders(4, 4)
    sc = C.make_space(coarse, "P1", {})
    dc = C.make_space(coarse, "DP0", {})
    for lname, fine in levels:
        sf = C.make_space(fine, "P1", {})
        df = C.make_space(fine, "DP0", {})
        p1 = prolongation_p1(coarse, fine, sc, sf)
        p0 = prolongation_dp0(coarse, fine)
        for oname, mkop, pc, pf, pm in (
                ("identity_P1", api.operators.boundary.sparse.identity, sc, sf, p1),
                ("laplace_beltrami_P1", api.operators.boundary.sparse.laplace_beltrami, sc, sf, p1),
                ("identity_DP0", api.operators.boundary.sparse.identity, dc, df, p0)):
            a_c = np.asarray(mkop(pc, pc, pc).weak_form().to_sparse().todense())
            a_f = np.asarray(mkop(pf, pf, pf).weak_form().to_sparse().todense())
            err = float(np.abs(pm.T @ a_f @ pm - a_c).max()) / float(np.abs(a_c).max())
            out["evaluations"] += 1
            out["worst"]["nesting_%s_%s" % (lname, oname)] = err
            if not err <= 1e-12:
                out["failures"].append({"signature": "C04:nested grids %s %s" % (lname, oname),
                                        "what": "P' A_fine P differs from A_coarse by %.3e (exactly integrated operator)" % err,
                                        "data": {"level": lname, "op": oname, "err": err}})
        if strength != "quick" and lname == "refine":
            errs = []
            for o in (2, 4, 6):
                C.set_orders(o, o)
                v_c = api.operators.boundary.laplace.single_layer(sc, sc, sc, assembler="dense").weak_form().to_dense()
                v_f = api.operators.boundary.laplace.single_layer(sf, sf, sf, assembler="dense").weak_form().to_dense()
                errs.append(float(np.abs(p1.T @ v_f @ p1 - v_c).max()) / float(np.abs(v_c).max()))
            C.set_orders(4, 4)
            out["evaluations"] += 1
            out["worst"]["nesting_refine_single_layer_orders_2_4_6"] = errs
            if not (errs[2] <= errs[0] and errs[2] <= 1e-3):
                out["failures"].append({"signature": "C04:nested grids single layer does not converge under order refinement",
                                        "what": "errors %s at orders 2,4,6" % errs, "data": {"errs": errs}})
    out["wall"] = time.time() - t0
    return out


def main():
    cfg = json.load(sys.stdin)
    mode = cfg.get("mode")
    out = {}
    if mode in ("corr", "both"):
        t = time.time()
        out["corr"] = run_corr(cfg)
        out["corr"]["wall"] = time.time() - t
    if mode in ("search", "both"):
        quick = cfg.get("strength", "quick") == "quick"
        # quick: Numba assembler loops / sparse kernels through .py_func with the library's own Green's functions
        with C.PyFuncMode(quick), C.Patched(None, jit=not quick):
            out["search"] = run_search(cfg)
    C.emit(out)


if __name__ == "__main__":
    main()
