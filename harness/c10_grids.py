"""Small mesh generators for the C10 harness (no gmsh).  All closed meshes are consistently oriented."""
import numpy as np


def _orient_closed(V, E):
    """Flip triangles so that normals point away from the centroid of the vertex cloud (star-shaped meshes only)."""
    c = V.mean(axis=1)
    E = E.copy()
    for i in range(E.shape[1]):
        a, b, d = (V[:, E[k, i]] for k in range(3))
        n = np.cross(b - a, d - a)
        if np.dot(n, (a + b + d) / 3 - c) < 0:
            E[1, i], E[2, i] = E[2, i], E[1, i]
    return E


def octahedron():
    V = np.array([[1, 0, 0], [-1, 0, 0], [0, 1, 0], [0, -1, 0], [0, 0, 1], [0, 0, -1]], float).T
    E = np.array([[0, 2, 4], [2, 1, 4], [1, 3, 4], [3, 0, 4], [2, 0, 5], [1, 2, 5], [3, 1, 5], [0, 3, 5]], dtype=np.uint32).T
    return V, E, np.array([0, 0, 1, 1, 1, 2, 2, 0])


def tetrahedron():
    V = np.array([[0, 0, 0], [1, 0, 0], [0, 1, 0], [0, 0, 1]], float).T
    E = np.array([[0, 2, 1], [0, 1, 3], [1, 2, 3], [2, 0, 3]], dtype=np.uint32).T
    return V, _orient_closed(V, E), np.array([3, 1, 1, 3])


def bipyramid(n=5):
    """n-gonal bipyramid: two poles of valence n, n equatorial vertices of valence 4."""
    ang = 2 * np.pi * np.arange(n) / n
    V = np.vstack([np.column_stack([np.cos(ang), np.sin(ang), 0 * ang]), [[0, 0, 1.2]], [[0, 0, -0.8]]]).T
    tris = []
    for i in range(n):
        j = (i + 1) % n
        tris.append([i, j, n])
        tris.append([j, i, n + 1])
    E = np.array(tris, dtype=np.uint32).T
    return V, _orient_closed(V, E), np.array([1 if i < n + 1 else 2 for i in range(2 * n)])


def cube12():
    V = np.array([[x, y, z] for x in (0, 1) for y in (0, 1) for z in (0, 1)], float).T
    quads = [(0, 1, 3, 2), (4, 6, 7, 5), (0, 4, 5, 1), (2, 3, 7, 6), (0, 2, 6, 4), (1, 5, 7, 3)]
    tris, dom = [], []
    for k, (a, b, c, d) in enumerate(quads):
        tris += [[a, b, c], [a, c, d]]
        dom += [k // 2, k // 2]
    E = np.array(tris, dtype=np.uint32).T
    return V, _orient_closed(V, E), np.array(dom)


def screen(nx=2, ny=2):
    """Open nx x ny screen of 2*nx*ny triangles with alternating diagonals (vertex valences 1..8)."""
    V = np.array([[i, j, 0.0] for j in range(ny + 1) for i in range(nx + 1)], float).T
    tris, dom = [], []
    for j in range(ny):
        for i in range(nx):
            a = j * (nx + 1) + i
            b, c, d = a + 1, a + nx + 2, a + nx + 1
            if (i + j) % 2 == 0:
                tris += [[a, b, c], [a, c, d]]
            else:
                tris += [[a, b, d], [b, c, d]]
            dom += [i % 2, i % 2]
    return V, np.array(tris, dtype=np.uint32).T, np.array(dom)


def distort(V, rng, amount=0.18, affine=True):
    """Non-uniform mesh: random affine map + independent vertex perturbation."""
    V = V + amount * rng.uniform(-1, 1, V.shape)
    if affine:
        A = np.eye(3) + 0.35 * rng.uniform(-1, 1, (3, 3))
        if np.linalg.det(A) < 0.2:
            A = np.eye(3)
        V = A @ V
    return V


def shuffle_elements(E, dom, rng):
    """Renumber elements and rotate local vertex order (keeps orientation)."""
    p = rng.permutation(E.shape[1])
    E = E[:, p].copy()
    for i in range(E.shape[1]):
        E[:, i] = np.roll(E[:, i], int(rng.integers(0, 3)))
    return E, dom[p]


def catalogue(rng, thorough=False):
    out = []
    V, E, d = octahedron()
    out.append(("octahedron", V, E, d))
    V, E, d = octahedron()
    E2, d2 = shuffle_elements(E, d, rng)
    out.append(("octahedron_distorted", distort(V, rng), E2, d2))
    V, E, d = tetrahedron()
    out.append(("tetrahedron_distorted", distort(V, rng, 0.1), E, d))
    V, E, d = screen(2, 2)
    E2, d2 = shuffle_elements(E, d, rng)
    out.append(("screen2x2_distorted", distort(V, rng, 0.15), E2, d2))
    V, E, d = bipyramid(5)
    out.append(("bipyramid5_distorted", distort(V, rng, 0.1), E, d))
    if thorough:
        V, E, d = cube12()
        E2, d2 = shuffle_elements(E, d, rng)
        out.append(("cube12_distorted", distort(V, rng, 0.12), E2, d2))
        V, E, d = screen(3, 2)
        out.append(("screen3x2_distorted", distort(V, rng, 0.2), E, d))
        V, E, d = bipyramid(7)
        out.append(("bipyramid7_distorted", distort(V, rng, 0.1), E, d))
        # two components: octahedron + far tetrahedron
        V1, E1, d1 = octahedron()
        V2, E2, d2 = tetrahedron()
        V = np.hstack([V1, V2 + np.array([[5.0], [0.3], [0.1]])])
        E = np.hstack([E1, E2 + V1.shape[1]]).astype(np.uint32)
        out.append(("two_components", distort(V, rng, 0.1), E, np.concatenate([d1, d2 + 4])))
    return out


# ---- open grids with interior edges that join two BORDER vertices with different cell counts ------------------
def strip5():
    """One-element-wide strip of 5 non-uniform triangles: every vertex is on the border, cell counts 1..3."""
    V = np.array([[0, 0, 0], [1, 0, 0], [2, 0.1, 0.1], [0.4, 1, 0], [1.5, 1.1, 0.2], [2.5, 0.9, 0], [3.1, 0.2, 0]], float).T
    E = np.array([[0, 1, 3], [1, 4, 3], [1, 2, 4], [2, 5, 4], [2, 6, 5]], dtype=np.uint32).T
    return V, E, np.array([0, 0, 0, 1, 1])


def lshape():
    """L-shaped screen (3 unit squares, 6 triangles, alternating diagonals)."""
    V = np.array([[0, 0, 0], [1, 0, 0], [2, 0, 0], [0, 1, 0], [1, 1, 0], [2, 1, 0], [0, 2, 0], [1, 2, 0]], float).T
    E = np.array([[0, 1, 4], [0, 4, 3], [1, 2, 4], [2, 5, 4], [3, 4, 6], [4, 7, 6]], dtype=np.uint32).T
    return V, E, np.array([0, 0, 1, 1, 0, 0])


def cornercut():
    """2x2 screen plus a fan: triangles cutting corners, border-border interior edges with cell counts 2 vs 3 / 4."""
    V = np.array([[0, 0, 0], [1, 0, 0], [2, 0, 0], [0, 1, 0], [1, 1, 0], [2, 1, 0], [0, 2, 0], [1, 2, 0], [2, 2, 0]], float).T
    E = np.array([[0, 1, 3], [1, 4, 3], [1, 2, 4], [2, 5, 4], [3, 4, 7], [3, 7, 6], [4, 5, 7]], dtype=np.uint32).T
    return V, E, np.array([0, 0, 0, 1, 1, 0, 1])


def border_catalogue(rng, thorough=False):
    out = []
    V, E, d = strip5()
    out.append(("strip5", V, E, d))
    V, E, d = lshape()
    out.append(("lshape_distorted", distort(V, rng, 0.12, affine=False), E, d))
    V, E, d = cornercut()
    out.append(("cornercut_distorted", distort(V, rng, 0.1), E, d))
    if thorough:
        V, E, d = strip5()
        E2, d2 = shuffle_elements(E, d, rng)
        out.append(("strip5_shuffled", distort(V, rng, 0.08), E2, d2))
    return out


def renumber(V, E, dom, rng):
    """Same mesh with permuted vertex numbers, permuted elements and rotated local vertex order."""
    nv = V.shape[1]
    p = rng.permutation(nv)                       # old vertex v -> new number p[v]
    V2 = np.empty_like(V)
    V2[:, p] = V
    E2 = p[E.astype(int)]
    E2, dom2 = shuffle_elements(E2.astype(np.uint32), np.asarray(dom), rng)
    return V2, E2.astype(np.uint32), dom2, p
