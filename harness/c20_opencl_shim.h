// Minimal model of the OpenCL C scalar/vector types and built-ins used by bempp_cl/core/sources/include/*.h so that
// the unmodified headers compile with g++ (C20 translator self-test and failing-input search; no OpenCL runtime here).
#ifndef C20_OPENCL_SHIM_H
#define C20_OPENCL_SHIM_H
#include <cmath>
#include <cstddef>
#define __global
#define __kernel
#define __local
#define __constant const

template <class T> struct shim_v2 { T x, y; };
template <class T> struct shim_v3 { T x, y, z; };
template <class T> inline shim_v3<T> operator-(const shim_v3<T>& a, const shim_v3<T>& b) { return {a.x - b.x, a.y - b.y, a.z - b.z}; }
template <class T> inline shim_v3<T> operator+(const shim_v3<T>& a, const shim_v3<T>& b) { return {a.x + b.x, a.y + b.y, a.z + b.z}; }
template <class T> inline shim_v3<T> operator-(const shim_v3<T>& a) { return {-a.x, -a.y, -a.z}; }
template <class T> inline T dot(const shim_v3<T>& a, const shim_v3<T>& b) { return a.x * b.x + a.y * b.y + a.z * b.z; }
template <class T> inline T length(const shim_v3<T>& a) { return std::sqrt(dot(a, a)); }
template <class T> inline T distance(const shim_v3<T>& a, const shim_v3<T>& b) { return length(a - b); }

template <class T, int N> struct shim_vn {
  T s[N];
  shim_vn() { for (int i = 0; i < N; ++i) s[i] = T(0); }
  shim_vn(T v) { for (int i = 0; i < N; ++i) s[i] = v; }   // scalar broadcast
  shim_vn& operator+=(const shim_vn& o) { for (int i = 0; i < N; ++i) s[i] += o.s[i]; return *this; }
  shim_vn& operator-=(const shim_vn& o) { for (int i = 0; i < N; ++i) s[i] -= o.s[i]; return *this; }
  shim_vn& operator*=(const shim_vn& o) { for (int i = 0; i < N; ++i) s[i] *= o.s[i]; return *this; }
  shim_vn& operator/=(const shim_vn& o) { for (int i = 0; i < N; ++i) s[i] /= o.s[i]; return *this; }
};
#define SHIM_BINOP(OP) \
  template <class T, int N> inline shim_vn<T, N> operator OP(const shim_vn<T, N>& a, const shim_vn<T, N>& b) { shim_vn<T, N> r; for (int i = 0; i < N; ++i) r.s[i] = a.s[i] OP b.s[i]; return r; } \
  template <class T, int N> inline shim_vn<T, N> operator OP(const shim_vn<T, N>& a, T b) { shim_vn<T, N> r; for (int i = 0; i < N; ++i) r.s[i] = a.s[i] OP b; return r; } \
  template <class T, int N> inline shim_vn<T, N> operator OP(T a, const shim_vn<T, N>& b) { shim_vn<T, N> r; for (int i = 0; i < N; ++i) r.s[i] = a OP b.s[i]; return r; }
SHIM_BINOP(+)
SHIM_BINOP(-)
SHIM_BINOP(*)
SHIM_BINOP(/)
template <class T, int N> inline shim_vn<T, N> operator-(const shim_vn<T, N>& a) { shim_vn<T, N> r; for (int i = 0; i < N; ++i) r.s[i] = -a.s[i]; return r; }
#define SHIM_FN(NAME, EXPR) \
  template <class T, int N> inline shim_vn<T, N> NAME(const shim_vn<T, N>& a) { shim_vn<T, N> r; for (int i = 0; i < N; ++i) { T v = a.s[i]; r.s[i] = EXPR; } return r; }
SHIM_FN(sqrt, std::sqrt(v))
SHIM_FN(rsqrt, T(1) / std::sqrt(v))
SHIM_FN(exp, std::exp(v))
SHIM_FN(cos, std::cos(v))
SHIM_FN(sin, std::sin(v))
inline float rsqrt(float v) { return 1.0f / std::sqrt(v); }
inline double rsqrt(double v) { return 1.0 / std::sqrt(v); }
using std::cos;
using std::exp;
using std::sin;
using std::sqrt;

typedef shim_v2<float> float2;
typedef shim_v3<float> float3;
typedef shim_vn<float, 4> float4;
typedef shim_vn<float, 8> float8;
typedef shim_vn<float, 16> float16;
typedef shim_v2<double> double2;
typedef shim_v3<double> double3;
typedef shim_vn<double, 4> double4;
typedef shim_vn<double, 8> double8;
typedef shim_vn<double, 16> double16;
#endif
