"""Mutation runner: python mutate.py <slot> <name> ; applies one mutation in worktree /tmp/wt-bm<slot>, runs the
listed checks from the scratch copy /tmp/verif-bm<slot>, prints the summary lines."""
import os, subprocess, sys, re

MUT = {
 # name: (file, old, new, checks)
 "c06_sign_sing": ("bempp_cl/core/numba_kernels.py",
    "                            surface_curl_products[test_fun_index, trial_fun_index]\n                            - wavenumber\n                            * wavenumber",
    "                            surface_curl_products[test_fun_index, trial_fun_index]\n                            + wavenumber\n                            * wavenumber", ["C06"]),
 "c06_edge_index": ("bempp_cl/core/numba_kernels.py",
    "                        * test_edge_lengths[i, test_fun_index]\n                        * trial_edge_lengths[trial_element_index, trial_fun_index]\n                    )\n\n\n@_numba.jit(nopython=True, parallel=True, error_model=\"numpy\", fastmath=True, boundscheck=False)\ndef maxwell_efield_singular(",
    "                        * test_edge_lengths[i, trial_fun_index]\n                        * trial_edge_lengths[trial_element_index, trial_fun_index]\n                    )\n\n\n@_numba.jit(nopython=True, parallel=True, error_model=\"numpy\", fastmath=True, boundscheck=False)\ndef maxwell_efield_singular(", ["C06", "C17"]),
 "c06_normal_mult": ("bempp_cl/core/numba_kernels.py",
    "                _np.cross(test_grid_data.normals[test_element], test_surface_gradients[:, i])\n                * test_normal_multipliers[test_element]\n            )\n\n    for trial_index in range(n_trial_elements):\n        trial_element = trial_elements[trial_index]\n        trial_surface_gradients = trial_grid_data.jac_inv_trans[trial_element] @ reference_gradient\n        for i in range(3):\n            trial_surface_curls[trial_index, :, i] = (\n                _np.cross(\n                    trial_grid_data.normals[trial_element],\n                    trial_surface_gradients[:, i],\n                )\n                * trial_normal_multipliers[trial_element]\n            )\n\n    for i in _numba.prange(n_test_elements):\n        test_element = test_elements[i]\n        local_result = _np.zeros((n_trial_elements, nshape_test, nshape_trial), dtype=result_type)\n        test_global_points = test_grid_data.local2global(test_element, quad_points)\n        test_normal = test_grid_data.normals[test_element] * test_normal_multipliers[test_element]\n        local_factors = _np.empty(n_trial_elements * n_quad_points, dtype=test_global_points.dtype)\n        tmp = _np.empty(n_trial_elements * n_quad_points, dtype=result_type)\n        is_adjacent = _np.zeros(n_trial_elements, dtype=_np.bool_)\n\n        for trial_element_index in range(n_trial_elements):\n            trial_element = trial_elements[trial_element_index]\n            if grids_identical and elements_adjacent(test_grid_data.elements, test_element, trial_element):\n                is_adjacent[trial_element_index] = True\n\n        for index in range(n_trial_elements * n_quad_points):\n            local_factors[index] = factors[index] * test_grid_data.integration_elements[test_element]\n        for test_point_index in range(n_quad_points):\n            test_global_point = test_global_points[:, test_point_index]\n            kernel_values = kernel_evaluator(\n                test_global_point,\n                trial_global_points,\n                test_normal,\n                trial_normals,\n                kernel_parameters,\n            )\n            for index in range(n_trial_elements * n_quad_points):\n                tmp[index] = kernel_values[index] * (local_factors[index] * quad_weights[test_point_index])\n\n            for trial_element_index in range(n_trial_elements):\n                if is_adjacent[trial_element_index]:\n                    continue\n                trial_element = trial_elements[trial_element_index]\n                trial_normal = trial_grid_data.normals[trial_element] * trial_normal_multipliers[trial_element]\n                normal_prod = _np.dot(test_normal, trial_normal)\n                curl_product = test_surface_curls_trans[i] @ trial_surface_curls[trial_element_index]\n                for test_fun_index in range(nshape_test):\n                    for trial_fun_index in range(nshape_trial):\n                        for quad_point_index in range(n_quad_points):\n                            local_result[trial_element_index, test_fun_index, trial_fun_index] += tmp[\n                                trial_element_index * n_quad_points + quad_point_index\n                            ] * (\n                                curl_product[test_fun_index, trial_fun_index]\n                                + wavenumber",
    None, ["C06"]),   # handled specially below (drop the test normal multiplier in modified helmholtz regular)
 "c06_div_factor": ("bempp_cl/core/numba_kernels.py",
    "                            - 4\n                            / (\n                                1j\n                                * wavenumber",
    "                            - 2\n                            / (\n                                1j\n                                * wavenumber", ["C06"]),
 "c07_pot_index": ("bempp_cl/core/numba_kernels.py",
    "                    * fun_values[0, fun_index, quad_point_index]\n                    * x[number_of_shape_functions * element + fun_index]",
    "                    * fun_values[0, fun_index, quad_point_index]\n                    * x[number_of_shape_functions * element_index + fun_index]", ["C07", "C02"]),
 "c07_mfield_pot_sign": ("bempp_cl/core/numba_kernels.py",
    "            result[1, point_index] += diff[2, trial_index] * val[0] - diff[0, trial_index] * val[2]",
    "            result[1, point_index] += diff[0, trial_index] * val[2] - diff[2, trial_index] * val[0]", ["C07"]),
 "c07_identical_guard": ("bempp_cl/core/numba_kernels.py",
    "    for i in _numba.prange(n_test_elements):\n        test_element = test_elements[i]\n        local_result = _np.zeros((n_trial_elements, nshape_test, nshape_trial), dtype=result_type)\n        test_global_points = test_grid_data.local2global(test_element, quad_points)\n        test_normal = test_grid_data.normals[test_element] * test_normal_multipliers[test_element]\n        local_factors = _np.empty(n_trial_elements * n_quad_points, dtype=test_global_points.dtype)\n        tmp = _np.empty(n_trial_elements * n_quad_points, dtype=result_type)\n        is_adjacent = _np.zeros(n_trial_elements, dtype=_np.bool_)\n\n        for trial_element_index in range(n_trial_elements):\n            trial_element = trial_elements[trial_element_index]\n            if grids_identical and elements_adjacent(",
    "    for i in _numba.prange(n_test_elements):\n        test_element = test_elements[i]\n        local_result = _np.zeros((n_trial_elements, nshape_test, nshape_trial), dtype=result_type)\n        test_global_points = test_grid_data.local2global(test_element, quad_points)\n        test_normal = test_grid_data.normals[test_element] * test_normal_multipliers[test_element]\n        local_factors = _np.empty(n_trial_elements * n_quad_points, dtype=test_global_points.dtype)\n        tmp = _np.empty(n_trial_elements * n_quad_points, dtype=result_type)\n        is_adjacent = _np.zeros(n_trial_elements, dtype=_np.bool_)\n\n        for trial_element_index in range(n_trial_elements):\n            trial_element = trial_elements[trial_element_index]\n            if trial_element < test_grid_data.elements.shape[1] and elements_adjacent(", ["C07"]),
 "c07_cloud_order": ("bempp_cl/api/grid/grid.py",
    "            + grid_data.jacobians[elem].dot(local_points)\n        ).T\n    return points",
    "            + grid_data.jacobians[elem].dot(local_points[:, ::-1])\n        ).T\n    return points", ["C07", "C17"]),
 "c17_dl_sign": ("bempp_cl/api/fmm/fmm_assembler.py",
    "        fmm_res = -(fmm_res1 + fmm_res2 + fmm_res3)", "        fmm_res = fmm_res1 + fmm_res2 + fmm_res3", ["C17"]),
 "c17_mfield_curl": ("bempp_cl/api/fmm/fmm_assembler.py",
    "                (vals[0][:, 2] - vals[2][:, 0]).reshape(-1, 1),", "                (vals[2][:, 0] - vals[0][:, 2]).reshape(-1, 1),", ["C17"]),
 "c17_div_factor": ("bempp_cl/api/fmm/fmm_assembler.py",
    "                data[index] = 2.0 * edge_lengths[function_index] * (weights[point_index])",
    "                data[index] = 1.0 * edge_lengths[function_index] * (weights[point_index])", ["C17"]),
 "c17_normals_mult": ("bempp_cl/api/fmm/fmm_assembler.py",
    "            normals[npoints * element + n, :] = grid.normals[element] * space.normal_multipliers[element]",
    "            normals[npoints * element + n, :] = grid.normals[element]", ["C17"]),
 "c17_nearfield_self": ("bempp_cl/api/fmm/helpers.py",
    "                for source_element_index in range(nneighbors):\n                    source_element = source_elements[source_element_index]\n                    for source_point_index in range(npoints):\n                        result[4 * npoints * target_element + 4 * target_point_index + i] += (",
    "                for source_element_index in range(nneighbors):\n                    source_element = source_elements[source_element_index]\n                    if source_element == target_element and nneighbors > 6:\n                        continue\n                    for source_point_index in range(npoints):\n                        result[4 * npoints * target_element + 4 * target_point_index + i] += (", ["C17"]),
 "c02_normals": ("bempp_cl/core/numba_kernels.py",
    "                output[dim, nrepetitions * index + n] = grid_data.normals[element, dim] * multipliers[element]",
    "                output[dim, nrepetitions * index + n] = grid_data.normals[element, dim]", ["C02", "C07"]),
 "c02_full_grid_map": ("bempp_cl/core/dense_potential_assembler.py",
    "            x_transformed = self.space.map_to_full_grid @ (self.space.dof_transformation @ x)",
    "            x_transformed = self.space.map_to_localised_space @ (self.space.dof_transformation @ x)", ["C02"]),
 "c02_dl_kernel_sign": ("bempp_cl/core/numba_kernels.py", None, None, ["C02"]),
 "c02_intel_index": ("bempp_cl/core/numba_kernels.py",
    "                tmp[number_of_quad_points * element_index + quad_point_index] += (\n                    grid_data.integration_elements[element]",
    "                tmp[number_of_quad_points * element_index + quad_point_index] += (\n                    grid_data.integration_elements[element_index]", ["C02"]),
 "c17_div_slot": ("bempp_cl/api/fmm/fmm_assembler.py", None, None, ["C17"]),
 "c06_mfield_sing_sign": ("bempp_cl/core/numba_kernels.py", None, None, ["C06"]),
 "c07_normals_grid": ("bempp_cl/core/numba_kernels.py", None, None, ["C07"]),
 "c02_mult_twice": ("bempp_cl/core/numba_kernels.py",
    "                    * x[number_of_shape_functions * element + fun_index]\n                )\n\n    for point_index in _numba.prange(number_of_points):\n        test_point = points[:, point_index]\n",
    "                    * x[number_of_shape_functions * element + fun_index]\n                    * normal_multipliers[element]\n                )\n\n    for point_index in _numba.prange(number_of_points):\n        test_point = points[:, point_index]\n", ["C02"]),
 "seed_C04_1": (None, None, None, ["C06"]),
}

def main():
    slot, name = sys.argv[1], sys.argv[2]
    wt, vf = "/tmp/wt-bm" + slot, "/tmp/verif-bm" + slot
    subprocess.run(["git", "-C", "/repo", "worktree", "remove", "--force", wt], capture_output=True)
    subprocess.run(["git", "-C", "/repo", "worktree", "add", "-f", wt, "HEAD"], capture_output=True, check=True)
    subprocess.run(["rsync", "-a", "--delete", "--exclude", ".git", "--exclude", ".scratch", "--exclude", "replays",
                    "--exclude", "evidence", "/verif/", vf + "/"], check=True)
    f, old, new, checks = MUT[name]
    if name == "seed_C04_1":
        subprocess.run(["git", "-C", wt, "apply", "/verif/seeded/C04-1/patch.diff"], check=True)
        f = "bempp_cl/core/numba_kernels.py"
    p = os.path.join(wt, f)
    s = open(p).read()
    if name == "seed_C04_1":
        s2 = s + "\n"
    elif name == "c17_div_slot":
        i = s.index("def compute_rwg_div_transform_impl(")
        j = s.index("iind[index] = number_of_quad_points * element + point_index", i)
        s2 = s[:j] + "iind[index] = number_of_quad_points * element_index + point_index" + s[j + len("iind[index] = number_of_quad_points * element + point_index"):]
    elif name == "c06_mfield_sing_sign":
        i = s.index("def maxwell_mfield_singular(")
        j = s.index("* (1j * wavenumber * dist - 1)", i)
        s2 = s[:j] + "* (1j * wavenumber * dist + 1)" + s[j + len("* (1j * wavenumber * dist - 1)"):]
    elif name == "c07_normals_grid":
        i = s.index("def default_scalar_regular_kernel(")
        t = "trial_normals = get_normals(trial_grid_data, n_quad_points, trial_elements, trial_normal_multipliers)"
        j = s.index(t, i)
        s2 = s[:j] + "trial_normals = get_normals(test_grid_data, n_quad_points, trial_elements, trial_normal_multipliers)" + s[j + len(t):]
    elif name == "c06_normal_mult":
        # modified Helmholtz regular hypersingular: forget the test normal multiplier in the surface curls
        i = s.index("def modified_helmholtz_hypersingular_regular(")
        j = s.index("* test_normal_multipliers[test_element]", i)
        s2 = s[:j] + "* 1.0" + s[j + len("* test_normal_multipliers[test_element]"):]
    elif name == "c02_dl_kernel_sign":
        i = s.index("def laplace_double_layer_regular(")
        j = s.index("return", i)
        line_end = s.index("\n", j)
        s2 = s[:j] + "return -(" + s[j + len("return"):line_end].strip() + ")" + s[line_end:]
    else:
        assert s.count(old) >= 1, "pattern not found"
        s2 = s.replace(old, new, 1)
    assert s2 != s
    open(p, "w").write(s2)
    d = subprocess.run(["git", "-C", wt, "diff", "--stat"], capture_output=True, text=True).stdout.strip().splitlines()[-1]
    print("MUTATION %s: %s" % (name, d), flush=True)
    for c in checks:
        env = dict(os.environ, VERIF_REPO=wt)
        r = subprocess.run(["timeout", "2400", vf + "/check", c, "--tier", "quick"], env=env, capture_output=True, text=True)
        lines = [l for l in (r.stdout + r.stderr).splitlines() if "WARNING" not in l]
        import json as _j
        try:
            ev = _j.load(open(vf + "/evidence/%s.json" % c))
            print("  %s corr_disagreements=%s failures_known=%s wall=%s" % (c, ev["coverage"]["correspondence"]["disagreements"], ev["coverage"]["known_findings_hit"], ev["wall_s"]))
        except Exception as ex:
            print("  (no evidence: %r)" % (ex,))
        keep = [l for l in lines if l.startswith(("VIOLATION", "BROKEN", "KNOWN", c + " tier"))]
        print("  %s exit=%d" % (c, r.returncode))
        for l in keep[:8]:
            print("    " + l[:230])
        sys.stdout.flush()
    subprocess.run(["git", "-C", "/repo", "worktree", "remove", "--force", wt], capture_output=True)
    subprocess.run(["rm", "-rf", vf])

main()
