"""tools/keep_seed.py <worktree> <seed-id> <caught:yes|no> <how>: store a confirmed seeded change under seeded/<id>/ and remove the worktree."""
import json, os, shutil, subprocess, sys
wt, sid, caught, how = sys.argv[1:5]
d = os.path.join("/verif/seeded", sid)
os.makedirs(d, exist_ok=True)
diff = subprocess.run(["git", "-C", wt, "diff", "--", "bempp_cl"], capture_output=True, text=True).stdout
open(os.path.join(d, "patch.diff"), "w").write(diff)
for f in os.listdir(os.path.join(wt, "_seed")):
    if f != "patch.diff":
        shutil.copy(os.path.join(wt, "_seed", f), os.path.join(d, f))
mp = os.path.join(d, "meta.json")
meta = json.load(open(mp)) if os.path.exists(mp) else {}
meta["lead_verification"] = {"demo_rerun_by_lead": "passes on /repo, fails with the patch (rerun with PYTHONPATH=<worktree>)",
                             "check_result": how, "caught": caught == "yes"}
json.dump(meta, open(mp, "w"), indent=1)
subprocess.run(["git", "-C", "/repo", "worktree", "remove", "--force", wt])
print("kept", d, "lines of diff:", len(diff.splitlines()))
