#!/bin/sh
# tools/seed_regress.sh [-P n] [seed ids...]: re-evaluate stored seeds against their property's check (default: all), n at a time
cd "$(dirname "$0")/.." || exit 2
P=4; [ "$1" = "-P" ] && { P=$2; shift 2; }
IDS="$*"; [ -z "$IDS" ] && IDS=$(ls seeded)
echo $IDS | tr ' ' '\n' | xargs -P $P -I{} sh -c 'p=$(echo {} | cut -d- -f1); tools/seed_eval.sh {} $p 2>&1 | grep -v "^Preparing\|^HEAD is" | cut -c1-260'
