"""Print the markdown table of seeded changes from seeded/*/{meta,eval}.json."""
import glob, json, os
print("| id | property | change | needs | caught by |\n|---|---|---|---|---|")
for d in sorted(glob.glob("/verif/seeded/*/")):
    sid = os.path.basename(d[:-1])
    m = json.load(open(d + "meta.json")) if os.path.exists(d + "meta.json") else {}
    e = json.load(open(d + "eval.json")) if os.path.exists(d + "eval.json") else {}
    lv = m.get("lead_verification", {})
    if e:
        how = ("`./check %s`: " % e["property"]) + ("; ".join(l.split("replays/")[-1].replace(".json", "") for l in e["check_violation_lines"][:2]) or "NOT caught")
        if e.get("check_broken_lines"):
            how += " (" + e["check_broken_lines"][0][:90].replace("|", "/") + ")"
        extra = e.get("also", "")
        if extra:
            how += "; " + extra
    else:
        how = lv.get("check_result", "?")
    cut = lambda t, n: (t[:n] + "…") if len(t) > n else t
    print("| %s | %s | %s | %s | %s |" % (sid, m.get("property", "?"), cut(m.get("what", "").replace("|", "/").replace("\n", " "), 260),
                                      cut(m.get("needs", "").replace("|", "/").replace("\n", " "), 200), how.replace("\n", " ")))
