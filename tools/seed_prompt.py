import json, sys
pid, n = sys.argv[1], sys.argv[2]
hint = sys.argv[3] if len(sys.argv) > 3 else ""
tests = sys.argv[4] if len(sys.argv) > 4 else "test/unit/integration test/validation/operators/boundary/test_laplace_boundary.py"
p = [json.loads(l) for l in open('/verif/properties.jsonl') if json.loads(l)['id'] == pid][0]
prop = "%s — %s\n    %s\n    Quantified over: %s" % (p['id'], p['title'], p['statement'], p['quantifier']['text'])
t = open('/verif/docs/SEED_PROMPT.md').read()
print(t.replace('{WT}', '/tmp/seed-%s-%s' % (pid, n)).replace('{PROPERTY}', prop).replace('{PID}', pid).replace('{HINT}', hint).replace('{TESTS}', tests))
