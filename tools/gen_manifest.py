"""Write MANIFEST.json from the META of every props/Cxx.py; properties without a module are listed under
not_applicable with the reason they are not claimed (yet)."""
import glob, importlib, json, os, sys
ROOT = os.path.dirname(os.path.dirname(os.path.abspath(__file__)))
sys.path.insert(0, ROOT)
ids = [json.loads(l)["id"] for l in open(os.path.join(ROOT, "properties.jsonl"))]
checks, na = [], []
for pid in ids:
    f = os.path.join(ROOT, "props", pid + ".py")
    mod = importlib.import_module("props." + pid) if os.path.exists(f) else None
    meta = getattr(mod, "META", None) if mod else None
    if not meta or meta.get("claimed", True) is False:
        na.append({"property_id": pid, "reason": (meta or {}).get(
            "reason", "not claimed yet: the Coq model and its correspondence for this property are still being built "
                      "(see DESIGN.md section 7 for the plan); nothing is asserted about it")})
        continue
    checks.append({
        "property_id": pid,
        "quick_cmd": "./check %s --tier quick" % pid,
        "thorough_cmd": "./check %s --tier thorough" % pid,
        "evidence_file": "/verif/evidence/%s.json" % pid,
        "replay_cmd_template": "./check %s --replay {path}" % pid,
        "engine": "coq-proof",
        "level_claimed": {"category": "proof", "text": meta["level_text"], "design_ref": meta.get("design_ref", "DESIGN.md §7 " + pid)},
        "level_note": meta["level_note"],
        "technique": meta["technique"],
    })
man = {
    "version": 1,
    "setup_cmd": "./setup.sh",
    "hooks": {"guard": "BEMPP_CL_VERIF", "enable": "none needed: every observation point is reachable from Python; checks "
              "run /repo's working tree through PYTHONPATH=/repo with BEMPP_CL_VERIF=1 set",
              "baseline_off_cmd": "cd /repo && /venv/bin/python -m pytest -ra -q -p no:cacheprovider --timeout=900 "
              "--continue-on-collection-errors", "source_commits": [], "add_only": True},
    "engines": [{"name": "coq-proof", "path": "/verif/check", "serves_properties": [c["property_id"] for c in checks],
                 "kind_free_text": "Coq 8.16 theorems over models regenerated from /repo by fail-closed translators or "
                 "hand-written and tied by a correspondence check; failing-input search on the implementation"}],
    "checks": checks,
    "not_applicable": na,
    "notes": "See DESIGN.md. known_findings.json lists recorded findings and fixed defects.",
}
json.dump(man, open(os.path.join(ROOT, "MANIFEST.json"), "w"), indent=1)
print("claimed:", [c["property_id"] for c in checks], "unclaimed:", len(na))
