#!/bin/sh
# tools/seed_eval.sh <seed-id> <Cxx> [tier]: confirm a stored seeded change (demo passes on /repo HEAD, fails with the patch)
# and run the property's check against HEAD+patch in a scratch worktree and scratch copy of /verif. Results -> seeded/<id>/eval.json
SID=$1; PID=$2; TIER=${3:-quick}
D=/verif/seeded/$SID; WT=/tmp/wt-eval-$SID
git -C /repo worktree remove --force $WT 2>/dev/null
git -C /repo worktree add -q $WT HEAD || exit 2
if ! git -C $WT apply $D/patch.diff; then echo "PATCH DOES NOT APPLY on HEAD"; git -C /repo worktree remove --force $WT; exit 3; fi
mkdir -p /verif/.scratch/seed-$SID; cd /verif/.scratch/seed-$SID
( PYTHONPATH=/repo timeout 900 /venv/bin/python $D/demo.py > demo_clean.txt 2>&1; echo $? > demo_clean.rc ) &
( PYTHONPATH=$WT timeout 900 /venv/bin/python $D/demo.py > demo_mod.txt 2>&1; echo $? > demo_mod.rc ) &
LINES_OUT=12 /verif/tools/try_seed.sh $WT $PID $TIER > check.txt 2>&1
wait
git -C /repo worktree remove --force $WT
/venv/bin/python - "$SID" "$PID" <<'PY'
import json,sys,os,re
sid,pid=sys.argv[1:3]
d='/verif/.scratch/seed-'+sid
chk=open(d+'/check.txt').read()
res={"seed":sid,"property":pid,"base":"HEAD of /repo (with the fix: commits) + patch.diff, scratch worktree",
 "demo_on_repo_head_rc":int(open(d+'/demo_clean.rc').read()),"demo_with_patch_rc":int(open(d+'/demo_mod.rc').read()),
 "demo_with_patch_last_line":[l for l in open(d+'/demo_mod.txt').read().splitlines() if 'WARNING' not in l][-1:][0:1],
 "check_violation_lines":[re.sub(r'replay=\S+/replays','replay=…/replays',l) for l in chk.splitlines() if l.startswith('VIOLATION')],
 "check_broken_lines":[l for l in chk.splitlines() if l.startswith('BROKEN')][:6],
 "check_summary":[l for l in chk.splitlines() if ' tier=' in l][-1:],
 "caught": any(l.startswith('VIOLATION') for l in chk.splitlines())}
json.dump(res,open('/verif/seeded/%s/eval.json'%sid,'w'),indent=1)
print(sid,pid,"demo clean rc",res["demo_on_repo_head_rc"],"mod rc",res["demo_with_patch_rc"],"caught",res["caught"],res["check_violation_lines"][:2],res["check_broken_lines"][:2])
PY
