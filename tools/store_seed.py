"""tools/store_seed.py <worktree> <seed-id>: copy patch/demo/meta of a seed agent's worktree into seeded/<id>/ and remove the worktree."""
import os, shutil, subprocess, sys
wt, sid = sys.argv[1:3]
d = os.path.join("/verif/seeded", sid); os.makedirs(d, exist_ok=True)
diff = subprocess.run(["git", "-C", wt, "diff", "--", "bempp_cl"], capture_output=True).stdout  # bytes: CRLF files
open(os.path.join(d, "patch.diff"), "wb").write(diff)
for f in os.listdir(os.path.join(wt, "_seed")):
    if f in ("demo.py", "meta.json"):
        shutil.copy(os.path.join(wt, "_seed", f), os.path.join(d, f))
subprocess.run(["git", "-C", "/repo", "worktree", "remove", "--force", wt])
print("stored", sid, len(diff.splitlines()), "diff lines")
