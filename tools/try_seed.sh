#!/bin/sh
# tools/try_seed.sh <repo-worktree-with-change> <Cxx> [tier]: run a check against a modified tree without touching /repo or /verif
WT=$1; PID=$2; TIER=${3:-quick}
T=/tmp/verif-try-$PID-$$
rsync -a --exclude .git --exclude .scratch --exclude replays --exclude evidence /verif/ $T/
(cd $T && VERIF_REPO=$WT ./check $PID --tier $TIER 2>&1 | grep -E '^(VIOLATION|KNOWN-FINDING|BROKEN|C[0-9]+ tier=)' | cut -c1-400 | awk '/^BROKEN/{b++; if(b>6) next} {print}')
echo "rc=$?"
[ -n "$KEEP" ] && echo "kept $T" || rm -rf $T
