#!/bin/sh
# tools/run_all.sh [-P n] [tier] [ids...] : run checks (default all claimed), n at a time; summary on stdout, logs in .scratch/runall/
cd "$(dirname "$0")/.." || exit 2
P=3; [ "$1" = "-P" ] && { P=$2; shift 2; }
TIER=${1:-quick}; [ $# -gt 0 ] && shift
IDS="$*"; [ -z "$IDS" ] && IDS=$(ls props | sed -n 's/^\(C[0-9][0-9]\)\.py$/\1/p')
mkdir -p .scratch/runall
echo $IDS | tr ' ' '\n' | xargs -P $P -I{} sh -c "./check {} --tier $TIER > .scratch/runall/{}.log 2>&1; echo rc=\$? >> .scratch/runall/{}.log"
for i in $IDS; do printf '%s ' $i; grep -c '^VIOLATION' .scratch/runall/$i.log | tr '\n' ' '; grep -c '^KNOWN-FINDING' .scratch/runall/$i.log | tr '\n' ' '; tail -2 .scratch/runall/$i.log | tr '\n' ' '; echo; done
