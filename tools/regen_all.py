"""Run every translator once (used by setup so that coq/gen exists before coq_makefile)."""
import importlib, os, sys, glob
sys.path.insert(0, os.path.dirname(os.path.dirname(os.path.abspath(__file__))))
from lib import vlib
bad = 0
for f in sorted(glob.glob(os.path.join(vlib.ROOT, "props", "C*.py"))):
    pid = os.path.basename(f)[:-3]
    mod = importlib.import_module("props." + pid)
    ctx = vlib.Ctx(pid, "quick", 0)
    try:
        mod.regen(ctx)
    except Exception as e:
        ctx.problem("tie", "regen crashed", e)
    for p in ctx.problems:
        bad += 1
        print("regen %s: %s: %s" % (pid, p["what"], p["detail"][:300]))
print("regen done, problems:", bad)
