"""Translator (tie T of C14/C15): the algebra classes of bempp_cl/api/assembly/*.py -> gen/OpClasses.v (fail closed).

For every algebra class the translator emits, as terms of BV.Algebra.OpLang:
  * the guard of __init__ (boolean expression over space compatibilities that decides `raise ValueError`),
  * the spaces handed to the base-class constructor,
  * the body of _assemble / evaluate / strong_form as a `tm`,
  * the dunder methods (__add__, __neg__, __sub__, __mul__, __rmul__, __matmul__) as `dexp` / dispatch tables,
and resolves every attribute / method name used on `self` and on the operands against the class hierarchy
(`resolution` table; unresolved names are listed, not hidden).
Python constructs outside the recognised subset raise TieBroken with file:line.
"""
import ast

from lib.vlib import TieBroken

ASM = "bempp_cl/api/assembly/"
FILES = {"boundary": ASM + "boundary_operator.py", "potential": ASM + "potential_operator.py",
         "blocked": ASM + "blocked_operator.py", "discrete": ASM + "discrete_boundary_operator.py",
         "gridfun": ASM + "grid_function.py"}


class Src:
    def __init__(self, ctx, rel):
        self.rel = rel
        self.path = ctx.src(rel)
        self.tree = ast.parse(open(self.path).read())
        self.classes = {n.name: n for n in self.tree.body if isinstance(n, ast.ClassDef)}
        self.functions = {n.name: n for n in self.tree.body if isinstance(n, ast.FunctionDef)}

    def fail(self, node, msg):
        raise TieBroken("%s:%s: %s" % (self.rel, getattr(node, "lineno", "?"), msg))

    def cls(self, name):
        if name not in self.classes:
            raise TieBroken("%s: class %s not found" % (self.rel, name))
        return self.classes[name]

    def method(self, cname, mname, required=True):
        for n in self.cls(cname).body:
            if isinstance(n, ast.FunctionDef) and n.name == mname:
                return n
        if required:
            raise TieBroken("%s: method %s.%s not found" % (self.rel, cname, mname))
        return None


def u(n):
    return ast.unparse(n)


def body_of(fn):
    """Statements of a function without docstring and local imports."""
    out = []
    for s in fn.body:
        if isinstance(s, ast.Expr) and isinstance(s.value, ast.Constant) and isinstance(s.value.value, str):
            continue
        if isinstance(s, (ast.Import, ast.ImportFrom)):
            continue
        out.append(s)
    return out


SPK = {"domain": "Dom", "range": "Ran", "dual_to_range": "Dual", "space": "Space", "dual_space": "DualSp",
       "_domain": "Dom", "_range": "Ran", "_dual_to_range": "Dual",
       "domain_spaces": "Dom", "range_spaces": "Ran", "dual_to_range_spaces": "Dual"}


class Scope:
    """name -> side for the current method (ctor: op1/op -> SL, op2 -> SR; dunder: self -> SSelf, other -> SR)."""

    def __init__(self, src, names, fields=None):
        self.src, self.names, self.fields = src, names, fields or {}

    def side(self, node):
        if isinstance(node, ast.Name) and node.id in self.names:
            return self.names[node.id]
        if (isinstance(node, ast.Attribute) and isinstance(node.value, ast.Name) and node.value.id == "self"
                and node.attr in self.fields):
            return self.fields[node.attr]
        self.src.fail(node, "cannot tell which operand `%s` is" % u(node))

    def space(self, node):
        """x.domain / x.range / x.dual_to_range / x.space / x.dual_space -> (side, kind)"""
        if isinstance(node, ast.Attribute) and node.attr in SPK:
            return self.side(node.value), SPK[node.attr]
        self.src.fail(node, "not a space expression: " + u(node))

    def guard(self, node):
        if isinstance(node, ast.UnaryOp) and isinstance(node.op, ast.Not):
            return "(GNot %s)" % self.guard(node.operand)
        if isinstance(node, ast.BoolOp):
            op = "GOr" if isinstance(node.op, ast.Or) else "GAnd"
            acc = self.guard(node.values[0])
            for v in node.values[1:]:
                acc = "(%s %s %s)" % (op, acc, self.guard(v))
            return acc
        if isinstance(node, ast.Call) and isinstance(node.func, ast.Attribute) and len(node.args) == 1 \
                and not node.keywords:
            if node.func.attr == "is_compatible":
                (a, ka), (b, kb) = self.space(node.func.value), self.space(node.args[0])
                return "(GCompat %s %s %s %s)" % (a, ka, b, kb)
            # a method call on an operand: resolved (or not) against the class by the model
            return '(GCall %s "%s" %s)' % (self.side(node.func.value), node.func.attr, self.side(node.args[0]))
        if isinstance(node, ast.Compare) and len(node.ops) == 1:
            l, r = node.left, node.comparators[0]
            if isinstance(node.ops[0], (ast.Eq, ast.NotEq)):
                neg = isinstance(node.ops[0], ast.NotEq)
                if isinstance(r, ast.Constant) and r.value == "dual" and isinstance(l, ast.Attribute) \
                        and l.attr == "representation":
                    g = "(GRepDual %s)" % self.side(l.value)
                elif isinstance(r, ast.Constant) and r.value == 0 and u(l).startswith("np.linalg.norm("):
                    # np.linalg.norm(a.p - b.p, ord=np.inf) == 0
                    d = l.args[0]
                    if not (isinstance(d, ast.BinOp) and isinstance(d.op, ast.Sub) and isinstance(d.left, ast.Attribute)
                            and isinstance(d.right, ast.Attribute) and d.left.attr == d.right.attr
                            and u(l.keywords[0].value) == "np.inf"):
                        self.src.fail(node, "unrecognised norm test")
                    g = '(GSamePoints %s %s "%s")' % (self.side(d.left.value), self.side(d.right.value), d.left.attr)
                elif isinstance(l, ast.Attribute) and isinstance(r, ast.Attribute) and l.attr in SPK and r.attr in SPK:
                    (a, ka), (b, kb) = self.space(l), self.space(r)
                    g = "(GCompat %s %s %s %s)" % (a, ka, b, kb)
                elif isinstance(l, ast.Attribute) and isinstance(r, ast.Attribute) and l.attr == r.attr:
                    g = '(GEqProp %s %s "%s")' % (self.side(l.value), self.side(r.value), l.attr)
                else:
                    self.src.fail(node, "unrecognised comparison " + u(node))
                return "(GNot %s)" % g if neg else g
        self.src.fail(node, "unrecognised guard " + u(node))

    def tm(self, node):
        if isinstance(node, ast.BinOp):
            if isinstance(node.op, ast.Add):
                return "(TAdd %s %s)" % (self.tm(node.left), self.tm(node.right))
            if isinstance(node.op, (ast.Mult, ast.MatMult)):
                return "(TMul %s %s)" % (self.tm(node.left), self.tm(node.right))
            if isinstance(node.op, ast.Div) and u(node.left) in ("1.0", "1") and u(node.right) == "alpha":
                return "TInvAlpha"
            self.src.fail(node, "unsupported operator in " + u(node))
        if isinstance(node, ast.Call) and isinstance(node.func, ast.Attribute) and not node.keywords:
            m = node.func.attr
            if m in ("weak_form", "strong_form", "projections") and not node.args:
                return "(%s %s)" % ({"weak_form": "TWeak", "strong_form": "TStrong", "projections": "TProj"}[m],
                                    self.side(node.func.value))
            if m == "evaluate" and len(node.args) == 1 and u(node.args[0]) == "grid_fun":
                return "(TEval %s)" % self.side(node.func.value)
        if isinstance(node, ast.Call) and u(node.func) == "get_inverse_mass_matrix" and len(node.args) == 2:
            (a, ka), (b, kb) = self.space(node.args[0]), self.space(node.args[1])
            if a != "SSelf" or b != "SSelf":
                self.src.fail(node, "inverse mass matrix of a foreign object")
            return "(TInvMass %s %s)" % (ka, kb)
        if isinstance(node, ast.Attribute):
            if node.attr == "coefficients":
                return "(TCoef %s)" % self.side(node.value)
            if node.attr == "_projections":
                return "(TProj %s)" % self.side(node.value)
            if u(node) == "self._alpha":
                return "TAlpha"
        if isinstance(node, ast.Name) and node.id in ("alpha",):
            return "TAlpha"
        if isinstance(node, ast.Constant) and node.value in (-1, -1.0):
            return "TMinusOne"
        if isinstance(node, ast.UnaryOp) and isinstance(node.op, ast.USub) and u(node.operand) in ("1", "1.0"):
            return "TMinusOne"
        self.src.fail(node, "unrecognised term " + u(node))

    def dexp(self, node):
        """What a dunder returns."""
        if isinstance(node, ast.Name):
            if node.id == "self":
                return "DSelf"
            if node.id in self.names and self.names[node.id] == "SR":
                return "DOther"
            if node.id == "NotImplemented":
                return "DNotImplemented"
            if node.id == "NotImplementedError":
                return "DReturnClassNotImplementedError"
        if isinstance(node, ast.UnaryOp) and isinstance(node.op, ast.USub):
            if u(node.operand) in ("1", "1.0"):
                return "DMinusOne"
            return "(DNeg %s)" % self.dexp(node.operand)
        if isinstance(node, ast.Constant) and node.value in (-1, -1.0):
            return "DMinusOne"
        if isinstance(node, ast.BinOp) and isinstance(node.op, ast.Div) and u(node.left) in ("1.0", "1"):
            return "(DInv %s)" % self.dexp(node.right)
        if isinstance(node, ast.BinOp) and isinstance(node.op, ast.Mult):
            return "(DMul %s %s)" % (self.dexp(node.left), self.dexp(node.right))
        if isinstance(node, ast.BinOp) and isinstance(node.op, ast.Add):
            return "(DAdd %s %s)" % (self.dexp(node.left), self.dexp(node.right))
        if isinstance(node, ast.Call) and not node.keywords:
            f = node.func
            if isinstance(f, ast.Name) and len(node.args) == 2 and (f.id in self.src.classes):
                return '(DNew "%s" %s %s)' % (f.id, self.dexp(node.args[0]), self.dexp(node.args[1]))
            if isinstance(f, ast.Attribute) and len(node.args) == 1 and f.attr == "evaluate" and u(f.value) == "self":
                return "DApply"
            if isinstance(f, ast.Attribute) and len(node.args) == 1 and f.attr in ("__add__", "__mul__", "__div__"):
                k = {"__add__": "DAdd", "__mul__": "DMul", "__div__": "DDiv"}[f.attr]
                return "(%s %s %s)" % (k, self.dexp(f.value), self.dexp(node.args[0]))
        self.src.fail(node, "unrecognised dunder result " + u(node))


def ctor_fields(src, cname, arg_sides):
    """self._x = arg assignments of __init__ -> {'_x': side}"""
    init = src.method(cname, "__init__")
    fields = {}
    for s in body_of(init):
        if isinstance(s, ast.Assign) and len(s.targets) == 1 and isinstance(s.targets[0], ast.Attribute) \
                and u(s.targets[0].value) == "self" and isinstance(s.value, ast.Name):
            if s.value.id in arg_sides:
                fields[s.targets[0].attr] = arg_sides[s.value.id]
            elif s.value.id == "alpha":
                fields[s.targets[0].attr] = "ALPHA"
    return fields


def ctor_guard(src, cname, arg_sides):
    """The `if <cond>: raise ValueError(...)` statements of __init__ (in order) -> gexp; none -> GFalse."""
    init = src.method(cname, "__init__")
    sc = Scope(src, arg_sides)
    gs = []
    for s in body_of(init):
        if isinstance(s, ast.If):
            if not (len(s.body) == 1 and isinstance(s.body[0], ast.Raise) and not s.orelse
                    and u(s.body[0].exc).startswith("ValueError(")):
                src.fail(s, "unrecognised conditional in %s.__init__" % cname)
            gs.append(sc.guard(s.test))
    if not gs:
        return "GFalse"
    acc = gs[0]
    for g in gs[1:]:
        acc = "(GOr %s %s)" % (acc, g)
    return acc


def super_spaces(src, cname, arg_sides):
    """The (domain, range, dual) handed to BoundaryOperator.__init__."""
    init = src.method(cname, "__init__")
    sc = Scope(src, arg_sides)
    for s in body_of(init):
        if isinstance(s, ast.Expr) and isinstance(s.value, ast.Call) and u(s.value.func).startswith("super(") \
                and u(s.value.func).endswith(".__init__"):
            a = s.value.args
            if len(a) != 4:
                src.fail(s, "BoundaryOperator.__init__ takes (domain, range, dual, parameters)")
            return [sc.space(x) for x in a[:3]]
    src.fail(init, "no super().__init__ call in %s" % cname)


def single_return(src, fn):
    b = body_of(fn)
    if len(b) != 1 or not isinstance(b[0], ast.Return):
        src.fail(fn, "expected a single return in %s" % fn.name)
    return b[0].value


def dispatch(src, fn, sc):
    """if np.isscalar(x): return A  elif isinstance(x, C): return B ... else: return NotImplemented
       -> [(operand kind, dexp or ('apply', stmts))]"""
    b = body_of(fn)
    if len(b) != 1 or not isinstance(b[0], ast.If):
        src.fail(fn, "expected an if/elif dispatch in %s" % fn.name)
    out, node = [], b[0]
    kinds = {"BoundaryOperator": "OOperator", "GridFunction": "OFunction", "BlockedOperatorBase": "OOperator",
             "Iterable": "OList", "_DiscreteOperatorBase": "OOperator"}
    while True:
        t = u(node.test)
        if t in ("np.isscalar(%s)" % a for a in sc.names) or t in ("_np.isscalar(%s)" % a for a in sc.names):
            kind = "OScalar"
        elif t.startswith("isinstance(") and t[:-1].split(", ")[-1] in kinds:
            kind = kinds[t[:-1].split(", ")[-1]]
        else:
            src.fail(node, "unrecognised dispatch test " + t)
        if len(node.body) == 1 and isinstance(node.body[0], ast.Return):
            out.append((kind, sc.dexp(node.body[0].value)))
        else:
            out.append((kind, ("stmts", node.body)))
        if len(node.orelse) == 1 and isinstance(node.orelse[0], ast.If):
            node = node.orelse[0]
            continue
        if len(node.orelse) != 1 or not isinstance(node.orelse[0], ast.Return):
            src.fail(node, "dispatch must end in a return")
        out.append(("OOther", sc.dexp(node.orelse[0].value)))
        return out


def disp_coq(entries):
    return "[" + "; ".join("(%s, %s)" % (k, v if isinstance(v, str) else "DApply") for k, v in entries) + "]"


# ---- boundary operators ---------------------------------------------------------------------------------------
def boundary(ctx, lines, info):
    src = Src(ctx, FILES["boundary"])
    specs = [("_SumBoundaryOperator", {"op1": "SL", "op2": "SR"}), ("_ScaledBoundaryOperator", {"op": "SL"}),
             ("_ProductBoundaryOperator", {"op1": "SL", "op2": "SR"})]
    names = []
    for cname, args in specs:
        fields = ctor_fields(src, cname, args)
        g = ctor_guard(src, cname, args)
        sp = super_spaces(src, cname, args)
        body = Scope(src, {}, fields).tm(single_return(src, src.method(cname, "_assemble")))
        coq = cname.strip("_")
        names.append(coq)
        lines.append('Definition %s : bclass := {| b_name := "%s"; b_guard := %s;\n  b_dom := (%s, %s); b_ran := (%s, %s); '
                     'b_dual := (%s, %s);\n  b_body := %s |}.' % (coq, cname, g, sp[0][0], sp[0][1], sp[1][0], sp[1][1],
                                                                sp[2][0], sp[2][1], body))
        info["classes"][cname] = {"guard": g, "spaces": sp, "body": body}
    lines.append("Definition boundary_classes : list bclass := [%s]." % "; ".join(names))
    base = "BoundaryOperator"
    sc = Scope(src, {"self": "SSelf", "other": "SR"})
    add = sc.dexp(single_return(src, src.method(base, "__add__")))
    neg = sc.dexp(single_return(src, src.method(base, "__neg__")))
    sub = sc.dexp(single_return(src, src.method(base, "__sub__")))
    matmul = sc.dexp(single_return(src, src.method(base, "__matmul__")))
    mul = dispatch(src, src.method(base, "__mul__"), sc)
    rmul = dispatch(src, src.method(base, "__rmul__"), sc)
    # the GridFunction branch of __mul__
    fb = [v for k, v in mul if k == "OFunction"]
    if len(fb) != 1 or isinstance(fb[0], str):
        src.fail(src.method(base, "__mul__"), "GridFunction branch of __mul__ not found")
    stm = fb[0][1]
    if not (len(stm) == 2 and isinstance(stm[0], ast.If) and isinstance(stm[0].body[0], ast.Raise)
            and u(stm[0].body[0].exc).startswith("ValueError(") and isinstance(stm[1], ast.Return)):
        src.fail(stm[0], "unrecognised GridFunction branch")
    ag = sc.guard(stm[0].test)
    call = stm[1].value
    if not (isinstance(call, ast.Call) and u(call.func) == "GridFunction" and len(call.args) == 1):
        src.fail(call, "expected GridFunction(space, projections=..., dual_space=...)")
    kw = {k.arg: k.value for k in call.keywords}
    if set(kw) != {"projections", "dual_space"}:
        src.fail(call, "expected projections= and dual_space=")
    asp, adu = sc.space(call.args[0]), sc.space(kw["dual_space"])
    if asp[0] != "SSelf" or adu[0] != "SSelf":
        src.fail(call, "result spaces must come from self")
    aproj = sc.tm(kw["projections"])
    # strong_form
    sf = body_of(src.method(base, "strong_form"))
    if not (len(sf) == 2 and isinstance(sf[0], ast.If) and u(sf[0].test) == "self._range_map is None"
            and len(sf[0].body) == 1 and isinstance(sf[0].body[0], ast.Assign)
            and u(sf[0].body[0].targets[0]) == "self._range_map" and isinstance(sf[1], ast.Return)
            and u(sf[1].value) == "self._range_map * self.weak_form()"):
        src.fail(sf[0], "strong_form changed shape")
    strong = "(TMul %s (TWeak SSelf))" % sc.tm(sf[0].body[0].value)
    # weak_form caching
    wf = [u(s) for s in body_of(src.method(base, "weak_form"))]
    if wf != ["if not self._cached:\n    self._cached = self._assemble()", "return self._cached"]:
        src.fail(src.method(base, "weak_form"), "weak_form changed shape")
    lines.append("Definition BD : bdunders := {|\n  bd_add := %s; bd_neg := %s; bd_sub := %s;\n  bd_mul := %s;\n  bd_rmul := %s;\n"
                 "  bd_matmul := %s;\n  bd_strong := %s;\n  bd_apply_guard := %s; bd_apply_space := %s; bd_apply_dual := %s;\n"
                 "  bd_apply_proj := %s |}." % (add, neg, sub, disp_coq(mul), disp_coq(rmul), matmul, strong, ag, asp[1],
                                               adu[1], aproj))
    info["boundary_dunders"] = {"add": add, "neg": neg, "sub": sub, "mul": disp_coq(mul), "rmul": disp_coq(rmul)}
    return src


# ---- potential operators --------------------------------------------------------------------------------------
def guarded_return(src, fn, sc):
    """`if cond: raise ValueError(..)` followed by `return e`  ->  (gexp, dexp)"""
    b = body_of(fn)
    if not (len(b) == 2 and isinstance(b[0], ast.If) and len(b[0].body) == 1 and isinstance(b[0].body[0], ast.Raise)
            and not b[0].orelse and u(b[0].body[0].exc).startswith("ValueError(") and isinstance(b[1], ast.Return)):
        src.fail(fn, "expected `if ..: raise ValueError` + return in %s" % fn.name)
    return sc.guard(b[0].test), sc.dexp(b[1].value)


def prop_path(src, fn):
    """@property body `return self.a.b` -> ['a', 'b']"""
    v = single_return(src, fn)
    path = []
    while isinstance(v, ast.Attribute):
        path.append(v.attr)
        v = v.value
    if not (isinstance(v, ast.Name) and v.id == "self") or len(path) != 2:
        src.fail(fn, "property %s is not of the form self.<field>.<attribute>" % fn.name)
    return list(reversed(path))


def is_property(fn):
    return any(u(d) == "property" for d in fn.decorator_list)


def strl(xs):
    return "[" + "; ".join('"%s"' % x for x in xs) + "]"


def potential(ctx, lines, info):
    src = Src(ctx, FILES["potential"])
    asm = Src(ctx, ASM + "assembler.py")
    specs = [("_ScaledPotentialOperator", {"op": "SL"}), ("_SumPotentialOperator", {"op1": "SL", "op2": "SR"})]
    names = []
    for cname, args in specs:
        fields = ctor_fields(src, cname, args)
        g = ctor_guard(src, cname, args)
        body = Scope(src, {}, fields).tm(single_return(src, src.method(cname, "evaluate")))
        props = [(n.name, prop_path(src, n)) for n in src.cls(cname).body
                 if isinstance(n, ast.FunctionDef) and is_property(n)]
        coq = cname.strip("_")
        names.append(coq)
        lines.append('Definition %s : pclass := {| p_name := "%s"; p_guard := %s;\n  p_body := %s;\n  p_props := [%s];\n'
                     '  p_fields := [%s] |}.' % (
                         coq, cname, g, body, "; ".join('("%s", %s)' % (k, strl(v)) for k, v in props),
                         "; ".join('("%s", %s)' % (k, v) for k, v in fields.items() if v != "ALPHA")))
        info["classes"][cname] = {"guard": g, "body": body, "props": props}
    lines.append("Definition potential_classes : list pclass := [%s]." % "; ".join(names))
    base = "PotentialOperator"
    sc = Scope(src, {"self": "SSelf", "other": "SR", "obj": "SR"})
    props = [(n.name, prop_path(src, n)) for n in src.cls(base).body if isinstance(n, ast.FunctionDef) and is_property(n)]
    compat = sc.guard(single_return(src, src.method(base, "_is_compatible")))
    add_g, add = guarded_return(src, src.method(base, "__add__"), sc)
    neg = sc.dexp(single_return(src, src.method(base, "__neg__")))
    sub = sc.dexp(single_return(src, src.method(base, "__sub__")))
    matmul = sc.dexp(single_return(src, src.method(base, "__matmul__")))
    mul = dispatch(src, src.method(base, "__mul__"), sc)
    rmul = dispatch(src, src.method(base, "__rmul__"), sc)
    fb = [v for k, v in mul if k == "OFunction"]
    if len(fb) != 1 or not (isinstance(fb[0], tuple) or True):
        src.fail(src.method(base, "__mul__"), "GridFunction branch missing")
    ev = u(single_return(src, src.method(base, "evaluate")))
    if ev != "self._evaluator.evaluate(grid_fun.coefficients)":
        src.fail(src.method(base, "evaluate"), "PotentialOperator.evaluate changed: " + ev)
    pa = asm.method("PotentialAssembler", "__init__")
    attrs = [s.targets[0].attr for s in body_of(pa) if isinstance(s, ast.Assign) and isinstance(s.targets[0], ast.Attribute)
             and u(s.targets[0].value) == "self" and not s.targets[0].attr.startswith("_")]
    lines.append('Definition PB : pbase := {|\n  pb_props := [%s];\n  pb_methods := [("_is_compatible", %s)];\n'
                 '  pb_evaluator_attrs := %s;\n  pb_add_guard := %s; pb_add := %s; pb_neg := %s; pb_sub := %s;\n'
                 '  pb_mul := %s;\n  pb_rmul := %s;\n  pb_matmul := %s;\n  pb_eval := (TMul (TWeak SSelf) (TCoef SR)) |}.' % (
                     "; ".join('("%s", %s)' % (k, strl(v)) for k, v in props), compat, strl(attrs), add_g, add, neg, sub,
                     disp_coq([(k, v if isinstance(v, str) else "DApply") for k, v in mul]), disp_coq(rmul), matmul))
    info["potential_base"] = {"props": props, "compat": compat, "attrs": attrs, "add_guard": add_g}
    return src, asm


# ---- attribute / method resolution ----------------------------------------------------------------------------
EXTERNAL = {
    "_LinearOperator": {"shape", "dtype", "dot", "matvec", "matmat", "rmatvec", "rmatmat", "transpose", "adjoint", "T",
                        "H", "ndim", "_matvec", "_matmat", "_rmatvec", "_rmatmat", "_adjoint", "_transpose", "__add__",
                        "__mul__", "__neg__", "__sub__", "__rmul__", "__matmul__", "__call__", "__pow__", "__init__",
                        "__truediv__", "_init_dtype"},
    "object": {"__init__", "__class__", "__eq__", "__ne__", "__hash__", "__repr__"},
}
# static types of constructor parameters / fields, per family base class
FAMILY = {"BoundaryOperator": "BoundaryOperator", "PotentialOperator": "PotentialOperator",
          "BlockedOperatorBase": "BlockedOperatorBase", "_DiscreteOperatorBase": "_DiscreteOperatorBase"}
OPERAND_NAMES = {"op", "op1", "op2", "_op", "_op1", "_op2"}
OTHER_TYPES = {("PotentialOperator", "_evaluator"): "PotentialAssembler",
               ("BoundaryOperatorWithAssembler", "_assembler"): "AssemblerInterface",
               ("BoundaryOperatorWithAssembler", "assembler"): "AssemblerInterface",
               ("MultitraceOperatorFromAssembler", "_assembler"): "AssemblerInterface"}


class Registry:
    def __init__(self, srcs):
        self.cls, self.where = {}, {}
        for s in srcs:
            for n, c in s.classes.items():
                self.cls[n] = c
                self.where[n] = s

    def bases(self, name):
        out = []
        for b in self.cls[name].bases:
            bn = u(b)
            out.append(bn)
        return out

    def mro(self, name):
        seen, todo = [], [name]
        while todo:
            n = todo.pop(0)
            if n in seen:
                continue
            seen.append(n)
            if n in self.cls:
                todo.extend(self.bases(n))
        return seen

    def own_members(self, name):
        if name not in self.cls:
            return set(EXTERNAL.get(name, set()))
        out = set()
        for n in self.cls[name].body:
            if isinstance(n, ast.FunctionDef):
                out.add(n.name)
                for s in ast.walk(n):
                    if isinstance(s, (ast.Assign, ast.AugAssign, ast.AnnAssign)):
                        tg = s.targets if isinstance(s, ast.Assign) else [s.target]
                        for t in tg:
                            for el in (t.elts if isinstance(t, ast.Tuple) else [t]):
                                if isinstance(el, ast.Attribute) and u(el.value) == "self":
                                    out.add(el.attr)
            elif isinstance(n, ast.Assign):
                for t in n.targets:
                    if isinstance(t, ast.Name):
                        out.add(t.id)
        return out

    def members(self, name):
        out = set()
        for n in self.mro(name):
            out |= self.own_members(n)
        return out

    def leaves(self, name):
        subs = [c for c in self.cls if name in self.mro(c) and c != name]
        return [c for c in subs if not any(c in self.mro(d) and d != c for d in self.cls)]

    def resolves(self, tname, attr):
        if attr in self.members(tname):
            return True
        lv = self.leaves(tname)
        return bool(lv) and all(attr in self.members(c) for c in lv)

    def family(self, cname):
        for n in self.mro(cname):
            if n in FAMILY:
                return FAMILY[n]
        return None


def resolution(reg, only_files):
    """[(class, method, receiver type, attribute, resolved)] for every attribute used on a typed receiver."""
    rows = []
    for cname, cdef in reg.cls.items():
        if reg.where[cname].rel not in only_files:
            continue
        fam = reg.family(cname)
        for fn in cdef.body:
            if not isinstance(fn, ast.FunctionDef):
                continue
            params = {a.arg for a in fn.args.args}
            for node in ast.walk(fn):
                if not isinstance(node, ast.Attribute):
                    continue
                recv, attr, ty = node.value, node.attr, None
                if isinstance(recv, ast.Name) and recv.id == "self":
                    ty = cname
                elif isinstance(recv, ast.Name) and recv.id in OPERAND_NAMES and recv.id in params and fam:
                    ty = fam
                elif isinstance(recv, ast.Attribute) and u(recv.value) == "self":
                    if recv.attr in OPERAND_NAMES and fam:
                        ty = fam
                    else:
                        for k in reg.mro(cname):
                            if (k, recv.attr) in OTHER_TYPES:
                                ty = OTHER_TYPES[(k, recv.attr)]
                if ty is None:
                    continue
                rows.append((cname, fn.name, ty, attr, reg.resolves(ty, attr)))
    return sorted(set(rows))


# ---- discrete operators (C14_discrete_algebra) ------------------------------------------------------------------
def dtm(src, node, fields):
    """Bodies of to_dense / _matvec of the composite discrete classes -> DiscLang.dtm"""
    def side(n):
        if isinstance(n, ast.Attribute) and u(n.value) == "self" and n.attr in fields:
            return fields[n.attr]
        src.fail(n, "unknown operand " + u(n))
    if isinstance(node, ast.Name) and node.id == "x":
        return "XArg"
    if u(node) == "self._alpha":
        return "XAlpha"
    if isinstance(node, ast.Call) and isinstance(node.func, ast.Attribute) and node.func.attr == "to_dense" \
            and not node.args:
        return "(XDense %s)" % side(node.func.value)
    if isinstance(node, ast.BinOp):
        if isinstance(node.op, ast.Add):
            return "(XAdd %s %s)" % (dtm(src, node.left, fields), dtm(src, node.right, fields))
        if isinstance(node.op, ast.MatMult):
            l = node.left
            if isinstance(l, ast.Attribute) and u(l.value) == "self" and l.attr in fields and fields[l.attr] != "ALPHA":
                return "(XApply %s %s)" % (side(l), dtm(src, node.right, fields))
            return "(XMatMul %s %s)" % (dtm(src, node.left, fields), dtm(src, node.right, fields))
        if isinstance(node.op, ast.Mult):
            return "(XScale %s %s)" % (dtm(src, node.left, fields), dtm(src, node.right, fields))
    src.fail(node, "unrecognised discrete term " + u(node))


def discrete(ctx, lines, info):
    src = Src(ctx, FILES["discrete"])
    specs = [("_ScaledDiscreteOperator", {"op": "SL"}), ("_SumDiscreteOperator", {"op1": "SL", "op2": "SR"}),
             ("_ProductDiscreteOperator", {"op1": "SL", "op2": "SR"})]
    names = []
    for cname, args in specs:
        fields = ctor_fields(src, cname, args)
        init = src.method(cname, "__init__")
        guards = [s for s in body_of(init) if isinstance(s, ast.If)]
        g = "SGNone"
        if guards:
            if len(guards) != 1 or not isinstance(guards[0].body[0], ast.Raise):
                src.fail(init, "unrecognised guard in %s" % cname)
            t = u(guards[0].test)
            known = {"op1.shape != op2.shape": "SGSameShape", "op1.shape[1] != op2.shape[0]": "SGInner"}
            if t not in known:
                src.fail(guards[0], "unrecognised shape guard " + t)
            g = known[t]
        sup = [s for s in body_of(init) if isinstance(s, ast.Expr) and u(s.value).startswith("super().__init__(")]
        if len(sup) != 1:
            src.fail(init, "no super().__init__ in %s" % cname)
        shp = u(sup[0].value.args[1])
        shapes = {"op.shape": "ShLeft", "op1.shape": "ShLeft", "(op1.shape[0], op2.shape[1])": "ShOuter"}
        if shp not in shapes:
            src.fail(sup[0], "unrecognised result shape " + shp)
        dense = dtm(src, single_return(src, src.method(cname, "to_dense")), fields)
        mv = dtm(src, single_return(src, src.method(cname, "_matvec")), fields)
        coq = cname.strip("_")
        names.append(coq)
        lines.append('Definition %s : dclass := {| dc_name := "%s"; dc_guard := %s; dc_shape := %s;\n  dc_dense := %s;\n'
                     '  dc_matvec := %s |}.' % (coq, cname, g, shapes[shp], dense, mv))
        info["classes"][cname] = {"guard": g, "dense": dense, "matvec": mv}
    lines.append("Definition discrete_classes : list dclass := [%s]." % "; ".join(names))
    # dunders of _DiscreteOperatorBase
    base = "_DiscreteOperatorBase"
    sc = Scope(src, {"self": "SSelf", "other": "SR"})
    add = [u(x) for x in body_of(src.method(base, "__add__"))]
    if add != ["if isinstance(other, _DiscreteOperatorBase):\n    return _SumDiscreteOperator(self, other)\nelse:\n"
               "    return super().__add__(other)"]:
        src.fail(src.method(base, "__add__"), "_DiscreteOperatorBase.__add__ changed")
    neg = u(single_return(src, src.method(base, "__neg__")))
    sub = u(single_return(src, src.method(base, "__sub__")))
    if neg != "_ScaledDiscreteOperator(self, -1)" or sub != "self.__add__(-other)":
        src.fail(src.method(base, "__neg__"), "__neg__/__sub__ changed")
    dot = [u(x) for x in body_of(src.method(base, "dot"))]
    if dot != ["if isinstance(other, _DiscreteOperatorBase):\n    return _ProductDiscreteOperator(self, other)\n"
               "elif _np.isscalar(other):\n    return _ScaledDiscreteOperator(self, other)\nelse:\n"
               "    return super().dot(other)"]:
        src.fail(src.method(base, "dot"), "_DiscreteOperatorBase.dot changed")
    if u(single_return(src, src.method(base, "__mul__"))) != "self.dot(other)":
        src.fail(src.method(base, "__mul__"), "__mul__ changed")
    # real operator x complex vector: Generic / Dense / Sparse
    gen = [u(x) for x in body_of(src.method("GenericDiscreteBoundaryOperator", "_matvec"))]
    want = ["if self._is_complex:\n    return self._evaluator.matvec(x)",
            "if _np.iscomplexobj(x):\n    return self._evaluator.matvec(_np.real(x)) + 1j * self._evaluator.matvec(_np.imag(x))\n"
            "else:\n    return self._evaluator.matvec(x)"]
    if gen != want:
        src.fail(src.method("GenericDiscreteBoundaryOperator", "_matvec"), "real/complex splitting changed")
    den = [u(x) for x in body_of(src.method("DenseDiscreteBoundaryOperator", "_matmat"))]
    want = ["if _np.iscomplexobj(x) and (not _np.iscomplexobj(self.to_dense())):\n    return self.to_dense().dot(_np.real(x)"
            ".astype(self.dtype)) + 1j * self.to_dense().dot(_np.imag(x).astype(self.dtype))",
            "return self.to_dense().dot(x.astype(self.dtype))"]
    if den != want:
        src.fail(src.method("DenseDiscreteBoundaryOperator", "_matmat"), "dense real/complex splitting changed")
    spm = [u(x) for x in body_of(src.method("SparseDiscreteBoundaryOperator", "_matmat"))]
    want = ["if self.dtype == 'float64' and _np.iscomplexobj(vec):\n    return self.to_sparse() * _np.real(vec) + 1j * "
            "(self.to_sparse() * _np.imag(vec))", "return self.to_sparse() * vec"]
    if spm != want:
        src.fail(src.method("SparseDiscreteBoundaryOperator", "_matmat"), "sparse real/complex splitting changed")
    lines.append("Definition real_complex_split : bool := true.   (* A x = A re(x) + i A im(x) for real A, three classes *)")
    # transposes / adjoints of the leaf classes: which classes define them and what they build
    tr = {"DenseDiscreteBoundaryOperator": ("DenseDiscreteBoundaryOperator(self.to_dense().T)",
                                            "DenseDiscreteBoundaryOperator(self.to_dense().conjugate().transpose())", "TrDense"),
          "SparseDiscreteBoundaryOperator": ("SparseDiscreteBoundaryOperator(self.to_sparse().transpose())",
                                             "SparseDiscreteBoundaryOperator(self.to_sparse().transpose().conjugate())", "TrDense"),
          "DiagonalOperator": ("self", "DiagonalOperator(self._values.conjugate())", "TrSelf"),
          "DiscreteRankOneOperator": ("DiscreteRankOneOperator(self._row, self._column)",
                                      "DiscreteRankOneOperator(self._row.conjugate(), self._column.conjugate())", "TrSwap")}
    have = []
    for cname, cdef in src.classes.items():
        if "_DiscreteOperatorBase" not in [u(b) for b in cdef.bases]:
            continue
        t, a = src.method(cname, "_transpose", required=False), src.method(cname, "_adjoint", required=False)
        if (t is None) != (a is None):
            src.fail(cdef, "%s defines only one of _transpose/_adjoint" % cname)
        if t is None:
            continue
        if cname not in tr:
            src.fail(t, "new _transpose in %s: not modelled" % cname)
        if u(single_return(src, t)) != tr[cname][0] or u(single_return(src, a)) != tr[cname][1]:
            src.fail(t, "_transpose/_adjoint of %s changed" % cname)
        have.append((cname, tr[cname][2]))
    if sorted(c for c, _ in have) != sorted(tr):
        src.fail(src.tree, "set of classes with _transpose/_adjoint changed: %s" % sorted(c for c, _ in have))
    lines.append("Definition transposable : list (string * trkind) := [%s]." % "; ".join('("%s", %s)' % h for h in have))
    info["transposable"] = have
    return src


# ---- GridFunction arithmetic ---------------------------------------------------------------------------------------------
def gf_result(src, sc, call):
    """GridFunction(self.space, coefficients|projections=<tm>, [dual_space=self.dual_space], [parameters=...]) -> gfres"""
    if not (isinstance(call, ast.Call) and u(call.func) == "GridFunction" and len(call.args) == 1
            and u(call.args[0]) == "self.space"):
        src.fail(call, "expected GridFunction(self.space, ...)")
    kw = {k.arg: k.value for k in call.keywords}
    kw.pop("parameters", None)
    kinds = [k for k in ("coefficients", "projections") if k in kw]
    if len(kinds) != 1 or set(kw) - {"coefficients", "projections", "dual_space"}:
        src.fail(call, "unrecognised GridFunction(...) keywords")
    dual = "None"
    if "dual_space" in kw:
        a, k = sc.space(kw["dual_space"])
        if a != "SSelf":
            src.fail(call, "dual space of the result must come from self")
        dual = "(Some %s)" % k
    if kinds[0] == "projections" and dual == "None":
        src.fail(call, "projections without a dual space")
    return "{| r_kind := %s; r_term := %s; r_dual := %s |}" % (
        "GKCoef" if kinds[0] == "coefficients" else "GKProj", sc.tm(kw[kinds[0]]), dual)


def gf_branches(src, sc, stmts, cond=None):
    """Nested `if c: (if d: return X)` without else -> [(c and d, X)]; statements after fall through."""
    out = []
    for s in stmts:
        if isinstance(s, ast.If) and not s.orelse:
            c = sc.guard(s.test)
            c2 = c if cond is None else "(GAnd %s %s)" % (cond, c)
            out += gf_branches(src, sc, s.body, c2)
        elif isinstance(s, ast.Return) and cond is not None:
            out.append((cond, gf_result(src, sc, s.value)))
        else:
            src.fail(s, "unrecognised statement in GridFunction.__add__")
    return out


def gridfun(ctx, lines, info):
    src = Src(ctx, FILES["gridfun"])
    c = "GridFunction"
    sc = Scope(src, {"self": "SSelf", "other": "SR", "alpha": "SR"})

    def raise_guard(stmt):
        if not (isinstance(stmt, ast.If) and len(stmt.body) == 1 and isinstance(stmt.body[0], ast.Raise) and not stmt.orelse
                and u(stmt.body[0].exc).startswith("ValueError(")):
            src.fail(stmt, "expected `if ..: raise ValueError`")
        return sc.guard(stmt.test)
    add = body_of(src.method(c, "__add__"))
    if len(add) < 2 or not isinstance(add[-1], ast.Return):
        src.fail(src.method(c, "__add__"), "__add__ changed shape")
    add_guard = raise_guard(add[0])
    branches = gf_branches(src, sc, add[1:-1])
    default = gf_result(src, sc, add[-1].value)
    sub = body_of(src.method(c, "__sub__"))
    if len(sub) != 2 or u(sub[1]) != "return self + -other":
        src.fail(src.method(c, "__sub__"), "__sub__ changed shape")
    sub_guard = raise_guard(sub[0])
    mul = body_of(src.method(c, "__mul__"))
    if not (len(mul) == 1 and isinstance(mul[0], ast.If) and u(mul[0].test) == "np.isscalar(alpha)"
            and len(mul[0].body) == 1 and isinstance(mul[0].body[0], ast.If)
            and [u(x) for x in mul[0].orelse] == ["return NotImplemented"]):
        src.fail(src.method(c, "__mul__"), "__mul__ changed shape")
    inner = mul[0].body[0]
    if not (len(inner.body) == 1 and len(inner.orelse) == 1 and isinstance(inner.body[0], ast.Return)
            and isinstance(inner.orelse[0], ast.Return)):
        src.fail(inner, "__mul__ branches changed")
    mul_cond = sc.guard(inner.test)
    mul_then = gf_result(src, Scope(src, {"self": "SSelf"}), inner.body[0].value)
    mul_else = gf_result(src, Scope(src, {"self": "SSelf"}), inner.orelse[0].value)
    rm = [u(x) for x in body_of(src.method(c, "__rmul__"))]
    if rm != ["if np.isscalar(alpha):\n    return self * alpha\nelse:\n    return NotImplemented"]:
        src.fail(src.method(c, "__rmul__"), "__rmul__ changed")
    if [u(x) for x in body_of(src.method(c, "__truediv__"))] != ["return self.__div__(alpha)"]:
        src.fail(src.method(c, "__truediv__"), "__truediv__ changed")
    div = sc.dexp(single_return(src, src.method(c, "__div__")))
    neg = sc.dexp(single_return(src, src.method(c, "__neg__")))
    lines.append("Definition GF : gfrules := {|\n  gf_add_guard := %s;\n  gf_add_branches := [%s];\n  gf_add_default := %s;\n"
                 "  gf_sub_guard := %s; gf_sub := (DAdd DSelf (DNeg DOther));\n  gf_mul_cond := %s;\n  gf_mul_then := %s;\n"
                 "  gf_mul_else := %s;\n  gf_rmul := (DMul DSelf DOther); gf_neg := %s; gf_div := %s |}." % (
                     add_guard, "; ".join("(%s, %s)" % b for b in branches), default, sub_guard, mul_cond, mul_then, mul_else,
                     neg, div))
    info["gridfun"] = {"add_guard": add_guard, "branches": branches}
    return src


# ---- blocked operators: strong form, Sum / Scaled / Product classes, dunders (same embedding as boundary operators; the
# space ids of the model then stand for *lists* of spaces and invmass for the block-diagonal inverse mass operator) ----------
def blocked(ctx, lines, info):
    import re as _re
    src = Src(ctx, FILES["blocked"])
    specs = [("SumBlockedOperator", {"op1": "SL", "op2": "SR"}), ("ScaledBlockedOperator", {"op": "SL"}),
             ("ProductBlockedOperator", {"op1": "SL", "op2": "SR"})]
    names = []
    for cname, args in specs:
        fields = ctor_fields(src, cname, args)
        g = ctor_guard(src, cname, args)
        sc = Scope(src, {}, fields)
        sp = {}
        for prop, key in (("domain_spaces", "dom"), ("range_spaces", "ran"), ("dual_to_range_spaces", "dual")):
            fn = src.method(cname, prop)
            v = single_return(src, fn)
            if not (isinstance(v, ast.Call) and u(v.func) == "tuple" and len(v.args) == 1):
                src.fail(fn, "%s.%s is not tuple(<operand>.<list>)" % (cname, prop))
            sp[key] = sc.space(v.args[0])
        body = sc.tm(single_return(src, src.method(cname, "_assemble")))
        names.append(cname)
        lines.append('Definition %s : bclass := {| b_name := "%s"; b_guard := %s;\n  b_dom := (%s, %s); b_ran := (%s, %s); '
                     'b_dual := (%s, %s);\n  b_body := %s |}.' % (cname, cname, g, sp["dom"][0], sp["dom"][1], sp["ran"][0],
                                                                sp["ran"][1], sp["dual"][0], sp["dual"][1], body))
        info["classes"][cname] = {"guard": g, "spaces": sp, "body": body}
    lines.append("Definition blocked_classes : list bclass := [%s]." % "; ".join(names))
    base = "BlockedOperatorBase"
    sc = Scope(src, {"self": "SSelf", "other": "SR"})
    add = body_of(src.method(base, "__add__"))
    if not (len(add) == 2 and u(add[0]) in ("if not isinstance(other, BlockedOperatorBase):\n    return NotImplemented",
                                            "if not isinstance(other, BlockedOperatorBase):\n    return NotImplementedError")
            and isinstance(add[1], ast.Return)):
        src.fail(src.method(base, "__add__"), "BlockedOperatorBase.__add__ changed")
    addx = sc.dexp(add[1].value)
    neg = sc.dexp(single_return(src, src.method(base, "__neg__")))
    sub = sc.dexp(single_return(src, src.method(base, "__sub__")))
    matmul = sc.dexp(single_return(src, src.method(base, "__matmul__")))
    mul = dispatch(src, src.method(base, "__mul__"), sc)
    rmul = dispatch(src, src.method(base, "__rmul__"), sc)
    lb = [v for k, v in mul if k == "OList"]
    if len(lb) != 1 or isinstance(lb[0], str):
        src.fail(src.method(base, "__mul__"), "list branch of __mul__ not found")
    txt = [u(x) for x in lb[0][1]]
    for need in ("weak_op = self.weak_form()", "x_in = coefficients_from_grid_functions_list(list_input)", "res = weak_op * x_in"):
        if need not in txt:
            src.fail(src.method(base, "__mul__"), "blocked apply changed: missing `%s`" % need)
    m = [_re.fullmatch(r"output_list = grid_function_list_from_projections\(res, self\.(\w+), self\.(\w+)\)", t) for t in txt]
    m = [x for x in m if x]
    if len(m) != 1 or m[0].group(1) not in SPK or m[0].group(2) not in SPK:
        src.fail(src.method(base, "__mul__"), "cannot tell which space lists label the result of B * [f, ...]")
    asp, adu = SPK[m[0].group(1)], SPK[m[0].group(2)]
    # strong_form: block-diagonal operator of get_inverse_mass_matrix(self.<X>[index], self.<Y>[index])
    sf = body_of(src.method(base, "strong_form"))
    if not (len(sf) == 2 and isinstance(sf[0], ast.If) and u(sf[0].test) == "self._range_map is None"
            and u(sf[1]) == "return self._range_map * self.weak_form()"):
        src.fail(src.method(base, "strong_form"), "blocked strong_form changed shape")
    inner = [u(x) for x in sf[0].body]
    if not (inner[0] == "nrows = len(self.range_spaces)" and inner[1] == "_range_ops = _np.empty((nrows, nrows), dtype='O')"
            and inner[3] == "self._range_map = BlockedDiscreteOperator(_range_ops)" and len(inner) == 4):
        src.fail(sf[0], "blocked strong_form changed shape")
    mm = _re.fullmatch(r"for index in range\(nrows\):\n    _range_ops\[index, index\] = get_inverse_mass_matrix\("
                       r"self\.(\w+)\[index\], self\.(\w+)\[index\]\)", inner[2])
    if not mm or mm.group(1) not in SPK or mm.group(2) not in SPK:
        src.fail(sf[0], "cannot tell which space lists the inverse mass matrices of the blocked strong form are taken from")
    strong = "(TMul (TInvMass %s %s) (TWeak SSelf))" % (SPK[mm.group(1)], SPK[mm.group(2)])
    wf = [u(x) for x in body_of(src.method(base, "weak_form"))]
    if wf != ["if not self._cached:\n    self._cached = self._assemble()", "return self._cached"]:
        src.fail(src.method(base, "weak_form"), "blocked weak_form changed shape")

    def disp(entries):
        return "[" + "; ".join("(%s, %s)" % (k, v if isinstance(v, str) else "DApply") for k, v in entries) + "]"
    lines.append("Definition BBD : bdunders := {|\n  bd_add := %s; bd_neg := %s; bd_sub := %s;\n  bd_mul := %s;\n  bd_rmul := %s;\n"
                 "  bd_matmul := %s;\n  bd_strong := %s;\n  bd_apply_guard := GFalse; bd_apply_space := %s; bd_apply_dual := %s;\n"
                 "  bd_apply_proj := (TMul (TWeak SSelf) (TCoef SR)) |}." % (addx, neg, sub, disp(mul), disp(rmul), matmul, strong,
                                                                          asp, adu))
    info["blocked_strong"] = (mm.group(1), mm.group(2))
    return src


# ---- blocked pack / unpack ---------------------------------------------------------------------------------------------
def packing(ctx, lines, info):
    src = Src(ctx, FILES["blocked"])
    f = src.functions

    def body(name):
        if name not in f:
            raise TieBroken("%s: function %s missing" % (src.rel, name))
        return [u(x) for x in body_of(f[name])]
    b = body("coefficients_from_grid_functions_list")
    if "for item in grid_funs:\n    dof_count = item.space.global_dof_count\n    res[pos:pos + dof_count] = item.coefficients\n" \
       "    pos += dof_count" not in b:
        src.fail(f["coefficients_from_grid_functions_list"], "coefficient packing changed")
    b = body("projections_from_grid_functions_list")
    if not ("for item, proj_space in zip(grid_funs, projection_spaces):\n    projections.append(item.projections(proj_space))" in b
            and "for item in projections:\n    dof_count = len(item)\n    res[pos:pos + dof_count] = item\n    pos += dof_count" in b):
        src.fail(f["projections_from_grid_functions_list"], "projection packing changed")
    b = body("grid_function_list_from_coefficients")
    if "for space in spaces:\n    dof_count = space.global_dof_count\n    res_list.append(GridFunction(space, coefficients=" \
       "coefficients[pos:pos + dof_count]))\n    pos += dof_count" not in b:
        src.fail(f["grid_function_list_from_coefficients"], "coefficient unpacking changed")
    b = body("grid_function_list_from_projections")
    loop = [x for x in b if x.startswith("for space, dual in zip(spaces, dual_spaces):")]
    sel = None
    for who, name in (("space", "DimSpace"), ("dual", "DimDual")):
        want = ("for space, dual in zip(spaces, dual_spaces):\n    dof_count = %s.global_dof_count\n    res_list.append("
                "GridFunction(space, projections=projections[pos:pos + dof_count], dual_space=dual))\n    pos += dof_count" % who)
        if loop == [want]:
            sel = name
    if sel is None:
        src.fail(f["grid_function_list_from_projections"], "projection unpacking changed")
    if "if dual_spaces is None:\n    dual_spaces = spaces" not in b:
        src.fail(f["grid_function_list_from_projections"], "default dual spaces changed")
    # BlockedOperatorBase.__mul__ with a list
    mul = u(src.method("BlockedOperatorBase", "__mul__"))
    for need in ("x_in = coefficients_from_grid_functions_list(list_input)", "res = weak_op * x_in",
                 "output_list = grid_function_list_from_projections(res, self.range_spaces, self.dual_to_range_spaces)"):
        if need not in mul:
            src.fail(src.method("BlockedOperatorBase", "__mul__"), "blocked apply changed: missing `%s`" % need)
    add = [u(x) for x in body_of(src.method("BlockedOperatorBase", "__add__"))]
    ret = {"if not isinstance(other, BlockedOperatorBase):\n    return NotImplementedError": "AddReturnsErrorClass",
           "if not isinstance(other, BlockedOperatorBase):\n    return NotImplemented": "AddNotImplemented"}
    if len(add) != 2 or add[0] not in ret or add[1] != "return SumBlockedOperator(self, other)":
        src.fail(src.method("BlockedOperatorBase", "__add__"), "BlockedOperatorBase.__add__ changed")
    # BlockedDiscreteOperator: missing blocks become zero operators of the row / column size; to_dense stacks the blocks;
    # _matvec / _matmat add block products over slices (model: Algebra/BlockMat.v)
    bd = "BlockedDiscreteOperator"
    init = u(src.method(bd, "__init__"))
    for need in ("if ops[i, j] is None:\n                continue",
                 "self._operators[i, j] = ZeroDiscreteBoundaryOperator(self._rows[i], self._cols[j])",
                 "shape = (_np.sum(self._rows), _np.sum(self._cols))",
                 "if ops[i, j].shape[0] != self._rows[i]:", "if ops[i, j].shape[1] != self._cols[j]:"):
        if need not in init:
            src.fail(src.method(bd, "__init__"), "BlockedDiscreteOperator.__init__ changed: missing `%s`" % need)
    td = [u(x) for x in body_of(src.method(bd, "to_dense"))]
    if td != ["rows = []", "for i in range(self._ndims[0]):\n    row = [self[i, j].to_dense() for j in range(self._ndims[1])]\n"
              "    rows.append(_np.hstack(row))", "return _np.vstack(rows)"]:
        src.fail(src.method(bd, "to_dense"), "BlockedDiscreteOperator.to_dense changed")
    for meth, slc in (("_matvec", "local_x = x[col_dim:col_dim + self._cols[j]]"),
                      ("_matmat", "local_x = x[col_dim:col_dim + self._cols[j], :]")):
        mm = u(src.method(bd, meth))
        for need in (slc, "col_dim += self._cols[j]", "row_dim += self._rows[i]",
                     "self._operators[i, j].dot(_np.real(local_x)) + 1j * self._operators[i, j].dot(_np.imag(local_x))",
                     "self._operators[i, j].dot(local_x)"):
            if need not in mm:
                src.fail(src.method(bd, meth), "BlockedDiscreteOperator.%s changed: missing `%s`" % (meth, need))
    asm = [u(x) for x in body_of(src.method("BlockedOperator", "_assemble"))]
    if asm[-3:] != ["ops = _np.empty((self.ndims[0], self.ndims[1]), dtype='O')",
                    "for i in range(self.ndims[0]):\n    for j in range(self.ndims[1]):\n        if self._operators[i, j] is not None:\n"
                    "            ops[i, j] = self._operators[i, j].weak_form()", "return BlockedDiscreteOperator(ops)"]:
        src.fail(src.method("BlockedOperator", "_assemble"), "BlockedOperator._assemble changed")
    lines.append("Definition blocked_discrete_matches_model : bool := true.   (* literal shape of __init__/to_dense/_matvec/_matmat *)")
    lines.append("Definition slice_projections_by : dimsel := %s.   (* grid_function_list_from_projections *)" % sel)
    lines.append("Definition slice_coefficients_by : dimsel := DimSpace.")
    lines.append("Definition blocked_add_foreign : addforeign := %s." % ret[add[0]])
    info["slice_projections_by"] = sel
    info["blocked_add_foreign"] = ret[add[0]]
    return src


def op_classes(ctx):
    lines = ["(* generated by translators/opclasses.py from %s -- do not edit *)" % ", ".join(sorted(FILES.values())),
             "From Coq Require Import List String.", "From BV Require Import Algebra.OpLang.",
             "Import ListNotations.", "Open Scope string_scope.", ""]
    info = {"classes": {}}
    bsrc = boundary(ctx, lines, info)
    lines[1:1] = []
    lines.insert(3, "From BV Require Import Algebra.PotLang.")
    psrc, asm = potential(ctx, lines, info)
    lines.insert(4, "From BV Require Import Algebra.DiscLang.")
    lines.insert(5, "From BV Require Import Algebra.GfLang.")
    discrete(ctx, lines, info)
    packing(ctx, lines, info)
    gridfun(ctx, lines, info)
    blocked(ctx, lines, info)
    others = [Src(ctx, FILES[k]) for k in ("blocked", "discrete", "gridfun")]
    reg = Registry([bsrc, psrc, asm] + others)
    rows = resolution(reg, set(FILES.values()))
    info["resolution"] = rows
    bad = [r for r in rows if not r[4]]
    lines.append("(* %d attribute uses on typed receivers were resolved against the class hierarchy; the unresolved ones: *)"
                 % len(rows))
    lines.append("Definition resolution_checked : nat := %d." % len(rows))
    lines.append("Definition unresolved : list (string * string * string * string) := [%s]." % ";\n  ".join(
        '("%s", "%s", "%s", "%s")' % (c, m, t, a) for c, m, t, a, ok in bad))
    ctx.write_gen("OpClasses.v", "\n".join(lines) + "\n")
    return info


# ---- linear solvers (C15) ----------------------------------------------------------------------------------------
LINALG = "bempp_cl/api/linalg/"


def _ifelse(src, node, test):
    if not (isinstance(node, ast.If) and u(node.test) == test):
        src.fail(node, "expected `if %s`" % test)
    return node.body, node.orelse


def _solve_branch(src, stmts, vec_expr):
    """vec = <vec_expr>; if lu_factor is not None: sol = lu_solve(lu_factor, vec) else: mat = A.weak_form().to_dense();
    sol = solve(mat, vec); return <result>"""
    if len(stmts) != 3 or u(stmts[0]) != "vec = " + vec_expr:
        src.fail(stmts[0], "right-hand side changed: " + u(stmts[0]))
    yes, no = _ifelse(src, stmts[1], "lu_factor is not None")
    if [u(x) for x in yes] != ["sol = lu_solve(lu_factor, vec)"]:
        src.fail(stmts[1], "precomputed-factor branch changed")
    if [u(x) for x in no] != ["mat = A.weak_form().to_dense()", "sol = solve(mat, vec)"]:
        src.fail(stmts[1], "direct-solve branch changed")
    if not isinstance(stmts[2], ast.Return):
        src.fail(stmts[2], "expected return")
    return u(stmts[2].value)


def solver_glue(ctx):
    d = Src(ctx, LINALG + "direct_solvers.py")
    it = Src(ctx, LINALG + "iterative_solvers.py")
    gf = Src(ctx, FILES["gridfun"])
    info = {}
    # ---- lu
    lu = d.functions.get("lu") or d.fail(d.tree, "lu missing")
    b = body_of(lu)
    yes, no = _ifelse(d, b[0], "isinstance(A, BlockedOperatorBase)")
    if len(b) != 1:
        d.fail(lu, "lu changed shape")
    import re as _re
    m0 = _re.fullmatch(r"vec = projections_from_grid_functions_list\(b, A\.(\w+)\)", u(yes[0])) if yes else None
    if not m0:
        d.fail(lu, "blocked right-hand side changed")
    rb = _solve_branch(d, yes, "projections_from_grid_functions_list(b, A.%s)" % m0.group(1))
    m1 = _re.fullmatch(r"grid_function_list_from_coefficients\(sol, A\.(\w+)\)", rb)
    if not m1:
        d.fail(yes[-1], "blocked result changed: " + rb)
    lu_rhs, lu_res = m0.group(1), m1.group(1)
    rs = _solve_branch(d, no, "b.projections(A.dual_to_range)")
    if rs != "GridFunction(A.domain, coefficients=sol)":
        d.fail(no[-1], "single result changed: " + rs)
    cf = [u(x) for x in body_of(d.functions["compute_lu_factors"])]
    if cf != ["return lu_factor(as_matrix(A.weak_form()))"]:
        d.fail(d.functions["compute_lu_factors"], "compute_lu_factors changed")
    # ---- GridFunction.projections / coefficients (the hand model of OpLang.projections/coefficients relies on them)
    pj = [u(x) for x in body_of(gf.method("GridFunction", "projections"))]
    want = ["if dual_space is None:\n    dual_space = self.dual_space",
            "if dual_space == self._dual_space and self._projections is not None:\n    return self._projections",
            "ident = get_mass_matrix(self.space, dual_space)", "return ident * self.coefficients"]
    if pj != want:
        gf.fail(gf.method("GridFunction", "projections"), "GridFunction.projections changed")
    co = [u(x) for x in body_of(gf.method("GridFunction", "coefficients"))]
    want = ["if self._coefficients is None:\n    from bempp_cl.api.utils.helpers import get_inverse_mass_matrix\n"
            "    op = get_inverse_mass_matrix(self.space, self.dual_space)\n"
            "    self._coefficients = op @ self._projections\n    self._representation = 'primal'", "return self._coefficients"]
    if co != want:
        gf.fail(gf.method("GridFunction", "coefficients"), "GridFunction.coefficients changed")
    # ---- iterative wrappers
    def wrapper(fn, a_name, cg):
        bb = body_of(fn)
        txt = [u(x) for x in bb]
        ifs = [x for x in bb if isinstance(x, ast.If) and u(x.test) == "use_strong_form"]
        if len(ifs) != 1:
            it.fail(fn, "use_strong_form branch missing")
        yes, no = ifs[0].body, ifs[0].orelse
        sc = Scope(it, {"A": "SL", "b": "SR"})
        g = "GFalse"
        rest = yes
        if isinstance(yes[0], ast.If):
            if not (len(yes[0].body) == 1 and isinstance(yes[0].body[0], ast.Raise)
                    and u(yes[0].body[0].exc).startswith("ValueError(")):
                it.fail(yes[0], "unrecognised strong-form guard")
            g = sc.guard(yes[0].test)
            rest = yes[1:]
        return txt, g, sorted(u(x) for x in rest), sorted(u(x) for x in no)
    out = {}
    store_flags = []
    for name, cg in (("_gmres_single_op_imp", False), ("cg", True), ("_gmres_block_op_imp", False)):
        fn = it.functions[name]
        txt, g, strong, weak = wrapper(fn, "A", cg)
        blocked = name == "_gmres_block_op_imp"
        if blocked:
            ws = ["A_op = A.strong_form()", "b_vec = coefficients_from_grid_functions_list(b)"]
            ww = ["A_op = A.weak_form()", "b_vec = projections_from_grid_functions_list(b, A.dual_to_range_spaces)"]
            # which list of spaces cuts the solution vector: either named directly in the call, or a variable that every
            # branch assigns from an attribute of A
            import re as _re
            calls = [t for t in txt if t.startswith("res_fun = grid_function_list_from_coefficients(x.ravel(), ")]
            if len(calls) != 1:
                it.fail(fn, "result construction changed in " + name)
            arg = calls[0][len("res_fun = grid_function_list_from_coefficients(x.ravel(), "):-1]
            m = _re.fullmatch(r"A\.(\w+)", arg)
            if m:
                out["blocked_result"] = (m.group(1), m.group(1))
            elif _re.fullmatch(r"\w+", arg):
                per = []
                for branch in (strong, weak):
                    hits = [_re.fullmatch(r"%s = A\.(\w+)" % arg, t) for t in branch]
                    hits = [h for h in hits if h]
                    if len(hits) != 1:
                        it.fail(fn, "cannot tell which spaces cut the solution in " + name)
                    per.append(hits[0].group(1))
                out["blocked_result"] = tuple(per)
                strong = [t for t in strong if not t.startswith(arg + " = ")]
                weak = [t for t in weak if not t.startswith(arg + " = ")]
            else:
                it.fail(fn, "unrecognised space list in the result construction: " + arg)
            res = calls[0]
        else:
            ws = ["A_op = A.strong_form()", "b_vec = b.coefficients"]
            ww = ["A_op = A.weak_form()", "b_vec = b.projections(A.dual_to_range)"]
            res = "res_fun = GridFunction(A.domain, coefficients=x.ravel())"
        if strong != ws or weak != ww:
            it.fail(fn, "system handed to the iteration changed in %s: %r / %r" % (name, strong, weak))
        if res not in txt:
            it.fail(fn, "result construction changed in " + name)
        call = [t for t in txt if t.startswith("x, info = scipy.sparse.linalg.")]
        if cg:
            wantc = "x, info = scipy.sparse.linalg.cg(A_op, b_vec, rtol=tol, maxiter=maxiter, callback=callback)"
            rest_args = ["True", "A_op", "b_vec"]
        else:
            wantc = ("x, info = scipy.sparse.linalg.gmres(A_op, b_vec, rtol=tol, restart=restart, maxiter=maxiter, "
                     "callback=callback)")
            rest_args = []
        # which flag of the wrapper decides whether the callback stores residuals: emitted (theorem wrapper_flags), the
        # remaining constructor arguments (is_cg, operator, rhs) are checked literally
        cbs = [x for x in body_of(fn) if isinstance(x, ast.Assign) and u(x.targets[0]) == "callback"]
        if not (len(cbs) == 1 and isinstance(cbs[0].value, ast.Call) and u(cbs[0].value.func) == "IterationCounter"
                and not cbs[0].value.keywords and cbs[0].value.args and isinstance(cbs[0].value.args[0], ast.Name)
                and cbs[0].value.args[0].id in [a.arg for a in fn.args.args]
                and [u(a) for a in cbs[0].value.args[1:]] == rest_args):
            it.fail(fn, "callback construction changed in " + name)
        store_flags.append((name, cbs[0].value.args[0].id))
        if call != [wantc]:
            it.fail(fn, "SciPy call changed in " + name)
        tail = txt[-4:]
        wt = ["if return_residuals and return_iteration_count:\n    return (res_fun, info, callback.residuals, callback.count)",
              "if return_residuals:\n    return (res_fun, info, callback.residuals)",
              "if return_iteration_count:\n    return (res_fun, info, callback.count)", "return (res_fun, info)"]
        if tail != wt:
            it.fail(fn, "return tuple changed in " + name)
        out[name] = g
    bres = out.pop("blocked_result")
    if out["_gmres_single_op_imp"] != out["cg"]:
        it.fail(it.functions["cg"], "cg and gmres guards differ")
    # ---- IterationCounter
    ic = it.method("IterationCounter", "__call__")
    stm = [x for x in body_of(ic)]
    if u(stm[0]) != "self._count += 1":
        it.fail(stm[0], "counter increment changed")
    br = stm[1]
    if not (isinstance(br, ast.If) and u(br.test) == "self._store_residuals"):
        it.fail(br, "residual branch changed")
    inner = br.body[0]
    if not (isinstance(inner, ast.If) and u(inner.test) == "self._iteration_is_cg"
            and [u(x) for x in inner.body] == ["res = self._rhs - self._operator * x"]
            and [u(x) for x in inner.orelse] == ["res = x"]
            and u(br.body[1]) == "self._residuals.append(_np.linalg.norm(res))"):
        it.fail(br, "residual computation changed")
    if any("self._residuals" in u(x) or "self._count" in u(x) for x in br.orelse if not isinstance(x, ast.Expr)):
        it.fail(br, "else branch touches the state")
    init = [u(x) for x in body_of(it.method("IterationCounter", "__init__"))]
    for need in ("self._count = 0", "self._residuals = []", "self._store_residuals = store_residuals",
                 "self._iteration_is_cg = iteration_is_cg", "self._operator = operator", "self._rhs = rhs"):
        if need not in init:
            it.fail(it.method("IterationCounter", "__init__"), "initial state changed")
    if [a.arg for a in it.method("IterationCounter", "__init__").args.args] != ["self", "store_residuals", "iteration_is_cg",
                                                                              "operator", "rhs"]:
        it.fail(it.method("IterationCounter", "__init__"), "IterationCounter constructor signature changed")
    props = {n.name: u(single_return(it, n)) for n in it.cls("IterationCounter").body
             if isinstance(n, ast.FunctionDef) and is_property(n)}
    if props != {"count": "self._count", "residuals": "self._residuals"}:
        it.fail(it.cls("IterationCounter"), "count/residuals properties changed")
    # dispatch of gmres
    gm = [u(x) for x in body_of(it.functions["gmres"])]
    if not (gm[0].startswith("if isinstance(A, BoundaryOperator):\n    return _gmres_single_op_imp(A, b, tol, restart, maxiter, "
                             "use_strong_form, return_residuals, return_iteration_count)")
            and gm[1].startswith("if isinstance(A, BlockedOperatorBase):\n    return _gmres_block_op_imp(A, b, tol, restart, "
                                 "maxiter, use_strong_form, return_residuals, return_iteration_count)")
            and gm[2].startswith("raise ValueError(")):
        it.fail(it.functions["gmres"], "gmres dispatch changed")
    lines = ["(* generated by translators/opclasses.py (solver_glue) from %sdirect_solvers.py, %siterative_solvers.py -- do not edit *)"
             % (LINALG, LINALG),
             "From Coq Require Import List String.", "From BV Require Import Algebra.OpLang Algebra.SolverLang.",
             "Import ListNotations.", "Open Scope string_scope.", "",
             "Definition LU : lu_glue := {| lu_rhs_dual := Dual; lu_space := Dom; lu_mat := TWeak SL;",
             '  lu_blocked_rhs := "%s"; lu_blocked_result := "%s"; lu_factor_of := TWeak SL |}.' % (lu_rhs, lu_res),
             "Definition IT : it_glue := {| it_guard := %s; it_strong_op := TStrong SL; it_strong_rhs := TCoef SR;" % out["cg"],
             "  it_weak_op := TWeak SL; it_weak_rhs_dual := Dual; it_space := Dom; it_tol_kw := \"rtol\";",
             '  it_blocked_strong_rhs := "coefficients"; it_blocked_weak_rhs := "dual_to_range_spaces";',
             '  it_blocked_result_strong := "%s"; it_blocked_result_weak := "%s" |}.' % bres,
             "Definition IC : ic_glue := {| ic_incr := 1; ic_cg_res := ISub IRhs IOpX; ic_other_res := IX; ic_norm := true;",
             "  ic_else_pure := true |}.",
             "(* wrapper, the wrapper's parameter handed to IterationCounter as store_residuals *)",
             "Definition store_flags : list (string * string) := [%s]." % "; ".join('("%s", "%s")' % x for x in store_flags), ""]
    ctx.write_gen("SolverGlue.v", "\n".join(lines))
    info["guard"] = out["cg"]
    info["store_flags"] = store_flags
    return info
