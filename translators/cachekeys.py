"""Translator (tie T of C18): where every assembler reads its parameters, and what the caches are keyed on
-> gen/CacheKeys.v  (fail closed).

For each assembler kind the translator walks the functions that build its result (the list is configuration; every listed
function must exist, and every parameter-looking attribute chain in them must be classified) and records every read
of a parameter leaf (`quadrature.regular`, `fmm.depth`, ...) together with its *source*:
    Own    - through the assembler's parameter object (`self.parameters`, `self._parameters`, a `parameters`
             argument that the call chain feeds from the operator's own object)
    Global - through `bempp_cl.api.GLOBAL_PARAMETERS`
and its binding time (Create: operator construction, Assemble: first weak_form(), Eval: every matvec / evaluate).
For the module-level caches it parses the key tuple and the reads of the code that builds the cached value.
"""
import ast

from lib.vlib import TieBroken

LEAVES = {("quadrature", "regular"): "QReg", ("quadrature", "singular"): "QSing",
          ("fmm", "expansion_order"): "FOrder", ("fmm", "ncrit"): "FNcrit", ("fmm", "depth"): "FDepth",
          ("fmm", "near_field_representation"): "FNear", ("fmm", "dense_evaluation"): "FDenseEval",
          ("fmm", "debug"): "FDebug", ("assembly", "always_promote_to_double"): "APromote",
          ("assembly", "discretization_type"): "ADiscr"}
GROUPS = {"quadrature", "fmm", "assembly", "verbosity", "output"}

# kind -> [(file, qualified function, binding time)]
KINDS = {
    "KDense": [("bempp_cl/core/dense_assembler.py", "DenseAssembler.assemble", "Assemble"),
               ("bempp_cl/core/dense_assembler.py", "assemble_dense", "Assemble"),
               ("bempp_cl/core/numba_assemblers.py", "dense_assembler", "Assemble"),
               ("bempp_cl/core/singular_assembler.py", "assemble_singular_part", "Assemble")],
    "KSingular": [("bempp_cl/core/singular_assembler.py", "SingularAssembler.assemble", "Assemble"),
                  ("bempp_cl/core/singular_assembler.py", "assemble_singular_part", "Assemble")],
    "KSparse": [("bempp_cl/core/sparse_assembler.py", "SparseAssembler.assemble", "Assemble"),
                ("bempp_cl/core/sparse_assembler.py", "assemble_sparse", "Assemble")],
    "KPotential": [("bempp_cl/core/dense_potential_assembler.py", "DensePotentialAssembler.__init__", "Create"),
                   ("bempp_cl/core/numba_assemblers.py", "potential_assembler", "Create")],
    "KFmm": [("bempp_cl/api/fmm/fmm_assembler.py", "FmmAssembler.assemble", "Assemble"),
             ("bempp_cl/api/fmm/fmm_assembler.py", "create_evaluator", "Assemble"),
             ("bempp_cl/api/fmm/fmm_assembler.py", "make_default_scalar", "Assemble"),
             ("bempp_cl/api/fmm/fmm_assembler.py", "make_scalar_hypersingular", "Assemble"),
             ("bempp_cl/api/fmm/fmm_assembler.py", "make_maxwell_electric_field_boundary", "Assemble"),
             ("bempp_cl/api/fmm/fmm_assembler.py", "make_maxwell_magnetic_field_boundary", "Assemble"),
             # the singular part of an FMM operator is a separate operator on the same parameter object
             ("bempp_cl/core/singular_assembler.py", "assemble_singular_part", "Assemble")],
    "KFmmPotential": [("bempp_cl/api/fmm/fmm_assembler.py", "FmmPotentialAssembler.__init__", "Create"),
                      ("bempp_cl/api/fmm/fmm_assembler.py", "create_potential_evaluator", "Create"),
                      ("bempp_cl/api/fmm/fmm_assembler.py", "make_default_scalar_potential", "Create"),
                      ("bempp_cl/api/fmm/fmm_assembler.py", "make_maxwell_electric_field_potential", "Create"),
                      ("bempp_cl/api/fmm/fmm_assembler.py", "make_maxwell_magnetic_field_potential", "Create")],
}
# code that builds the value stored in a cache
CACHES = {
    "CFmm": {"file": "bempp_cl/api/fmm/fmm_assembler.py", "getter": "get_fmm_interface", "dict": "_FMM_CACHE",
             "build": [("bempp_cl/api/fmm/exafmm.py", "ExafmmInterface.from_grid"),
                       ("bempp_cl/api/fmm/exafmm.py", "ExafmmInterface.__init__"),
                       ("bempp_cl/api/fmm/helpers.py", "get_local_interaction_operator")]},
    "CFmmPotential": {"file": "bempp_cl/api/fmm/fmm_assembler.py", "getter": "get_fmm_potential_interface",
                      "dict": "_FMM_POTENTIAL_CACHE",
                      "build": [("bempp_cl/api/fmm/exafmm.py", "ExafmmInterface.__init__")]},
}
EVAL = [("bempp_cl/api/fmm/exafmm.py", "ExafmmInterface.evaluate")]


def _u(n):
    return ast.unparse(n)


class Files:
    def __init__(self, ctx):
        self.ctx, self.trees = ctx, {}

    def tree(self, rel):
        if rel not in self.trees:
            self.trees[rel] = ast.parse(open(self.ctx.src(rel)).read())
        return self.trees[rel]

    def func(self, rel, qual):
        parts = qual.split(".")
        nodes = self.tree(rel).body
        for i, p in enumerate(parts):
            found = None
            for n in nodes:
                if isinstance(n, (ast.FunctionDef, ast.ClassDef)) and n.name == p:
                    found = n
                    break
            if found is None:
                raise TieBroken("%s: %s not found" % (rel, qual))
            nodes = found.body
        return found


def chain(node):
    """a.b.c -> ['a','b','c'] or None"""
    out = []
    while isinstance(node, ast.Attribute):
        out.append(node.attr)
        node = node.value
    if isinstance(node, ast.Name):
        out.append(node.id)
        return list(reversed(out))
    return None


def reads_of(files, rel, qual, aliases=None):
    """[(field, source)] for every parameter leaf read in the function (nested functions included)."""
    fn = files.func(rel, qual)
    out = []
    # local aliases:  x = <chain ending in a parameter object or group>
    alias = dict(aliases or {})
    for node in ast.walk(fn):
        if isinstance(node, ast.Assign) and len(node.targets) == 1 and isinstance(node.targets[0], ast.Name):
            ch = chain(node.value) if isinstance(node.value, ast.Attribute) else None
            if ch and ("GLOBAL_PARAMETERS" in ch):
                alias[node.targets[0].id] = "Global"
        if isinstance(node, ast.ImportFrom):
            for a in node.names:
                if a.name == "GLOBAL_PARAMETERS":
                    alias[a.asname or a.name] = "Global"
    seen = set()
    for node in ast.walk(fn):
        if not isinstance(node, ast.Attribute):
            continue
        ch = chain(node)
        if not ch or len(ch) < 3:
            continue
        grp, leaf = ch[-2], ch[-1]
        if grp not in GROUPS:
            continue
        root = ch[:-2]
        if "GLOBAL_PARAMETERS" in root or (len(root) == 1 and alias.get(root[0]) == "Global"):
            src = "Global"
        elif root in (["self", "parameters"], ["self", "_parameters"], ["parameters"]):
            src = "Own"
        else:
            raise TieBroken("%s:%d: cannot classify the parameter object in `%s`" % (rel, node.lineno, _u(node)))
        if (grp, leaf) not in LEAVES:
            raise TieBroken("%s:%d: unknown parameter `%s.%s`" % (rel, node.lineno, grp, leaf))
        key = (LEAVES[(grp, leaf)], src, node.lineno)
        if key not in seen:
            seen.add(key)
            out.append((LEAVES[(grp, leaf)], src))
    return out


def check_edges(files):
    """The `parameters` argument along the call chains is the assembler's own object (not None / global)."""
    want = [
        ("bempp_cl/core/dense_assembler.py", "DenseAssembler.assemble", "assemble_dense(self.domain, self.dual_to_range, self.parameters, operator_descriptor, device_interface)"),
        ("bempp_cl/core/dense_assembler.py", "assemble_dense", "dense_assembler_dispatcher(device_interface, operator_descriptor, domain, dual_to_range, parameters, result)"),
        ("bempp_cl/core/dense_assembler.py", "assemble_dense", "assemble_singular_part(domain.localised_space, dual_to_range.localised_space, parameters, operator_descriptor, device_interface)"),
        ("bempp_cl/api/fmm/fmm_assembler.py", "FmmAssembler.assemble", "get_fmm_interface(actual_domain, actual_dual_to_range, mode, wavenumber, self.parameters, device_interface)"),
        ("bempp_cl/api/fmm/fmm_assembler.py", "get_fmm_interface", "ExafmmInterface.from_grid(domain.grid, mode, wavenumber=wavenumber, target_grid=dual_to_range.grid, parameters=parameters, device_interface=device_interface)"),
        ("bempp_cl/api/assembly/assembler.py", "AssemblerInterface.__init__", "_create_assembler(domain, dual_to_range, assembler, self.parameters, device_interface)"),
        ("bempp_cl/api/assembly/assembler.py", "select_potential_implementation", "DensePotentialAssembler(space, operator_descriptor, points, device_interface, parameters)"),
        ("bempp_cl/api/assembly/assembler.py", "select_potential_implementation", "FmmPotentialAssembler(space, operator_descriptor, points, device_interface, parameters)"),
        ("bempp_cl/core/dense_potential_assembler.py", "DensePotentialAssembler.__init__", "potential_dispatcher(device_interface, space.localised_space, operator_descriptor, points, parameters)"),
    ]
    for rel, qual, call in want:
        fn = files.func(rel, qual)
        calls = {_u(n) for n in ast.walk(fn) if isinstance(n, ast.Call)}
        if call not in calls:
            raise TieBroken("%s: %s no longer contains the call `%s`" % (rel, qual, call))
    # assign_parameters: None -> GLOBAL_PARAMETERS (the object itself), else the object
    ap = files.func("bempp_cl/api/utils/helpers.py", "assign_parameters")
    body = [_u(s) for s in ap.body if not (isinstance(s, ast.Expr) and isinstance(s.value, ast.Constant))]
    if body != ["import bempp_cl.api", "if parameters is None:\n    new_parameters = bempp_cl.api.GLOBAL_PARAMETERS\nelse:\n"
                "    new_parameters = parameters", "return new_parameters"]:
        raise TieBroken("bempp_cl/api/utils/helpers.py: assign_parameters changed")
    # weak_form caches on first call
    wf = files.func("bempp_cl/api/assembly/boundary_operator.py", "BoundaryOperator.weak_form")
    body = [_u(s) for s in wf.body if not (isinstance(s, ast.Expr) and isinstance(s.value, ast.Constant))]
    if body != ["if not self._cached:\n    self._cached = self._assemble()", "return self._cached"]:
        raise TieBroken("bempp_cl/api/assembly/boundary_operator.py: weak_form changed")


def key_of(files, spec):
    """Elements of the key tuple of a cache getter, classified."""
    fn = files.func(spec["file"], spec["getter"])
    keys = [s for s in fn.body if isinstance(s, ast.Assign) and _u(s.targets[0]) == "key"]
    if len(keys) != 1 or not isinstance(keys[0].value, ast.Tuple):
        raise TieBroken("%s: key tuple of %s not found" % (spec["file"], spec["getter"]))
    fields, args = [], []
    for el in keys[0].value.elts:
        ch = chain(el) if isinstance(el, ast.Attribute) else None
        if ch and len(ch) >= 3 and ch[-2] in GROUPS:
            if (ch[-2], ch[-1]) not in LEAVES:
                raise TieBroken("%s: unknown parameter in cache key: %s" % (spec["file"], _u(el)))
            root = ch[:-2]
            src = "Global" if "GLOBAL_PARAMETERS" in root else "Own"
            fields.append((LEAVES[(ch[-2], ch[-1])], src))
        else:
            args.append(_u(el))
    # the lookup / store shape
    txt = _u(fn)
    d = spec["dict"]
    if "%s.get(key, None)" % d not in txt or "%s[key] = interface" % d not in txt:
        raise TieBroken("%s: %s no longer looks up / stores by `key`" % (spec["file"], spec["getter"]))
    return fields, args


def pairs(xs):
    return "[" + "; ".join("(%s, %s)" % p for p in xs) + "]"


# ---- purity of the algebra: no in-place update of arrays reachable from self or from an operand ---------------------------
PURITY_FILES = ["bempp_cl/api/assembly/discrete_boundary_operator.py", "bempp_cl/api/assembly/blocked_operator.py",
                "bempp_cl/api/assembly/boundary_operator.py", "bempp_cl/api/assembly/grid_function.py",
                "bempp_cl/api/assembly/potential_operator.py"]
FRESH_CALLS = {"full", "zeros", "empty", "ones", "eye", "array", "zeros_like", "empty_like", "copy", "astype", "arange", "vstack", "hstack",
               "block", "outer", "diag", "tile", "repeat", "flatnonzero", "coo_matrix", "promote_types", "dtype", "result_type",
               "len", "range", "list", "tuple", "set", "int", "float", "sum", "max"}


def _root(node):
    while isinstance(node, (ast.Attribute, ast.Subscript, ast.Call)):
        node = node.func if isinstance(node, ast.Call) else node.value
    return node.id if isinstance(node, ast.Name) else None


def _is_fresh_expr(node, fresh):
    """Conservative: an expression certainly denotes a newly allocated value (or an immutable scalar)."""
    if isinstance(node, ast.Constant):
        return True
    if isinstance(node, (ast.BinOp, ast.UnaryOp, ast.Compare, ast.BoolOp, ast.List, ast.ListComp, ast.Tuple, ast.Dict, ast.JoinedStr)):
        return True                                   # numpy arithmetic allocates its result
    if isinstance(node, ast.Name):
        return node.id in fresh
    if isinstance(node, ast.Subscript):               # a view of a fresh array is local to the function
        return _is_fresh_expr(node.value, fresh)
    if isinstance(node, ast.Call):
        f = node.func
        name = f.attr if isinstance(f, ast.Attribute) else (f.id if isinstance(f, ast.Name) else None)
        if name in FRESH_CALLS:
            return True
        if isinstance(f, ast.Name) and f.id[:1].isupper():      # constructing an object
            return True
    return False


def inplace_findings(files):
    """[(file, function, line, text)]: augmented assignments, subscript stores, `out=` and .fill()/.sort() applied to values that
    may alias `self`, an argument, or what a method of them returned (to_dense(), weak_form(), coefficients, ...)."""
    out = []
    for rel in PURITY_FILES:
        tree = files.tree(rel)
        private_kernels = {n.name for n in tree.body if isinstance(n, ast.FunctionDef) and n.name.startswith("_")}
        for fn in [n for n in ast.walk(tree) if isinstance(n, ast.FunctionDef)]:
            if fn.name in private_kernels:
                continue       # module-level numba kernels fill output buffers handed in by their (checked) callers
            fresh = set()
            nested = [n for n in ast.walk(fn) if isinstance(n, ast.FunctionDef) and n is not fn]
            skip = {id(x) for n in nested for x in ast.walk(n)}
            stmts = [n for n in ast.walk(fn) if id(n) not in skip]
            # names that are only ever bound to fresh values (two passes are enough for the straight-line code at hand)
            for _ in range(3):
                for n in stmts:
                    if isinstance(n, ast.Assign) and len(n.targets) == 1 and isinstance(n.targets[0], ast.Name):
                        if _is_fresh_expr(n.value, fresh):
                            fresh.add(n.targets[0].id)
                    if isinstance(n, (ast.For, ast.comprehension)) and isinstance(n.target, ast.Name):
                        if isinstance(n.iter, ast.Call) and _root(n.iter) in ("range", "enumerate", "zip"):
                            fresh.add(n.target.id)
                for n in stmts:       # a name that is also bound to a non-fresh value is not fresh
                    if isinstance(n, ast.Assign) and len(n.targets) == 1 and isinstance(n.targets[0], ast.Name):
                        if not _is_fresh_expr(n.value, fresh):
                            fresh.discard(n.targets[0].id)
            for n in stmts:
                tgt = None
                if isinstance(n, ast.AugAssign):
                    tgt = n.target
                    if isinstance(tgt, ast.Attribute) and _u(tgt.value) == "self" and isinstance(n.value, ast.Constant):
                        continue                       # counters such as self._count += 1
                elif isinstance(n, ast.Assign):
                    for t in n.targets:
                        if isinstance(t, ast.Subscript):
                            tgt = t
                elif isinstance(n, ast.Call):
                    if any(k.arg == "out" for k in n.keywords):
                        tgt = [k.value for k in n.keywords if k.arg == "out"][0]
                    elif isinstance(n.func, ast.Attribute) and n.func.attr in ("fill", "sort", "resize", "itemset", "put"):
                        tgt = n.func.value
                if tgt is None:
                    continue
                base = tgt
                while isinstance(base, ast.Subscript):
                    base = base.value
                if isinstance(base, ast.Name) and base.id in fresh:
                    continue
                if isinstance(tgt, ast.Subscript) and isinstance(base, ast.Attribute) and _u(base.value) == "self" and \
                        fn.name in ("__init__", "__setitem__"):
                    continue                           # filling the object's own containers while it is being built
                if isinstance(tgt, ast.Name) and tgt.id in fresh:
                    continue
                out.append((rel, fn.name, n.lineno, _u(n)[:80]))
    return out


def cache_keys(ctx):
    files = Files(ctx)
    check_edges(files)
    info = {"kinds": {}, "caches": {}}
    lines = ["(* generated by translators/cachekeys.py -- do not edit *)", "From Coq Require Import List String.",
             "From BV Require Import State.Caches.", "Import ListNotations.", "Open Scope string_scope.", ""]
    kind_defs = []
    for kind, fns in KINDS.items():
        rs = []
        for rel, qual, when in fns:
            for f, src in reads_of(files, rel, qual):
                rs.append((f, src, when))
        uniq = []
        for x in rs:
            if x not in uniq:
                uniq.append(x)
        rs = uniq
        info["kinds"][kind] = rs
        kind_defs.append("(%s, [%s])" % (kind, "; ".join("(%s, %s, %s)" % r for r in rs)))
    lines.append("Definition cur_reads : list (kind * list (field * src * btime)) := [\n  %s]." % ";\n  ".join(kind_defs))
    cdefs = []
    for cname, spec in CACHES.items():
        kf, args = key_of(files, spec)
        getter_reads = reads_of(files, spec["file"], spec["getter"])
        build = [r for r in getter_reads]
        for rel, qual in spec["build"]:
            build += reads_of(files, rel, qual)
        # reads of the getter that only feed the key are part of the key; everything read counts as a build input
        info["caches"][cname] = {"key": kf, "args": args, "build": build}
        cdefs.append("(%s, (%s, %s))" % (cname, pairs(kf), pairs(sorted(set(build)))))
    lines.append("Definition cur_caches : list (cache * (list (field * src) * list (field * src))) := [\n  %s]." % ";\n  ".join(cdefs))
    ev = []
    for rel, qual in EVAL:
        ev += reads_of(files, rel, qual)
    info["eval"] = ev
    lines.append("Definition eval_reads : list (field * src) := %s." % pairs(sorted(set(ev))))
    # memo cells: space.mass_matrix -> identity(self, self, self).weak_form() with parameters=None
    mm = files.func("bempp_cl/api/space/space.py", "FunctionSpace.mass_matrix")
    body = [_u(s) for s in mm.body if not (isinstance(s, ast.Expr) and isinstance(s.value, ast.Constant))]
    if body != ["if self._mass_matrix is None:\n    from bempp_cl.api.operators.boundary.sparse import identity\n"
                "    self._mass_matrix = identity(self, self, self).weak_form()", "return self._mass_matrix"]:
        raise TieBroken("bempp_cl/api/space/space.py: FunctionSpace.mass_matrix changed")
    info["mass_memo"] = "global-at-first-call"
    lines.append("(* Space.mass_matrix: memo per space object, built by identity(self, self, self) with parameters=None,")
    lines.append("   i.e. a sparse operator on the global parameter object, assembled at the first call *)")
    inpl = inplace_findings(files)
    info["inplace"] = inpl
    lines.append("(* in-place updates of arrays that may alias self / an operand / a cached weak form, found in the algebra files: *)")
    lines.append("Definition inplace_updates : list (string * string * nat) := [%s]." % "; ".join(
        '("%s", "%s", %d%%nat)' % (rel.split("/")[-1], fnn, ln) for rel, fnn, ln, _ in inpl))
    lines.append("Definition cur : tables := {| t_reads := cur_reads; t_caches := cur_caches; t_mass_kind := KSparse; "
                 "t_mass_global := true; t_pure := match inplace_updates with [] => true | _ => false end |}.")
    # get_mass_matrix / get_inverse_mass_matrix use the memo only when domain == dual
    ctx.write_gen("CacheKeys.v", "\n".join(lines) + "\n")
    return info
