"""Translator (tie T) for C17: reads, with `ast`, how the FMM point maps of the current source index their output
and emits coq/gen/FmmIndexing.v with the corresponding `fmm_version` of AssemblyB/FmmModel.v.

  * api/fmm/fmm_assembler.py, the three `compute_*_impl` transforms:
        iind[index] = number_of_quad_points * <v> + point_index
    with <v> the position variable or the element variable of `for <pos>, <elem> in enumerate(support_elements)`;
  * api/space/space.py, map_space_to_points_impl:
        data[<v> * nlocal : (1 + <v>) * nlocal] = basis_values.ravel()
    with <v> the loop variable of `for <elem> in support_elements` (storage by element number) or the position
    variable of `for <pos>, <elem> in enumerate(support_elements)`; the point indices must be
    arange(<elem> * number_of_local_points, ...).
Anything else fails closed."""
import ast

from lib.vlib import TieBroken


def _func(tree, name, path):
    for n in ast.walk(tree):
        if isinstance(n, ast.FunctionDef) and n.name == name:
            return n
    raise TieBroken("%s: function %s not found" % (path, name))


def _support_loop(fn, path):
    """returns (loop node, position variable or None, element variable)"""
    for n in ast.walk(fn):
        if isinstance(n, ast.For):
            it = n.iter
            if isinstance(it, ast.Name) and it.id == "support_elements" and isinstance(n.target, ast.Name):
                return n, None, n.target.id
            if (isinstance(it, ast.Call) and isinstance(it.func, ast.Name) and it.func.id == "enumerate"
                    and len(it.args) == 1 and isinstance(it.args[0], ast.Name) and it.args[0].id == "support_elements"
                    and isinstance(n.target, ast.Tuple) and len(n.target.elts) == 2
                    and all(isinstance(e, ast.Name) for e in n.target.elts)):
                return n, n.target.elts[0].id, n.target.elts[1].id
    raise TieBroken("%s:%d: no loop over support_elements in %s" % (path, fn.lineno, fn.name))


def _transform_slot(fn, path):
    loop, pos, elem = _support_loop(fn, path)
    if pos is None:
        raise TieBroken("%s:%d: %s does not enumerate support_elements" % (path, loop.lineno, fn.name))
    found = []
    for n in ast.walk(loop):
        if (isinstance(n, ast.Assign) and len(n.targets) == 1 and isinstance(n.targets[0], ast.Subscript)
                and isinstance(n.targets[0].value, ast.Name) and n.targets[0].value.id == "iind"):
            v = n.value
            ok = (isinstance(v, ast.BinOp) and isinstance(v.op, ast.Add) and isinstance(v.right, ast.Name)
                  and v.right.id == "point_index" and isinstance(v.left, ast.BinOp) and isinstance(v.left.op, ast.Mult)
                  and isinstance(v.left.left, ast.Name) and v.left.left.id == "number_of_quad_points"
                  and isinstance(v.left.right, ast.Name))
            if not ok:
                raise TieBroken("%s:%d: unrecognised point index expression in %s" % (path, n.lineno, fn.name))
            found.append((v.left.right.id, n.lineno))
    if len(found) != 1:
        raise TieBroken("%s:%d: expected exactly one assignment to iind[...] in %s" % (path, fn.lineno, fn.name))
    var, line = found[0]
    if var == pos:
        return True, line
    if var == elem:
        return False, line
    raise TieBroken("%s:%d: point index uses %s, neither position nor element" % (path, line, var))


def _msp_storage(fn, path):
    loop, pos, elem = _support_loop(fn, path)
    store = None
    arange_ok = False
    for n in ast.walk(loop):
        if (isinstance(n, ast.Assign) and len(n.targets) == 1 and isinstance(n.targets[0], ast.Subscript)
                and isinstance(n.targets[0].value, ast.Name) and n.targets[0].value.id == "data"):
            sl = n.targets[0].slice
            if not (isinstance(sl, ast.Slice) and isinstance(sl.lower, ast.BinOp) and isinstance(sl.lower.op, ast.Mult)
                    and isinstance(sl.lower.left, ast.Name) and isinstance(sl.lower.right, ast.Name)
                    and sl.lower.right.id == "nlocal"):
                raise TieBroken("%s:%d: unrecognised storage slice of data[...]" % (path, n.lineno))
            store = (sl.lower.left.id, n.lineno)
        if isinstance(n, ast.Call) and isinstance(n.func, ast.Attribute) and n.func.attr == "arange" and n.args:
            a0 = n.args[0]
            if (isinstance(a0, ast.BinOp) and isinstance(a0.op, ast.Mult) and isinstance(a0.left, ast.Name)
                    and a0.left.id == elem):
                arange_ok = True
    if store is None:
        raise TieBroken("%s:%d: no assignment to data[...] in %s" % (path, fn.lineno, fn.name))
    if not arange_ok:
        raise TieBroken("%s:%d: point indices of %s are not arange(<element> * npts, ...)" % (path, fn.lineno, fn.name))
    var, line = store
    if var == elem:
        return True, line
    if pos is not None and var == pos:
        return False, line
    raise TieBroken("%s:%d: storage offset uses %s, neither element nor position" % (path, line, var))


def _mentions(node, names):
    return any(isinstance(n, ast.Name) and n.id in names for n in ast.walk(node))


def _is_cmp(test, op, a, b):
    return (isinstance(test, ast.Compare) and len(test.ops) == 1 and isinstance(test.ops[0], op)
            and isinstance(test.left, ast.Name) and len(test.comparators) == 1
            and isinstance(test.comparators[0], ast.Name)
            and {test.left.id, test.comparators[0].id} == {a, b})


def _reuse_guards(tree, path):
    """Under which condition does each make_* evaluator reuse the trial-side transforms / maps on the test side?
    Recognised: `if dual_to_range == domain: <reuse> else: <recompute for dual_to_range>` and
    `if domain != dual_to_range: <recompute for dual_to_range>`; evaluators without any branch on the two spaces
    compute both sides separately.  A guard on anything else (e.g. the grids) fails closed."""
    out = {}
    for name in ("make_default_scalar", "make_scalar_hypersingular", "make_maxwell_electric_field_boundary",
                 "make_maxwell_magnetic_field_boundary"):
        fn = _func(tree, name, path)
        guards = []
        for n in ast.walk(fn):
            if isinstance(n, ast.If) and _mentions(n.test, ("domain", "dual_to_range")):
                if _is_cmp(n.test, ast.Eq, "domain", "dual_to_range"):
                    if not n.orelse or not _mentions(ast.Module(body=n.orelse, type_ignores=[]), ("dual_to_range",)):
                        raise TieBroken("%s:%d: %s reuses trial-side maps without recomputing them for dual_to_range in "
                                        "the else branch" % (path, n.lineno, name))
                    guards.append(("space_eq", n.lineno))
                elif _is_cmp(n.test, ast.NotEq, "domain", "dual_to_range"):
                    if not _mentions(ast.Module(body=n.body, type_ignores=[]), ("dual_to_range",)):
                        raise TieBroken("%s:%d: %s: branch on domain != dual_to_range does not recompute for "
                                        "dual_to_range" % (path, n.lineno, name))
                    guards.append(("space_eq", n.lineno))
                else:
                    raise TieBroken("%s:%d: %s decides about reusing trial-side transforms with a condition other than "
                                    "equality of the two spaces: %s" % (path, n.lineno, name, ast.unparse(n.test)))
        out[name] = guards
    if not out["make_scalar_hypersingular"] or not out["make_maxwell_electric_field_boundary"] \
            or not out["make_maxwell_magnetic_field_boundary"]:
        raise TieBroken("%s: expected a space-equality guard in the hypersingular and Maxwell evaluators: %r" % (path, out))
    if out["make_default_scalar"]:
        raise TieBroken("%s: make_default_scalar is expected to build both maps unconditionally" % path)
    # both maps of make_default_scalar / the normal part of the hypersingular come from their own space
    for name in ("make_default_scalar", "make_scalar_hypersingular"):
        fn = _func(tree, name, path)
        src = ast.unparse(fn)
        if "source_map = domain.map_to_points(" not in src or "target_map = dual_to_range.map_to_points(" not in src:
            raise TieBroken("%s: %s does not build source_map from domain and target_map from dual_to_range" % (path, name))
    return out


def fmm_indexing(ctx):
    pf = "bempp_cl/api/fmm/fmm_assembler.py"
    ps = "bempp_cl/api/space/space.py"
    tf = ast.parse(open(ctx.src(pf)).read())
    ts = ast.parse(open(ctx.src(ps)).read())
    res = {}
    for name in ("compute_p1_curl_transformation_impl", "compute_rwg_basis_transform_impl",
                 "compute_rwg_div_transform_impl"):
        res[name] = _transform_slot(_func(tf, name, pf), pf)
    flags = {v[0] for v in res.values()}
    if len(flags) != 1:
        raise TieBroken("%s: the three transforms index their points differently: %r (the model has one flag)"
                        % (pf, res))
    by_pos = flags.pop()
    guards = _reuse_guards(tf, pf)
    by_elem, line = _msp_storage(_func(ts, "map_space_to_points_impl", ps), ps)
    text = "\n".join([
        "(* GENERATED by translators/fmm_indexing.py from %s and %s - do not edit *)" % (pf, ps),
        "From BV Require Import AssemblyB.Defs AssemblyB.Model AssemblyB.FmmModel.",
        "(* transforms: %s *)" % ", ".join("%s line %d -> %s" % (k, v[1], "position" if v[0] else "element")
                                           for k, v in sorted(res.items())),
        "(* map_space_to_points_impl line %d -> storage by %s *)" % (line, "element number" if by_elem else "position"),
        "Definition current_version : fmm_version := mk_version %s %s." % (str(by_pos).lower(), str(by_elem).lower()),
        "(* reuse of trial-side transforms on the test side: %s *)" % "; ".join(
            "%s: %s" % (k, ", ".join("space equality (line %d)" % g[1] for g in v) or "never (both sides built)")
            for k, v in sorted(guards.items())),
        "Definition reuse_guard_is_space_equality : bool := true.",
        ""])
    ctx.write_gen("FmmIndexing.v", text)
    return {"transform_by_position": by_pos, "msp_store_by_element": by_elem,
            "reuse_guards": {k: [g[0] for g in v] for k, v in guards.items()}}
