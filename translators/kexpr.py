"""Shared expression IR of the kernel translators (py_kernels, c_kernels) and its printers.

IR (JSON friendly nested lists):
  ["var", name] | ["num", numerator, denominator] | ["add"|"sub"|"mul"|"div", a, b] | ["neg", a]
  ["fn", "sqrt"|"cos"|"sin"|"exp", a] | ["ite0", c, a, b]      (a if c == 0 else b)
The same tree is printed as a Coq term over R and evaluated in Python by the harness (translator self-test).
"""
from fractions import Fraction

FNS = ("sqrt", "cos", "sin", "exp")


def num(v):
    f = Fraction(v)
    return ["num", f.numerator, f.denominator]


def var(n):
    return ["var", n]


def is_num(e, v=None):
    return e[0] == "num" and (v is None or Fraction(e[1], e[2]) == v)


def coq(e):
    k = e[0]
    if k == "var":
        return e[1]
    if k == "num":
        n, d = e[1], e[2]
        s = str(n) if n >= 0 else "(%d)" % n
        return s if d == 1 else "(%s / %d)" % (s, d)
    if k == "neg":
        return "(- %s)" % coq(e[1])
    if k in ("add", "sub", "mul", "div"):
        return "(%s %s %s)" % (coq(e[1]), {"add": "+", "sub": "-", "mul": "*", "div": "/"}[k], coq(e[2]))
    if k == "fn":
        if e[1] not in FNS:
            raise ValueError("unknown function " + e[1])
        return "(%s %s)" % (e[1], coq(e[2]))
    if k == "ite0":
        return "(if Req_EM_T %s 0 then %s else %s)" % (coq(e[1]), coq(e[2]), coq(e[3]))
    raise ValueError("bad IR node %r" % (k,))


def free_vars(e, acc=None):
    acc = set() if acc is None else acc
    if e[0] == "var":
        acc.add(e[1])
    else:
        for s in e[1:]:
            if isinstance(s, list):
                free_vars(s, acc)
    return acc


def size(e):
    return 1 + sum(size(s) for s in e[1:] if isinstance(s, list))
