"""Translator: Numba Green's-function kernels and FMM point kernels -> Coq terms over R (fail closed).

Reads (current /repo tree):
  bempp_cl/core/numba_kernels.py   every function named in the kernel_functions_regular / kernel_functions_singular
                                   dictionaries of select_numba_kernels           -> gen/NumbaKernels.v
  bempp_cl/api/fmm/helpers.py      laplace_kernel, modified_helmholtz_kernel, helmholtz_kernel (value + gradient)
  bempp_cl/api/space/shapesets.py  *_shapeset_evaluate                                 -> gen/Shapesets.v

Method: lane-generic symbolic execution of the function body with Python's ast.  Loops over range(<const>) are
unrolled; loops over range(npoints) / range(nsources) / range(ntargets) are executed once for a symbolic point
index, after checking that every per-point array is indexed by exactly that loop variable in its last position (so
every lane performs the same arithmetic on its own data).  Anything outside the recognised subset raises TieBroken.
"""
import ast
import copy
import itertools

from lib.vlib import TieBroken
from translators import kexpr
from translators.kexpr import num, var

KARGS = ["x0", "x1", "x2", "y0", "y1", "y2", "nx0", "nx1", "nx2", "ny0", "ny1", "ny2", "p0", "p1"]
FARGS = ["x0", "x1", "x2", "y0", "y1", "y2", "p0", "p1"]
NUMBA_SRC = "bempp_cl/core/numba_kernels.py"
FMM_SRC = "bempp_cl/api/fmm/helpers.py"
SHAPE_SRC = "bempp_cl/api/space/shapesets.py"


class _Arr:
    """Array in the symbolic store. lane: None (not per point) or the name of the size symbol of its last axis."""

    def __init__(self, shape, lane, init=None):
        self.shape, self.lane = tuple(shape), lane
        self.d = {idx: (copy.deepcopy(init) if init is not None else None)
                  for idx in itertools.product(*[range(s) for s in shape])}


class _Exec:
    def __init__(self, path, rel, fn, sizes):
        self.path, self.rel, self.fn = path, rel, fn
        self.env = {}          # name -> _Arr | IR expr
        self.sizes = dict(sizes)    # size symbol name -> None ; loop var bound to it while inside the loop
        self.lanevar = {}      # size symbol -> loop variable currently iterating it
        self.skip = set()
        self.ret = None
        self.out4 = {}         # names of the 4-slot interaction arrays (fmm)

    def fail(self, node, msg):
        raise TieBroken("%s:%s (%s): %s" % (self.rel, getattr(node, "lineno", "?"), self.fn.name, msg))

    # ---- integer index expressions: polynomials in symbols -----------------
    def ipoly(self, e, loc):
        if isinstance(e, ast.Constant) and isinstance(e.value, int) and not isinstance(e.value, bool):
            return {(): e.value}
        if isinstance(e, ast.Name):
            if e.id in loc:
                return {(): loc[e.id]}
            for sz, lv in self.lanevar.items():
                if lv == e.id:
                    return {("@" + sz,): 1}
            if e.id in self.sizes:
                return {(e.id,): 1}
            self.fail(e, "index name %s" % e.id)
        if isinstance(e, ast.BinOp) and isinstance(e.op, (ast.Add, ast.Mult)):
            a, b = self.ipoly(e.left, loc), self.ipoly(e.right, loc)
            out = {}
            if isinstance(e.op, ast.Add):
                for p in (a, b):
                    for m, c in p.items():
                        out[m] = out.get(m, 0) + c
            else:
                for (m1, c1), (m2, c2) in itertools.product(a.items(), b.items()):
                    m = tuple(sorted(m1 + m2))
                    out[m] = out.get(m, 0) + c1 * c2
            return {m: c for m, c in out.items() if c != 0}
        self.fail(e, "index expression %s" % ast.dump(e)[:60])

    def index(self, sub, loc):
        """-> (array name, concrete index tuple without the lane axis)."""
        if not isinstance(sub.value, ast.Name) or sub.value.id not in self.env or \
                not isinstance(self.env[sub.value.id], _Arr):
            self.fail(sub, "subscript of a non-array")
        name = sub.value.id
        arr = self.env[name]
        sl = sub.slice
        idxs = list(sl.elts) if isinstance(sl, ast.Tuple) else [sl]
        if name in self.out4:
            # flat interaction array: index must be 4*T*nsources + 4*J + c, 0 <= c < 4
            t, s = self.out4[name]
            if len(idxs) != 1:
                self.fail(sub, "interaction array index")
            p = self.ipoly(idxs[0], loc)
            c = p.pop((), 0)
            want = {tuple(sorted(("@" + t, s))): 4, ("@" + s,): 4}
            if p != want or not (0 <= c < 4):
                self.fail(sub, "interaction index is not 4*t*nsources + 4*j + c: %r" % (p,))
            return name, (c,)
        polys = [self.ipoly(i, loc) for i in idxs]
        if arr.lane is not None:
            if not polys or polys[-1] != {("@" + arr.lane,): 1}:
                self.fail(sub, "per-point array %s is not indexed by the point-loop variable in its last axis" % name)
            polys = polys[:-1]
        out = []
        for p in polys:
            if set(p) - {()}:
                self.fail(sub, "array %s indexed by a point variable in a non-point axis" % name)
            out.append(p.get((), 0))
        if len(out) != len(arr.shape) or any(not (0 <= i < n) for i, n in zip(out, arr.shape)):
            self.fail(sub, "index out of the declared shape of %s" % name)
        return name, tuple(out)

    def load(self, sub, loc):
        name, ix = self.index(sub, loc)
        v = self.env[name].d[ix]
        if v is None:
            self.fail(sub, "%s%r read before it is written" % (name, ix))
        return v

    def store(self, sub, val, loc):
        name, ix = self.index(sub, loc)
        self.env[name].d[ix] = val

    # ---- real expressions --------------------------------------------------
    def ev(self, e, loc):
        if isinstance(e, ast.Constant):
            if isinstance(e.value, (int, float)) and not isinstance(e.value, bool):
                return num(e.value)
            self.fail(e, "constant %r" % (e.value,))
        if isinstance(e, ast.Name):
            if e.id in self.env and not isinstance(self.env[e.id], _Arr):
                return self.env[e.id]
            self.fail(e, "name %s used as a real value" % e.id)
        if isinstance(e, ast.UnaryOp) and isinstance(e.op, ast.USub):
            return ["neg", self.ev(e.operand, loc)]
        if isinstance(e, ast.BinOp):
            a = self.ev(e.left, loc)
            if isinstance(e.op, ast.Pow):
                if isinstance(e.right, ast.Constant) and e.right.value == 2:
                    return ["mul", a, a]
                self.fail(e, "power other than **2")
            op = {ast.Add: "add", ast.Sub: "sub", ast.Mult: "mul", ast.Div: "div"}.get(type(e.op))
            if op is None:
                self.fail(e, "binary operator")
            return [op, a, self.ev(e.right, loc)]
        if isinstance(e, ast.Subscript):
            return self.load(e, loc)
        if isinstance(e, ast.Call):
            f = e.func
            if isinstance(f, ast.Attribute) and isinstance(f.value, ast.Name) and f.value.id == "_np" and \
                    f.attr in kexpr.FNS and len(e.args) == 1 and not e.keywords:
                return ["fn", f.attr, self.ev(e.args[0], loc)]
            if ast.unparse(e) == "dtype.type(M_INV_4PI)":
                return var("M_INV_4PI")
            self.fail(e, "call %s" % ast.unparse(e)[:60])
        self.fail(e, "expression %s" % type(e).__name__)

    # ---- statements --------------------------------------------------------
    def alloc(self, s, name, call):
        fn = call.func.attr
        init = num(0) if fn == "zeros" else None
        if fn not in ("zeros", "empty") or len(call.args) != 1 or \
                [k.arg for k in call.keywords] != ["dtype"]:
            self.fail(s, "allocation form")
        shp = call.args[0]
        txt = ast.unparse(shp)
        for sz in self.sizes:
            if txt == sz:
                self.env[name] = _Arr((), sz, init)
                return
            if isinstance(shp, ast.Tuple) and len(shp.elts) == 2 and isinstance(shp.elts[0], ast.Constant) and \
                    ast.unparse(shp.elts[1]) == sz:
                self.env[name] = _Arr((shp.elts[0].value,), sz, init)
                return
        if txt == "4 * ntargets * nsources" and fn == "empty":
            self.env[name] = _Arr((4,), None, None)
            self.out4[name] = ("ntargets", "nsources")
            return
        self.fail(s, "allocation shape %s" % txt)

    def run(self, stmts, loc):
        for s in stmts:
            if isinstance(s, ast.Expr) and isinstance(s.value, ast.Constant) and isinstance(s.value.value, str):
                continue
            if isinstance(s, ast.Assign) and len(s.targets) == 1:
                t, v = s.targets[0], s.value
                if isinstance(t, ast.Name):
                    txt = ast.unparse(v)
                    if (t.id, txt) in self.skip:
                        continue
                    if isinstance(v, ast.Call) and isinstance(v.func, ast.Attribute) and \
                            isinstance(v.func.value, ast.Name) and v.func.value.id == "_np":
                        self.alloc(s, t.id, v)
                    elif t.id in self.sizes or t.id == "dtype":
                        self.fail(s, "unexpected definition of %s = %s" % (t.id, txt))
                    else:
                        self.env[t.id] = self.ev(v, loc)
                elif isinstance(t, ast.Subscript):
                    self.store(t, self.ev(v, loc), loc)
                else:
                    self.fail(s, "assignment target")
            elif isinstance(s, ast.AugAssign) and isinstance(s.target, ast.Subscript):
                op = {ast.Add: "add", ast.Sub: "sub", ast.Mult: "mul"}.get(type(s.op))
                if op is None:
                    self.fail(s, "augmented operator")
                cur = self.load(s.target, loc)
                self.store(s.target, [op, cur, self.ev(s.value, loc)], loc)
            elif isinstance(s, ast.For):
                it = s.iter
                if s.orelse or not (isinstance(it, ast.Call) and isinstance(it.func, ast.Name) and
                                    it.func.id == "range" and len(it.args) == 1 and isinstance(s.target, ast.Name)):
                    self.fail(s, "loop form")
                a = it.args[0]
                if isinstance(a, ast.Constant) and isinstance(a.value, int) and 0 < a.value <= 4:
                    for i in range(a.value):
                        self.run(s.body, {**loc, s.target.id: i})
                elif isinstance(a, ast.Name) and a.id in self.sizes:
                    if a.id in self.lanevar:
                        self.fail(s, "nested loop over the same point range")
                    if a.id == "ntargets":
                        # a fresh generic target iteration: nothing computed by an earlier iteration may be read
                        for k, arr in self.env.items():
                            if isinstance(arr, _Arr) and arr.lane is not None and k not in self.inputs:
                                for idx in arr.d:
                                    arr.d[idx] = None
                    self.lanevar[a.id] = s.target.id
                    self.run(s.body, loc)
                    del self.lanevar[a.id]
                else:
                    self.fail(s, "loop range %s" % ast.unparse(a))
            elif isinstance(s, ast.If):
                t = s.test
                if s.orelse or not (isinstance(t, ast.Compare) and len(t.ops) == 1 and
                                    isinstance(t.ops[0], (ast.NotEq, ast.Eq)) and
                                    isinstance(t.comparators[0], ast.Constant) and t.comparators[0].value == 0 and
                                    not isinstance(t.comparators[0].value, bool)):
                    self.fail(s, "conditional form")
                cv = self.ev(t.left, loc)
                before = {k: copy.deepcopy(v.d) for k, v in self.env.items() if isinstance(v, _Arr)}
                scal = {k: v for k, v in self.env.items() if not isinstance(v, _Arr)}
                self.run(s.body, loc)
                for k in [k for k, v in self.env.items() if isinstance(v, _Arr) and k not in before]:
                    del self.env[k]      # arrays allocated inside the conditional are local to it
                for k, v in self.env.items():
                    if isinstance(v, _Arr):
                        for idx in v.d:
                            if v.d[idx] != before[k][idx]:
                                if before[k][idx] is None:
                                    self.fail(s, "conditional write to an undefined cell of %s" % k)
                                if isinstance(t.ops[0], ast.NotEq):
                                    v.d[idx] = ["ite0", cv, before[k][idx], v.d[idx]]
                                else:
                                    v.d[idx] = ["ite0", cv, v.d[idx], before[k][idx]]
                    elif scal.get(k) != v:
                        self.fail(s, "scalar assigned under a conditional")
            elif isinstance(s, ast.Return):
                if self.lanevar:
                    self.fail(s, "return inside a point loop")
                v = s.value
                if isinstance(v, ast.Name) and isinstance(self.env.get(v.id), _Arr):
                    self.ret = (self.env[v.id], None)
                elif isinstance(v, ast.BinOp) and isinstance(v.op, ast.Add) and isinstance(v.left, ast.Name) and \
                        isinstance(v.right, ast.BinOp) and isinstance(v.right.op, ast.Mult) and \
                        isinstance(v.right.left, ast.Constant) and v.right.left.value == 1j and \
                        isinstance(v.right.right, ast.Name):
                    self.ret = (self.env[v.left.id], self.env[v.right.right.id])
                else:
                    self.fail(s, "return form")
                return
            else:
                self.fail(s, "statement %s" % type(s).__name__)


def _check_decorator(ex, fn):
    if len(fn.decorator_list) != 1 or not ast.unparse(fn.decorator_list[0]).startswith("_numba.jit("):
        ex.fail(fn, "unexpected decorator")


def _kernel(path, rel, fn, singular):
    args = [a.arg for a in fn.args.args]
    if len(args) != 5 or args[4] != "kernel_parameters" or fn.args.defaults or fn.args.vararg or fn.args.kwarg:
        raise TieBroken("%s:%d: kernel %s has an unexpected signature" % (rel, fn.lineno, fn.name))
    ex = _Exec(path, rel, fn, {"npoints": None})
    _check_decorator(ex, fn)
    tp, trp, tn, trn, kp = args
    lanes = {tp: "npoints" if singular else None, trp: "npoints", tn: None, trn: None if singular else "npoints"}
    for a, pre in ((tp, "x"), (trp, "y"), (tn, "nx"), (trn, "ny")):
        arr = _Arr((3,), lanes[a])
        for i in range(3):
            arr.d[(i,)] = var("%s%d" % (pre, i))
        ex.env[a] = arr
    arr = _Arr((2,), None)
    arr.d[(0,)], arr.d[(1,)] = var("p0"), var("p1")
    ex.env[kp] = arr
    ex.inputs = set(args)
    ex.skip = {("npoints", "%s.shape[1]" % trp), ("dtype", "%s.dtype" % trp)}
    ex.run(fn.body, {})
    if ex.ret is None:
        ex.fail(fn, "no return")
    re_, im_ = ex.ret
    for a in (re_, im_):
        if a is not None and (a.shape != () or a.lane != "npoints" or a.d[()] is None):
            ex.fail(fn, "returned array is not a fully written per-point vector")
    return re_.d[()], (im_.d[()] if im_ is not None else num(0)), im_ is not None


def _fmm_kernel(path, rel, fn):
    args = [a.arg for a in fn.args.args]
    if args != ["target_points", "source_points", "kernel_parameters", "dtype", "result_type"]:
        raise TieBroken("%s:%d: fmm kernel %s has an unexpected signature" % (rel, fn.lineno, fn.name))
    ex = _Exec(path, rel, fn, {"ntargets": None, "nsources": None})
    _check_decorator(ex, fn)
    for a, pre, lane in (("target_points", "x", "ntargets"), ("source_points", "y", "nsources")):
        arr = _Arr((3,), lane)
        for i in range(3):
            arr.d[(i,)] = var("%s%d" % (pre, i))
        ex.env[a] = arr
    arr = _Arr((2,), None)
    arr.d[(0,)], arr.d[(1,)] = var("p0"), var("p1")
    ex.env["kernel_parameters"] = arr
    ex.inputs = {"target_points", "source_points", "kernel_parameters"}
    ex.skip = {("ntargets", "target_points.shape[1]"), ("nsources", "source_points.shape[1]")}
    ex.run(fn.body, {})
    if ex.ret is None:
        ex.fail(fn, "no return")
    re_, im_ = ex.ret
    comps = []
    for c in range(4):
        r = re_.d[(c,)]
        i = im_.d[(c,)] if im_ is not None else num(0)
        if r is None or i is None:
            ex.fail(fn, "interaction slot %d never written" % c)
        comps.append((r, i))
    return comps, im_ is not None


def _parse(ctx, rel):
    path = ctx.src(rel)
    tree = ast.parse(open(path).read())
    funcs = {n.name: n for n in tree.body if isinstance(n, ast.FunctionDef)}
    return path, tree, funcs


def selection_tables(ctx):
    """kernel_type -> function name, from the dictionaries of select_numba_kernels (regular, singular)."""
    path, tree, funcs = _parse(ctx, NUMBA_SRC)
    sel = funcs.get("select_numba_kernels")
    if sel is None:
        raise TieBroken(NUMBA_SRC + ": select_numba_kernels not found")
    tabs = {}
    for s in sel.body:
        if isinstance(s, ast.Assign) and isinstance(s.targets[0], ast.Name) and isinstance(s.value, ast.Dict):
            d = {}
            for k, v in zip(s.value.keys, s.value.values):
                if not (isinstance(k, ast.Constant) and isinstance(k.value, str) and isinstance(v, ast.Name)):
                    raise TieBroken("%s:%d: selection table entry is not 'name': function" % (NUMBA_SRC, s.lineno))
                if k.value in d:
                    raise TieBroken("%s:%d: duplicate key %s" % (NUMBA_SRC, s.lineno, k.value))
                d[k.value] = v.id
            tabs[s.targets[0].id] = d
    for need in ("kernel_functions_regular", "kernel_functions_singular"):
        if need not in tabs:
            raise TieBroken("%s: table %s not found in select_numba_kernels" % (NUMBA_SRC, need))
    # which table each mode reads
    modes = {}
    for s in sel.body:
        node = s
        while isinstance(node, ast.If):
            t = node.test
            if isinstance(t, ast.Compare) and ast.unparse(t.left) == "mode" and isinstance(t.comparators[0], ast.Constant):
                r = node.body[0]
                if isinstance(r, ast.Return) and isinstance(r.value, ast.Tuple) and len(r.value.elts) == 2:
                    k = r.value.elts[1]
                    if isinstance(k, ast.Subscript) and isinstance(k.value, ast.Name) and \
                            ast.unparse(k.slice) == "operator_descriptor.kernel_type":
                        modes[t.comparators[0].value] = k.value.id
            node = node.orelse[0] if len(node.orelse) == 1 else None
    if modes.get("regular") != "kernel_functions_regular" or modes.get("singular") != "kernel_functions_singular" or \
            modes.get("potential") != "kernel_functions_regular":
        raise TieBroken("%s: select_numba_kernels mode dispatch not recognised: %r" % (NUMBA_SRC, modes))
    return tabs, modes


def _defn(name, args, e):
    return "Definition %s (%s : R) : R :=\n  %s." % (name, " ".join(args), kexpr.coq(e))


def numba_kernels(ctx):
    """Emit gen/NumbaKernels.v; returns {'kernels': {name: {...IR...}}, 'fmm': {...}, 'tables': ...}."""
    path, tree, funcs = _parse(ctx, NUMBA_SRC)
    m = [n for n in tree.body if isinstance(n, ast.Assign) and ast.unparse(n.targets[0]) == "M_INV_4PI"]
    if len(m) != 1 or ast.unparse(m[0].value) != "1.0 / (4 * _np.pi)":
        raise TieBroken(NUMBA_SRC + ": M_INV_4PI is not defined as 1.0 / (4 * _np.pi)")
    tabs, _modes = selection_tables(ctx)
    out = ["(* generated by translators/py_kernels.py from %s and %s -- do not edit *)" % (NUMBA_SRC, FMM_SRC),
           "From Coq Require Import Reals String List.", "Import ListNotations.", "Open Scope R_scope.", "",
           "Definition M_INV_4PI : R := 1 / (4 * PI).", "",
           "(* arguments: test point x, trial point y, test normal nx, trial normal ny, kernel parameters p0 p1 *)",
           "Definition kfun : Type := R -> R -> R -> R -> R -> R -> R -> R -> R -> R -> R -> R -> R -> R -> R * R.",
           "Definition ffun : Type := R -> R -> R -> R -> R -> R -> R -> R -> R * R.", ""]
    res = {"kernels": {}, "fmm": {}, "tables": tabs}
    done = {}
    for tab, singular in (("kernel_functions_regular", False), ("kernel_functions_singular", True)):
        for _kt, fname in tabs[tab].items():
            if fname in done:
                if done[fname] != singular:
                    raise TieBroken("%s: %s used both as regular and singular kernel" % (NUMBA_SRC, fname))
                continue
            if fname not in funcs:
                raise TieBroken("%s: kernel function %s not defined at top level" % (NUMBA_SRC, fname))
            re_, im_, cplx = _kernel(path, NUMBA_SRC, funcs[fname], singular)
            for e in (re_, im_):
                extra = kexpr.free_vars(e) - set(KARGS) - {"M_INV_4PI"}
                if extra:
                    raise TieBroken("%s: %s has free symbols %s" % (NUMBA_SRC, fname, sorted(extra)))
            done[fname] = singular
            res["kernels"][fname] = {"re": re_, "im": im_, "complex": cplx, "singular": singular,
                                     "line": funcs[fname].lineno}
            out.append("(* %s:%d *)" % (NUMBA_SRC, funcs[fname].lineno))
            out.append(_defn(fname + "_re", KARGS, re_))
            out.append(_defn(fname + "_im", KARGS, im_))
            out.append("Definition %s : kfun := fun %s => (%s_re %s, %s_im %s)." % (
                fname, " ".join(KARGS), fname, " ".join(KARGS), fname, " ".join(KARGS)))
            out.append("")
    # lookup by function name and selection tables
    out.append("Definition numba_kernel (name : string) : option kfun :=")
    for fname in done:
        out.append('  if String.eqb name "%s"%%string then Some %s else' % (fname, fname))
    out.append("  None.")
    out.append("")
    for tab in ("kernel_functions_regular", "kernel_functions_singular"):
        out.append("Definition numba_%s : list (string * string) :=\n  [%s]." % (
            tab, ";\n   ".join('("%s"%%string, "%s"%%string)' % kv for kv in tabs[tab].items())))
    # select_numba_kernels(mode="potential") reads the kernel from the table named below (checked in selection_tables)
    out.append("Definition numba_kernel_functions_potential : list (string * string) := numba_%s." % _modes["potential"])
    out.append("Definition numba_kernel_is_complex : list (string * bool) :=\n  [%s]." % ";\n   ".join(
        '("%s"%%string, %s)' % (k, "true" if v["complex"] else "false") for k, v in res["kernels"].items()))
    ff = [k for k in res["kernels"] if "far_field" in k]
    uses = any("p1" in kexpr.free_vars(res["kernels"][k][c]) for k in ff for c in ("re", "im"))
    res["far_field_kernels_use_imag"] = uses
    out.append("(* does kernel_parameters[1] (imaginary part of the wavenumber) occur in a far-field kernel? *)")
    out.append("Definition far_field_kernels_use_imag : bool := %s." % ("true" if uses and ff else "false"))
    out.append("")
    # FMM point kernels
    fpath, ftree, ffuncs = _parse(ctx, FMM_SRC)
    fm = [n for n in ftree.body if isinstance(n, ast.Assign) and ast.unparse(n.targets[0]) == "M_INV_4PI"]
    if len(fm) != 1 or ast.unparse(fm[0].value) != "1.0 / (4 * _np.pi)":
        raise TieBroken(FMM_SRC + ": M_INV_4PI is not defined as 1.0 / (4 * _np.pi)")
    for fname in ("laplace_kernel", "modified_helmholtz_kernel", "helmholtz_kernel"):
        if fname not in ffuncs:
            raise TieBroken("%s: %s not found" % (FMM_SRC, fname))
        comps, cplx = _fmm_kernel(fpath, FMM_SRC, ffuncs[fname])
        res["fmm"][fname] = {"comps": [{"re": r, "im": i} for r, i in comps], "complex": cplx,
                             "line": ffuncs[fname].lineno}
        out.append("(* %s:%d ; component 0 = value, 1..3 = gradient with respect to the target point x *)" % (
            FMM_SRC, ffuncs[fname].lineno))
        for c, (r, i) in enumerate(comps):
            for e in (r, i):
                extra = kexpr.free_vars(e) - set(FARGS) - {"M_INV_4PI"}
                if extra:
                    raise TieBroken("%s: %s has free symbols %s" % (FMM_SRC, fname, sorted(extra)))
            out.append(_defn("fmm_%s_%d_re" % (fname, c), FARGS, r))
            out.append(_defn("fmm_%s_%d_im" % (fname, c), FARGS, i))
        out.append("")
    ctx.write_gen("NumbaKernels.v", "\n".join(out) + "\n")
    return res


# ---------------------------------------------------------------------------------------------------------------
# reference shape functions (api/space/shapesets.py)

def _affine(e, rel, fname):
    """Affine expression in local_coordinates[0], local_coordinates[1] -> IR over u, v."""
    txt = ast.unparse(e)
    for pat, v in (("local_coordinates[0, :]", "u"), ("local_coordinates[1, :]", "v"),
                   ("local_coordinates[0]", "u"), ("local_coordinates[1]", "v")):
        if txt == pat:
            return var(v)
    if isinstance(e, ast.Constant) and isinstance(e.value, (int, float)) and not isinstance(e.value, bool):
        return num(e.value)
    if isinstance(e, ast.BinOp) and isinstance(e.op, (ast.Add, ast.Sub)):
        return ["add" if isinstance(e.op, ast.Add) else "sub", _affine(e.left, rel, fname), _affine(e.right, rel, fname)]
    if isinstance(e, ast.UnaryOp) and isinstance(e.op, ast.USub):
        return ["neg", _affine(e.operand, rel, fname)]
    raise TieBroken("%s:%d (%s): not an affine expression of the local coordinates: %s" % (
        rel, e.lineno, fname, txt[:60]))


def _vstack_rows(e, rel, fname):
    if not (isinstance(e, ast.Call) and ast.unparse(e.func) == "_np.vstack" and len(e.args) == 1 and
            isinstance(e.args[0], ast.Tuple)):
        raise TieBroken("%s:%d (%s): expected _np.vstack((...))" % (rel, e.lineno, fname))
    return [_affine(r, rel, fname) for r in e.args[0].elts]


def shapesets_py(ctx):
    """Emit gen/Shapesets.v: for every identifier of _SHAPESETS the list over shape functions of the list over
    components of the value at local point (u, v)."""
    path, tree, funcs = _parse(ctx, SHAPE_SRC)
    table = [n for n in tree.body if isinstance(n, ast.Assign) and ast.unparse(n.targets[0]) == "_SHAPESETS"]
    if len(table) != 1 or not isinstance(table[0].value, ast.Dict):
        raise TieBroken(SHAPE_SRC + ": _SHAPESETS dictionary not found")
    sets = {}
    for k, v in zip(table[0].value.keys, table[0].value.values):
        if not (isinstance(k, ast.Constant) and isinstance(v, ast.Dict)):
            raise TieBroken("%s:%d: _SHAPESETS entry form" % (SHAPE_SRC, table[0].lineno))
        ent = {}
        for kk, vv in zip(v.keys, v.values):
            ent[kk.value] = vv.id if isinstance(vv, ast.Name) else ast.literal_eval(vv)
        sets[k.value] = ent
    evals = {}

    def evaluate(fname):
        if fname in evals:
            return evals[fname]
        fn = funcs.get(fname)
        if fn is None or [a.arg for a in fn.args.args] != ["local_coordinates"]:
            raise TieBroken("%s: shapeset function %s missing or has an unexpected signature" % (SHAPE_SRC, fname))
        body = [s for s in fn.body if not (isinstance(s, ast.Expr) and isinstance(s.value, ast.Constant))]
        # form A: return _np.ones((1, 1, n))
        if len(body) == 1 and isinstance(body[0], ast.Return):
            r = body[0].value
            txt = ast.unparse(r)
            if txt == "_np.ones((1, 1, local_coordinates.shape[1]), dtype=local_coordinates.dtype)":
                vals = [[num(1)]]            # [component][function]
            elif isinstance(r, ast.Call) and ast.unparse(r.func) == "_np.expand_dims" and len(r.args) == 2 and \
                    ast.unparse(r.args[1]) == "0":
                vals = [_vstack_rows(r.args[0], SHAPE_SRC, fname)]
            else:
                raise TieBroken("%s:%d (%s): return form" % (SHAPE_SRC, fn.lineno, fname))
        else:
            # form B: vals = zeros((c, f, n)); vals[k, :, :] = vstack(...); return vals
            vals, name = None, None
            for s in body:
                txt = ast.unparse(s)
                if txt == "dtype = local_coordinates.dtype":
                    continue
                if isinstance(s, ast.Assign) and isinstance(s.targets[0], ast.Name) and isinstance(s.value, ast.Call) \
                        and ast.unparse(s.value.func) == "_np.zeros" and vals is None:
                    shp = s.value.args[0]
                    if not (isinstance(shp, ast.Tuple) and len(shp.elts) == 3 and
                            ast.unparse(shp.elts[2]) == "local_coordinates.shape[1]"):
                        raise TieBroken("%s:%d (%s): zeros shape" % (SHAPE_SRC, s.lineno, fname))
                    nc, nf = shp.elts[0].value, shp.elts[1].value
                    vals = [[num(0)] * nf for _ in range(nc)]
                    name = s.targets[0].id
                elif isinstance(s, ast.Assign) and isinstance(s.targets[0], ast.Subscript) and vals is not None and \
                        ast.unparse(s.targets[0].value) == name:
                    sl = s.targets[0].slice
                    if not (isinstance(sl, ast.Tuple) and len(sl.elts) == 3 and isinstance(sl.elts[0], ast.Constant)
                            and ast.unparse(sl.elts[1]) == ":" and ast.unparse(sl.elts[2]) == ":"):
                        raise TieBroken("%s:%d (%s): slice assignment form" % (SHAPE_SRC, s.lineno, fname))
                    rows = _vstack_rows(s.value, SHAPE_SRC, fname)
                    if len(rows) != len(vals[sl.elts[0].value]):
                        raise TieBroken("%s:%d (%s): row count" % (SHAPE_SRC, s.lineno, fname))
                    vals[sl.elts[0].value] = rows
                elif isinstance(s, ast.Return) and ast.unparse(s.value) == name:
                    break
                else:
                    raise TieBroken("%s:%d (%s): statement %s" % (SHAPE_SRC, s.lineno, fname, txt[:50]))
            else:
                raise TieBroken("%s (%s): no return" % (SHAPE_SRC, fname))
        # transpose to [function][component]
        nf = len(vals[0])
        evals[fname] = [[vals[c][f] for c in range(len(vals))] for f in range(nf)]
        return evals[fname]

    out = ["(* generated by translators/py_kernels.py from %s -- do not edit *)" % SHAPE_SRC,
           "From Coq Require Import Reals String List.", "Import ListNotations.", "Open Scope R_scope.", ""]
    res = {}
    for ident, ent in sets.items():
        fv = evaluate(ent["evaluate"])
        if len(fv) != ent["number_of_shape_functions"] or any(len(c) != ent["dimension"] for c in fv):
            raise TieBroken("%s: %s: declared number_of_shape_functions/dimension do not match the evaluate function"
                            % (SHAPE_SRC, ident))
        if ent.get("identifier") != ident:
            raise TieBroken("%s: %s: identifier field differs from its key" % (SHAPE_SRC, ident))
        res[ident] = fv
        out.append("Definition py_%s_evaluate (u v : R) : list (list R) :=\n  [%s]." % (
            ident, ";\n   ".join("[" + "; ".join(kexpr.coq(c) for c in f) + "]" for f in fv)))
    out.append("")
    out.append("Definition py_shapeset (name : string) : option (R -> R -> list (list R)) :=")
    for ident in sets:
        out.append('  if String.eqb name "%s"%%string then Some py_%s_evaluate else' % (ident, ident))
    out.append("  None.")
    out.append("Definition py_shapeset_names : list string := [%s]." % "; ".join('"%s"%%string' % i for i in sets))
    ctx.write_gen("Shapesets.v", "\n".join(out) + "\n")
    return res


# ---------------------------------------------------------------------------------------------------------------
# Maxwell potential / far-field assemblers: the per-(evaluation point, quadrature point) integrand, complex arithmetic

MAXWELL_FUNCS = ["maxwell_efield_potential", "maxwell_mfield_potential", "maxwell_efield_far_field",
                 "maxwell_mfield_far_field"]
MARGS = ["x0", "x1", "x2", "y0", "y1", "y2", "Gre", "Gim", "v0r", "v0i", "v1r", "v1i", "v2r", "v2i", "qr", "qi", "p0", "p1"]


def _cadd(a, b):
    return (["add", a[0], b[0]], ["add", a[1], b[1]])


def _csub(a, b):
    return (["sub", a[0], b[0]], ["sub", a[1], b[1]])


def _cmul(a, b):
    return (["sub", ["mul", a[0], b[0]], ["mul", a[1], b[1]]], ["add", ["mul", a[0], b[1]], ["mul", a[1], b[0]]])


def _cdiv(a, b):
    den = ["add", ["mul", b[0], b[0]], ["mul", b[1], b[1]]]
    return (["div", ["add", ["mul", a[0], b[0]], ["mul", a[1], b[1]]], den],
            ["div", ["sub", ["mul", a[1], b[0]], ["mul", a[0], b[1]]], den])


def _real(e):
    return (e, num(0))


class _CExpr:
    """Complex-valued expression of the Maxwell integrands over a fixed symbol table (fails closed)."""

    def __init__(self, rel, fn, has_dist, vec_name, dim):
        self.rel, self.fn, self.has_dist, self.vec_name, self.dim = rel, fn, has_dist, vec_name, dim
        d = [["sub", var("x%d" % i), var("y%d" % i)] for i in range(3)]
        self.d = d
        self.r = ["fn", "sqrt", ["add", ["add", ["mul", d[0], d[0]], ["mul", d[1], d[1]]], ["mul", d[2], d[2]]]]
        self.locals = {}

    def fail(self, node, msg):
        raise TieBroken("%s:%s (%s): %s" % (self.rel, getattr(node, "lineno", "?"), self.fn, msg))

    def idx(self, node):
        if isinstance(node, ast.Constant) and isinstance(node.value, int):
            return node.value
        if isinstance(node, ast.Name) and node.id == "dim" and self.dim is not None:
            return self.dim
        self.fail(node, "component index")

    def ev(self, e):
        """-> complex pair, or list of 3 complex pairs for vector values"""
        if isinstance(e, ast.Constant):
            if isinstance(e.value, complex) and e.value == 1j:
                return (num(0), num(1))
            if isinstance(e.value, (int, float)) and not isinstance(e.value, bool):
                return _real(num(e.value))
            self.fail(e, "constant")
        if isinstance(e, ast.Name):
            if e.id == "wavenumber":
                return (var("p0"), var("p1"))
            if e.id == "ldist" and self.has_dist:
                return _real(self.r)
            if e.id in self.locals:
                return self.locals[e.id]
            self.fail(e, "name %s" % e.id)
        if isinstance(e, ast.Subscript) and isinstance(e.value, ast.Name):
            n, sl = e.value.id, e.slice
            els = list(sl.elts) if isinstance(sl, ast.Tuple) else [sl]
            if n == "kernel_values" and ast.unparse(sl) == "trial_index":
                return (var("Gre"), var("Gim"))
            if n == "tmp2" and ast.unparse(sl) == "trial_index":
                return (var("qr"), var("qi"))
            if n == self.vec_name and len(els) == 2 and ast.unparse(els[1]) == "trial_index":
                if ast.unparse(els[0]) == ":":
                    return [(var("v%dr" % i), var("v%di" % i)) for i in range(3)]
                i = self.idx(els[0])
                return (var("v%dr" % i), var("v%di" % i))
            if n == "diff" and self.has_dist and len(els) == 2 and ast.unparse(els[1]) == "trial_index":
                return _real(self.d[self.idx(els[0])])
            if n == "test_point" and len(els) == 1:
                return _real(var("x%d" % self.idx(els[0])))
            if n in self.locals and isinstance(self.locals[n], list) and len(els) == 1:
                return self.locals[n][self.idx(els[0])]
            self.fail(e, "subscript %s" % ast.unparse(e))
        if isinstance(e, ast.UnaryOp) and isinstance(e.op, ast.USub):
            v = self.ev(e.operand)
            if isinstance(v, list):
                self.fail(e, "negated vector")
            return (["neg", v[0]], ["neg", v[1]])
        if isinstance(e, ast.BinOp):
            a, b = self.ev(e.left), self.ev(e.right)
            op = {ast.Add: _cadd, ast.Sub: _csub, ast.Mult: _cmul, ast.Div: _cdiv}.get(type(e.op))
            if op is None:
                self.fail(e, "operator")
            if isinstance(a, list) and isinstance(b, list):
                self.fail(e, "vector-vector operation")
            if isinstance(a, list):
                return [op(c, b) for c in a]
            if isinstance(b, list):
                if op is _cdiv:
                    self.fail(e, "division by a vector")
                return [op(a, c) for c in b]
            return op(a, b)
        self.fail(e, "expression %s" % type(e).__name__)


def _maxwell_one(rel, fn):
    """-> list of 3 (re, im) IR pairs: the integrand components"""
    if [a.arg for a in fn.args.args][10:12] != ["kernel_function", "kernel_parameters"]:
        raise TieBroken("%s:%d: %s signature" % (rel, fn.lineno, fn.name))
    body = [s for s in fn.body if not (isinstance(s, ast.Expr) and isinstance(s.value, ast.Constant))]
    if not any(ast.unparse(s) == "wavenumber = kernel_parameters[0] + 1j * kernel_parameters[1]" for s in body):
        raise TieBroken("%s:%d: %s does not define wavenumber = k[0] + 1j*k[1]" % (rel, fn.lineno, fn.name))
    loops = [s for s in body if isinstance(s, ast.For) and ast.unparse(s.iter) == "_numba.prange(number_of_points)"]
    if len(loops) != 1 or ast.unparse(loops[0].target) != "point_index":
        raise TieBroken("%s:%d: %s: evaluation-point loop not found" % (rel, fn.lineno, fn.name))
    stm = list(loops[0].body)
    txt = [ast.unparse(s) for s in stm]
    want = ["test_point = points[:, point_index].copy()",
            "kernel_values = kernel_function(test_point, global_points, None, None, kernel_parameters)"]
    if txt[:2] != want:
        raise TieBroken("%s:%d: %s: loop prologue changed" % (rel, loops[0].lineno, fn.name))
    stm, txt = stm[2:], txt[2:]
    dist_block = ["diff = test_point.reshape(3, 1) - global_points",
                  "dist = _np.zeros(number_of_quad_points * n_support_elements, dtype=dtype)",
                  "for dim in range(3):\n    for index in range(number_of_quad_points * n_support_elements):\n"
                  "        dist[index] += diff[dim, index] * diff[dim, index]",
                  "dist = _np.sqrt(dist)"]
    has_dist = txt[:4] == dist_block
    if has_dist:
        stm, txt = stm[4:], txt[4:]
    if len(stm) != 1 or not isinstance(stm[0], ast.For):
        raise TieBroken("%s:%d: %s: unexpected statements in the evaluation-point loop" % (rel, loops[0].lineno, fn.name))
    outer = stm[0]
    trial_range = "range(number_of_quad_points * n_support_elements)"
    vec_name = "tmp1" if any("tmp1 = _np.zeros" in ast.unparse(s) for s in body) else "tmp"
    comps = [None, None, None]
    if ast.unparse(outer.iter) == "range(kernel_dimension)" and ast.unparse(outer.target) == "dim":
        ob = outer.body
        if len(ob) != 3 or ast.unparse(ob[0]) != "point_result = 0" or \
                ast.unparse(ob[2]) != "result[dim, point_index] = point_result" or not isinstance(ob[1], ast.For) or \
                ast.unparse(ob[1].iter) != trial_range or ast.unparse(ob[1].target) != "trial_index":
            raise TieBroken("%s:%d: %s: component loop form" % (rel, outer.lineno, fn.name))
        inner = list(ob[1].body)
        if has_dist and ast.unparse(inner[0]) == "ldist = dist[trial_index]":
            inner = inner[1:]
        if len(inner) != 1 or not (isinstance(inner[0], ast.AugAssign) and isinstance(inner[0].op, ast.Add) and
                                   ast.unparse(inner[0].target) == "point_result"):
            raise TieBroken("%s:%d: %s: accumulation statement form" % (rel, ob[1].lineno, fn.name))
        for dim in range(3):
            cx = _CExpr(rel, fn.name, has_dist, vec_name, dim)
            comps[dim] = cx.ev(inner[0].value)
        src_exprs = [(inner[0].value, dim) for dim in range(3)]
    elif ast.unparse(outer.iter) == trial_range and ast.unparse(outer.target) == "trial_index":
        inner = list(outer.body)
        if has_dist and ast.unparse(inner[0]) == "ldist = dist[trial_index]":
            inner = inner[1:]
        cx = _CExpr(rel, fn.name, has_dist, vec_name, None)
        if not (len(inner) == 4 and isinstance(inner[0], ast.Assign) and ast.unparse(inner[0].targets[0]) == "val"):
            raise TieBroken("%s:%d: %s: expected val = ... and three cross-product lines" % (rel, outer.lineno, fn.name))
        cx.locals["val"] = cx.ev(inner[0].value)
        if not isinstance(cx.locals["val"], list):
            raise TieBroken("%s:%d: %s: val is not a vector" % (rel, outer.lineno, fn.name))
        for s in inner[1:]:
            if not (isinstance(s, ast.AugAssign) and isinstance(s.op, ast.Add) and isinstance(s.target, ast.Subscript) and
                    ast.unparse(s.target.value) == "result"):
                raise TieBroken("%s:%d: %s: cross-product line form" % (rel, s.lineno, fn.name))
            els = s.target.slice.elts
            if ast.unparse(els[1]) != "point_index" or not isinstance(els[0], ast.Constant) or comps[els[0].value] is not None:
                raise TieBroken("%s:%d: %s: result index" % (rel, s.lineno, fn.name))
            comps[els[0].value] = cx.ev(s.value)
        src_exprs = None
    else:
        raise TieBroken("%s:%d: %s: loop structure" % (rel, outer.lineno, fn.name))
    if any(c is None or isinstance(c, list) for c in comps):
        raise TieBroken("%s:%d: %s: not all three components produced" % (rel, fn.lineno, fn.name))
    # self-check of the complex arithmetic: evaluate the source expression with Python complex numbers
    if src_exprs is not None:
        import cmath
        import random
        rnd = random.Random(7)
        for node, dim in src_exprs:
            vals = {k: rnd.uniform(-1, 1) for k in MARGS}
            dvec = [vals["x%d" % i] - vals["y%d" % i] for i in range(3)]
            env = {"kernel_values": {0: complex(vals["Gre"], vals["Gim"])}, "trial_index": 0, "dim": dim,
                   "wavenumber": complex(vals["p0"], vals["p1"]), "ldist": sum(c * c for c in dvec) ** 0.5,
                   "tmp2": {0: complex(vals["qr"], vals["qi"])},
                   vec_name: {(i, 0): complex(vals["v%dr" % i], vals["v%di" % i]) for i in range(3)},
                   "diff": {(i, 0): dvec[i] for i in range(3)}, "test_point": {i: vals["x%d" % i] for i in range(3)}}
            want_v = eval(compile(ast.Expression(node), "<integrand>", "eval"), {"__builtins__": {}}, env)
            got = complex(_ir_eval(comps[dim][0], vals), _ir_eval(comps[dim][1], vals))
            if abs(want_v - got) > 1e-12 * (1 + abs(want_v)):
                raise TieBroken("%s:%d: %s: complex translation self-check failed" % (rel, node.lineno, fn.name))
    return comps


def _ir_eval(e, env):
    import math
    k = e[0]
    if k == "var":
        return env[e[1]]
    if k == "num":
        return e[1] / e[2]
    if k == "neg":
        return -_ir_eval(e[1], env)
    if k == "fn":
        return getattr(math, e[1])(_ir_eval(e[2], env))
    a, b = _ir_eval(e[1], env), _ir_eval(e[2], env)
    return {"add": a + b, "sub": a - b, "mul": a * b, "div": a / b if k == "div" else 0}[k]


def maxwell_integrands(ctx):
    """Emit gen/MaxwellIntegrands.v: for the four Maxwell potential / far-field assemblers the contribution of one
    quadrature point to one evaluation point as a function of x (evaluation point), y (quadrature point), the kernel
    value G, the accumulated vector density v (tmp1/tmp), the accumulated divergence density q (tmp2) and k = p0 + i p1."""
    path, tree, funcs = _parse(ctx, NUMBA_SRC)
    out = ["(* generated by translators/py_kernels.py (maxwell_integrands) from %s -- do not edit *)" % NUMBA_SRC,
           "From Coq Require Import Reals.", "Open Scope R_scope.", ""]
    res = {}
    for name in MAXWELL_FUNCS:
        if name not in funcs:
            raise TieBroken("%s: %s not found" % (NUMBA_SRC, name))
        comps = _maxwell_one(NUMBA_SRC, funcs[name])
        res[name] = comps
        out.append("(* %s:%d *)" % (NUMBA_SRC, funcs[name].lineno))
        for c, (r, i) in enumerate(comps):
            out.append(_defn("%s_integrand_%d_re" % (name, c), MARGS, r))
            out.append(_defn("%s_integrand_%d_im" % (name, c), MARGS, i))
        out.append("")
    tabs, modes = selection_tables(ctx)
    pot = tabs.get("assembly_function_potential", {})
    want = {"maxwell_electric_field": "maxwell_efield_potential", "maxwell_magnetic_field": "maxwell_mfield_potential",
            "maxwell_electric_far_field": "maxwell_efield_far_field", "maxwell_magnetic_far_field": "maxwell_mfield_far_field"}
    for k, v in want.items():
        if pot.get(k) != v:
            raise TieBroken("%s: assembly_function_potential[%s] is %s" % (NUMBA_SRC, k, pot.get(k)))
    ctx.write_gen("MaxwellIntegrands.v", "\n".join(out) + "\n")
    return res


# ---------------------------------------------------------------------------------------------------------------
# hypersingular assemblers: coefficient structure  G * (curl_product + M * phi_test * phi_trial * (n_test . n_trial))

HYP_FUNCS = ["laplace_hypersingular_regular", "helmholtz_hypersingular_regular", "modified_helmholtz_hypersingular_regular",
             "laplace_hypersingular_singular", "helmholtz_hypersingular_singular", "modified_helmholtz_hypersingular_singular"]


def _factors(e):
    if isinstance(e, ast.BinOp) and isinstance(e.op, ast.Mult):
        return _factors(e.left) + _factors(e.right)
    return [e]


def _base_name(e):
    while isinstance(e, ast.Subscript):
        e = e.value
    return e.id if isinstance(e, ast.Name) else None


def _hyp_one(rel, fn):
    """-> (re, im) IR of the mass coefficient M(p0, p1) of one hypersingular assembler"""
    where = "%s:%d (%s)" % (rel, fn.lineno, fn.name)
    params = [a.arg for a in fn.args.args]
    if "kernel_evaluator" not in params or "kernel_parameters" not in params:
        raise TieBroken(where + ": signature")
    assigns = {}
    for n in ast.walk(fn):
        if isinstance(n, ast.Assign) and len(n.targets) == 1 and isinstance(n.targets[0], ast.Name):
            assigns.setdefault(n.targets[0].id, []).append(n)

    def cval(e, depth=0):
        """complex value of a coefficient expression over kernel_parameters"""
        if isinstance(e, ast.Constant):
            if isinstance(e.value, complex) and e.value == 1j:
                return (num(0), num(1))
            if isinstance(e.value, (int, float)) and not isinstance(e.value, bool):
                return _real(num(e.value))
        if isinstance(e, ast.Subscript) and ast.unparse(e) in ("kernel_parameters[0]", "kernel_parameters[1]"):
            return _real(var("p%s" % ast.unparse(e.slice)))
        if isinstance(e, ast.Name) and depth < 3:
            defs = assigns.get(e.id, [])
            if len(defs) != 1:
                raise TieBroken(where + ": coefficient name %s has %d definitions" % (e.id, len(defs)))
            return cval(defs[0].value, depth + 1)
        if isinstance(e, ast.UnaryOp) and isinstance(e.op, ast.USub):
            v = cval(e.operand, depth)
            return (["neg", v[0]], ["neg", v[1]])
        if isinstance(e, ast.BinOp):
            op = {ast.Add: _cadd, ast.Sub: _csub, ast.Mult: _cmul}.get(type(e.op))
            if op is not None:
                return op(cval(e.left, depth), cval(e.right, depth))
            if isinstance(e.op, ast.Pow) and isinstance(e.right, ast.Constant) and e.right.value == 2:
                v = cval(e.left, depth)
                return _cmul(v, v)
        raise TieBroken(where + ": coefficient expression %s not recognised" % ast.unparse(e)[:60])

    accum = [n for n in ast.walk(fn) if isinstance(n, ast.AugAssign) and isinstance(n.op, ast.Add) and
             _base_name(n.target) in ("local_result", "result") and
             any(_base_name(f) in ("tmp", "kernel_values") for f in _factors(n.value))]
    if len(accum) != 1:
        raise TieBroken(where + ": expected exactly one integrand accumulation, found %d" % len(accum))
    facs = _factors(accum[0].value)
    brackets = [f for f in facs if isinstance(f, ast.BinOp) and isinstance(f.op, (ast.Add, ast.Sub))]
    weights_ok = {"tmp", "kernel_values", "quad_weights"}
    if "tmp" in [_base_name(f) for f in facs]:
        tdef = [n for n in ast.walk(fn) if isinstance(n, ast.Assign) and _base_name(n.targets[0]) == "tmp" and
                isinstance(n.targets[0], ast.Subscript)]
        if len(tdef) != 1 or "kernel_values" not in [_base_name(f) for f in _factors(tdef[0].value)
                                                      for f in ([f] if not isinstance(f, ast.BinOp) else _factors(f))]:
            raise TieBroken(where + ": tmp[...] is not kernel_values[...] times weights")
    src = ast.unparse(fn)
    if not brackets:
        # Laplace: kernel value times curl product only (the curl factor may be applied by a later '*=')
        others = [f for f in facs if _base_name(f) not in weights_ok]
        if any("curl" not in (_base_name(f) or "") for f in others) or "curl_product" not in src or "normal_prod" in src:
            raise TieBroken(where + ": integrand without a bracket is not kernel * curl_product")
        return (num(0), num(0))
    if len(brackets) != 1 or any(_base_name(f) not in weights_ok for f in facs if f is not brackets[0]):
        raise TieBroken(where + ": integrand factors not recognised")
    br = brackets[0]
    if "curl" not in (_base_name(br.left) or ""):
        raise TieBroken(where + ": bracket does not start with the curl product")
    mfacs = _factors(br.right)
    names = [_base_name(f) or "" for f in mfacs]
    n_test = sum(1 for n in names if n.endswith("test_fun_values"))
    n_trial = sum(1 for n in names if n.endswith("trial_fun_values"))
    n_norm = sum(1 for n in names if n in ("normal_prod", "normal_product"))
    if (n_test, n_trial, n_norm) != (1, 1, 1):
        raise TieBroken(where + ": mass term is not coefficient * test values * trial values * normal product")
    coef = [f for f, n in zip(mfacs, names) if not (n.endswith("test_fun_values") or n.endswith("trial_fun_values") or
                                                      n in ("normal_prod", "normal_product"))]
    if not coef:
        c = _real(num(1))
    else:
        c = cval(coef[0])
        for f in coef[1:]:
            c = _cmul(c, cval(f))
    if isinstance(br.op, ast.Sub):
        c = (["neg", c[0]], ["neg", c[1]])
    return c


def hypersingular_coefficients(ctx):
    """Emit gen/Hypersingular.v: the complex factor M(k) of the normal-product (mass) term of the six hypersingular
    assemblers, integrand = G(x,y) * (curl_test . curl_trial + M * phi_test * phi_trial * n_test . n_trial), and the
    assembly_type -> function tables of select_numba_kernels."""
    path, tree, funcs = _parse(ctx, NUMBA_SRC)
    tabs, _modes = selection_tables(ctx)
    out = ["(* generated by translators/py_kernels.py (hypersingular_coefficients) from %s -- do not edit *)" % NUMBA_SRC,
           "From Coq Require Import Reals String List.", "Import ListNotations.", "Open Scope R_scope.", ""]
    res = {}
    for name in HYP_FUNCS:
        if name not in funcs:
            raise TieBroken("%s: %s not found" % (NUMBA_SRC, name))
        c = _hyp_one(NUMBA_SRC, funcs[name])
        for e in c:
            extra = kexpr.free_vars(e) - {"p0", "p1"}
            if extra:
                raise TieBroken("%s: %s coefficient has free symbols %s" % (NUMBA_SRC, name, sorted(extra)))
        res[name] = c
        out.append("(* %s:%d *)" % (NUMBA_SRC, funcs[name].lineno))
        out.append("Definition hyp_mass_%s (p0 p1 : R) : R * R :=\n  (%s,\n   %s)." % (name, kexpr.coq(c[0]), kexpr.coq(c[1])))
    out.append("")
    out.append("Definition hyp_mass (name : string) : option (R -> R -> R * R) :=")
    for name in HYP_FUNCS:
        out.append('  if String.eqb name "%s"%%string then Some hyp_mass_%s else' % (name, name))
    out.append("  None.")
    for tab in ("assembly_functions_regular", "assembly_functions_singular"):
        if tab not in tabs:
            raise TieBroken("%s: table %s not found" % (NUMBA_SRC, tab))
        out.append("Definition numba_%s : list (string * string) :=\n  [%s]." % (
            tab, ";\n   ".join('("%s"%%string, "%s"%%string)' % kv for kv in tabs[tab].items())))
    ctx.write_gen("Hypersingular.v", "\n".join(out) + "\n")
    return {k: list(v) for k, v in res.items()}
