"""Translator: scalar operator factories -> gen/Dispatch.v (finite table; fail closed).

Reads (current /repo tree)
  bempp_cl/api/operators/boundary/{laplace,helmholtz,modified_helmholtz}.py     single_layer double_layer
                                                                                adjoint_double_layer hypersingular
  bempp_cl/api/operators/potential/{laplace,helmholtz,modified_helmholtz}.py    single_layer double_layer
  bempp_cl/api/operators/far_field/helmholtz.py                                 single_layer double_layer
and records for each factory: the wavenumber parameter, the redirect taken when `_np.real(k) == 0` (callee and the
expression passed as its wavenumber), the `imag != 0 -> ValueError` guard, and the operator descriptor (identifier,
option expressions, kernel type, assembly type, complex flag).
"""
import ast

from lib.vlib import TieBroken

OPS = "bempp_cl/api/operators/"
MODULES = [
    ("boundary", "laplace", ["single_layer", "double_layer", "adjoint_double_layer", "hypersingular"]),
    ("boundary", "helmholtz", ["single_layer", "double_layer", "adjoint_double_layer", "hypersingular"]),
    ("boundary", "modified_helmholtz", ["single_layer", "double_layer", "adjoint_double_layer", "hypersingular"]),
    ("potential", "laplace", ["single_layer", "double_layer"]),
    ("potential", "helmholtz", ["single_layer", "double_layer"]),
    ("potential", "modified_helmholtz", ["single_layer", "double_layer"]),
    ("far_field", "helmholtz", ["single_layer", "double_layer"]),
]
WNAMES = ("wavenumber", "omega")


def _wexpr(e, param, where):
    txt = ast.unparse(e)
    if param is not None:
        if txt == param:
            return "WSame"
        if txt == "_np.real(%s)" % param:
            return "WReal"
        if txt == "_np.imag(%s)" % param:
            return "WImag"
    raise TieBroken("%s: wavenumber expression %s not recognised" % (where, txt))


def _descriptor(args, param, where):
    """args of OperatorDescriptor / create_operator in canonical order -> dict"""
    ident, options, ktype, atype, cplx = args
    for a, nm in ((ident, "identifier"), (ktype, "kernel type"), (atype, "assembly type")):
        if not (isinstance(a, ast.Constant) and isinstance(a.value, str)):
            raise TieBroken("%s: %s is not a string literal" % (where, nm))
    if not isinstance(options, ast.List):
        raise TieBroken("%s: options are not a list literal" % where)
    if not (isinstance(cplx, ast.Constant) and isinstance(cplx.value, bool)):
        raise TieBroken("%s: is_complex is not a boolean literal" % where)
    return {"identifier": ident.value, "options": [_wexpr(o, param, where) for o in options.elts],
            "kernel_type": ktype.value, "assembly_type": atype.value, "is_complex": cplx.value}


def _factory(rel, pkg, mod, fn, modfuncs):
    where = "%s:%d (%s)" % (rel, fn.lineno, fn.name)
    params = [a.arg for a in fn.args.args]
    wp = [p for p in params if p in WNAMES]
    if len(wp) > 1:
        raise TieBroken(where + ": more than one wavenumber parameter")
    param = wp[0] if wp else None
    out = {"package": pkg, "module": mod, "name": fn.name, "param": param, "redirect": None,
           "requires_real": False, "other_guards": 0, "line": fn.lineno, "alters_points": False}
    alias = {}
    desc = None
    body = list(fn.body)
    for s in body:
        txt = ast.unparse(s)
        if isinstance(s, ast.Expr) and isinstance(s.value, ast.Constant) and isinstance(s.value.value, str):
            continue
        if isinstance(s, ast.Import):
            continue
        # the factory rewrites its evaluation points before handing them on: recorded as a fact (theorem: no factory does)
        if isinstance(s, ast.Assign) and len(s.targets) == 1 and isinstance(s.targets[0], ast.Name) and \
                s.targets[0].id == "points":
            out["alters_points"] = True
            continue
        if isinstance(s, ast.If) and s.body and all(
                isinstance(b, ast.Assign) and len(b.targets) == 1 and isinstance(b.targets[0], ast.Name) and
                b.targets[0].id == "points" for b in list(s.body) + list(s.orelse)):
            out["alters_points"] = True
            continue
        if isinstance(s, ast.ImportFrom):
            for a in s.names:
                alias[a.asname or a.name] = ((s.module or "").split(".")[-1], a.name, s.level)
            continue
        if isinstance(s, ast.If) and not s.orelse and len(s.body) == 1:
            t, b = ast.unparse(s.test), s.body[0]
            if isinstance(b, ast.Raise):
                if ast.unparse(b.exc).startswith("ValueError("):
                    if param is not None and t == "_np.imag(%s) != 0" % param:
                        out["requires_real"] = True
                    elif "shapeset.identifier" in t and (param is None or param not in t):
                        out["other_guards"] += 1
                    else:
                        raise TieBroken(where + ": guard %s not recognised" % t)
                    continue
                raise TieBroken(where + ": raise of something other than ValueError")
            if t == "precision is None" and txt.endswith("precision = bempp_cl.api.DEFAULT_PRECISION"):
                continue
            if isinstance(b, ast.Return) and param is not None and t == "_np.real(%s) == 0" % param:
                call = b.value
                if not (isinstance(call, ast.Call) and isinstance(call.func, ast.Name) and not call.keywords):
                    raise TieBroken(where + ": redirect is not a plain positional call")
                if call.func.id not in alias:
                    raise TieBroken(where + ": redirect callee %s is not a function-local import" % call.func.id)
                cmod, cname, level = alias[call.func.id]
                if level != 1:
                    raise TieBroken(where + ": redirect callee is not imported from a sibling module")
                callee = modfuncs.get((pkg, cmod), {}).get(cname)
                if callee is None:
                    raise TieBroken(where + ": redirect callee %s.%s.%s not among the translated factories" % (pkg, cmod, cname))
                cparams = [a.arg for a in callee.args.args]
                if len(call.args) != len(cparams):
                    raise TieBroken(where + ": redirect passes %d arguments, callee takes %d" % (len(call.args), len(cparams)))
                warg = None
                for a, cp in zip(call.args, cparams):
                    if cp in WNAMES:
                        warg = _wexpr(a, param, where)
                    elif not (isinstance(a, ast.Name) and a.id == cp and a.id in params):
                        raise TieBroken(where + ": redirect argument for %s is %s" % (cp, ast.unparse(a)))
                if warg is None:
                    raise TieBroken(where + ": redirect callee has no wavenumber parameter")
                if out["redirect"] is not None or desc is not None:
                    raise TieBroken(where + ": redirect in an unexpected position")
                out["redirect"] = {"module": cmod, "name": cname, "arg": warg, "after_requires_real": out["requires_real"]}
                continue
            raise TieBroken(where + ": conditional %s not recognised" % t)
        if isinstance(s, ast.Assign) and txt.startswith("operator_descriptor = OperatorDescriptor(") and desc is None:
            a = s.value.args
            if len(a) != 8 or s.value.keywords or ast.unparse(a[4]) != "precision" or ast.unparse(a[6]) != "None" or \
                    ast.unparse(a[7]) != "1":
                raise TieBroken(where + ": OperatorDescriptor argument list")
            desc = _descriptor([a[0], a[1], a[2], a[3], a[5]], param, where)
            continue
        if isinstance(s, ast.Return):
            v = s.value
            vt = ast.unparse(v)
            if desc is not None:
                if vt != ("PotentialOperator(PotentialAssembler(space, points, operator_descriptor, device_interface, "
                          "assembler, parameters))"):
                    raise TieBroken(where + ": potential return form")
            else:
                if not (isinstance(v, ast.Call) and ast.unparse(v.func) == "_common.create_operator" and
                        len(v.args) == 12 and not v.keywords):
                    raise TieBroken(where + ": return is not _common.create_operator(12 args)")
                a = v.args
                fixed = {1: "domain", 2: "range_", 3: "dual_to_range", 4: "parameters", 5: "assembler",
                         9: "device_interface", 10: "precision"}
                for i, nm in fixed.items():
                    if ast.unparse(a[i]) != nm:
                        raise TieBroken(where + ": create_operator argument %d is %s" % (i, ast.unparse(a[i])))
                desc = _descriptor([a[0], a[6], a[7], a[8], a[11]], param, where)
            if s is not body[-1]:
                raise TieBroken(where + ": statements after the final return")
            continue
        raise TieBroken(where + ": statement not recognised: %s" % txt[:70])
    if desc is None:
        raise TieBroken(where + ": no operator descriptor found")
    out.update(desc)
    return out


def _create_operator_check(ctx):
    """create_operator must forward identifier/options/kernel/assembly/is_complex into OperatorDescriptor unchanged."""
    rel = OPS + "boundary/common.py"
    tree = ast.parse(open(ctx.src(rel)).read())
    fn = [n for n in tree.body if isinstance(n, ast.FunctionDef) and n.name == "create_operator"]
    if not fn:
        raise TieBroken(rel + ": create_operator not found")
    fn = fn[0]
    want = ["identifier", "domain", "range_", "dual_to_range", "parameters", "assembler", "operator_options",
            "kernel_type", "assembly_type", "device_interface", "precision", "is_complex"]
    if [a.arg for a in fn.args.args] != want:
        raise TieBroken("%s:%d: create_operator parameter list changed" % (rel, fn.lineno))
    ok = False
    for n in ast.walk(fn):
        if isinstance(n, ast.Assign) and ast.unparse(n.targets[0]) == "descriptor":
            if ast.unparse(n.value).replace("\n", "").replace(" ", "") == \
                    ("OperatorDescriptor(identifier,operator_options,kernel_type,assembly_type,precision,is_complex,"
                     "singular_part,kernel_dimension)"):
                ok = True
    if not ok:
        raise TieBroken("%s:%d: create_operator does not build OperatorDescriptor(identifier, operator_options, "
                        "kernel_type, assembly_type, precision, is_complex, ...)" % (rel, fn.lineno))


def factories(ctx):
    """Emit gen/Dispatch.v and return the table."""
    _create_operator_check(ctx)
    modfuncs, rels = {}, {}
    for pkg, mod, names in MODULES:
        rel = "%s%s/%s.py" % (OPS, pkg, mod)
        tree = ast.parse(open(ctx.src(rel)).read())
        modfuncs[(pkg, mod)] = {n.name: n for n in tree.body if isinstance(n, ast.FunctionDef)}
        rels[(pkg, mod)] = rel
        for nm in names:
            if nm not in modfuncs[(pkg, mod)]:
                raise TieBroken("%s: factory %s not found" % (rel, nm))
    table = []
    for pkg, mod, names in MODULES:
        for nm in names:
            table.append(_factory(rels[(pkg, mod)], pkg, mod, modfuncs[(pkg, mod)][nm], modfuncs))

    def s(x):
        return '"%s"%%string' % x
    out = ["(* generated by translators/dispatch.py from %s{boundary,potential,far_field}/*.py -- do not edit *)" % OPS,
           "From Coq Require Import String List.", "From BV Require Import Kernels.DispatchModel.",
           "Import ListNotations.", "", "Definition factories : list factory :=", "  ["]
    rows = []
    for f in table:
        red = "None" if f["redirect"] is None else "(Some (%s, %s, %s))" % (
            s(f["redirect"]["module"]), s(f["redirect"]["name"]), f["redirect"]["arg"])
        rows.append("   mkFactory %s %s %s %s %s %s %s [%s] %s %s %s %s" % (
            s(f["package"]), s(f["module"]), s(f["name"]), "true" if f["param"] else "false", red,
            "true" if f["requires_real"] else "false", s(f["identifier"]), "; ".join(f["options"]),
            s(f["kernel_type"]), s(f["assembly_type"]), "true" if f["is_complex"] else "false",
            "true" if f["alters_points"] else "false"))
    out.append(";\n".join(rows))
    out.append("  ].")
    ctx.write_gen("Dispatch.v", "\n".join(out) + "\n")
    return table
