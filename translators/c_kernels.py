"""Translator: the straight-line OpenCL C of kernels.h and the *_shapeset.h headers -> Coq terms over R (fail closed).

Reads (current /repo tree):
  bempp_cl/core/sources/include/bempp_base_types.h   M_* macros of both precisions
  bempp_cl/core/sources/include/kernels.h            -> gen/OpenCLKernels.v
  bempp_cl/core/sources/include/{p0_discontinuous,p1_discontinuous,rwg0,snc0}_shapeset.h -> gen/ShapesetsCL.v
  bempp_cl/core/opencl_kernels.py                    select_cl_kernel / vector-mode tables (kernel names)

A small tokenizer + recursive-descent parser for the subset actually used, then symbolic execution.  Vector types
REALTYPE4/8/16/REALTYPEVEC are treated lane-wise: a value of such a type is one symbolic real (one lane); only
component-wise operations are accepted on them (+ - * / unary-, sqrt rsqrt exp cos sin, mixing with scalars);
component selection, dot/length/distance or any other cross-lane operation on them raises TieBroken.
The macro M_INV_4PI is kept symbolic (first parameter c4 of every generated definition), the literal values of both
precisions are emitted as exact rationals next to it.
"""
import ast
import re
from fractions import Fraction

from lib.vlib import TieBroken
from translators import kexpr
from translators.kexpr import num, var

INC = "bempp_cl/core/sources/include/"
BASE = INC + "bempp_base_types.h"
KERNELS = INC + "kernels.h"
SHAPE_HEADERS = ["p0_discontinuous", "p1_discontinuous", "rwg0", "snc0"]
CLSEL = "bempp_cl/core/opencl_kernels.py"
KARGS = ["x0", "x1", "x2", "y0", "y1", "y2", "nx0", "nx1", "nx2", "ny0", "ny1", "ny2", "p0", "p1"]

LANE_TYPES = {"REALTYPE4": "vec4", "REALTYPE8": "vec8", "REALTYPE16": "vec16", "REALTYPEVEC": "vecN"}
TOK = re.compile(r"\s*(?:(\d+\.\d*(?:[eE][-+]?\d+)?f?|\d+)|([A-Za-z_]\w*)|(->|\+=|\*=|-=|/=|!=|==|[-+*/=(){}\[\];,.&<>!]))")


def _strip_comments(txt):
    txt = re.sub(r"/\*.*?\*/", lambda m: "\n" * m.group(0).count("\n"), txt, flags=re.S)
    return re.sub(r"//[^\n]*", "", txt)


# ---------------------------------------------------------------------------------------------------------------
# macros

def base_macros(ctx):
    """-> {precision: {macro: Fraction}} for M_ZERO, M_ONE, M_TWO, M_4PI, M_INV_4PI ; precision 0 = float, 1 = double"""
    path = ctx.src(BASE)
    txt = _strip_comments(open(path).read())
    out, cur = {}, None
    for ln, line in enumerate(txt.splitlines(), 1):
        s = line.strip()
        m = re.match(r"#if PRECISION == (\d)$", s)
        if m:
            cur = int(m.group(1))
            out[cur] = {}
            continue
        if s.startswith("#endif") or s.startswith("#elif") or s.startswith("#if"):
            cur = None if s.startswith("#endif") and cur is not None else cur
            continue
        m = re.match(r"#define (M_ZERO|M_ONE|M_TWO|M_4PI|M_INV_4PI)\s+(\S+)$", s)
        if m:
            if cur is None:
                raise TieBroken("%s:%d: %s defined outside a PRECISION block" % (BASE, ln, m.group(1)))
            lit = m.group(2)
            mm = re.match(r"^(\d+\.\d*)(f?)$", lit)
            if not mm or (mm.group(2) == "f") != (cur == 0):
                raise TieBroken("%s:%d: literal %s of %s not recognised for precision %d" % (BASE, ln, lit, m.group(1), cur))
            out[cur][m.group(1)] = (Fraction(mm.group(1)), lit)
    for p in (0, 1):
        if p not in out or set(out[p]) != {"M_ZERO", "M_ONE", "M_TWO", "M_4PI", "M_INV_4PI"}:
            raise TieBroken("%s: macros of precision %d incomplete" % (BASE, p))
        for nm, v in (("M_ZERO", 0), ("M_ONE", 1), ("M_TWO", 2)):
            if out[p][nm][0] != v:
                raise TieBroken("%s: %s is not %d for precision %d" % (BASE, nm, v, p))
    # typedefs REALTYPE / REALTYPEn
    for p, ty in ((0, "float"), (1, "double")):
        for n in ("", "2", "3", "4", "8", "16"):
            if not re.search(r"typedef %s%s REALTYPE%s;" % (ty, n, n), txt):
                raise TieBroken("%s: typedef %s%s REALTYPE%s missing" % (BASE, ty, n, n))
    for n in ("4", "8", "16"):
        if not re.search(r"#define REALTYPEVEC REALTYPE%s\b" % n, txt):
            raise TieBroken("%s: REALTYPEVEC for VEC_LENGTH %s missing" % (BASE, n))
    return out


# ---------------------------------------------------------------------------------------------------------------
# parser

class _P:
    def __init__(self, rel, txt):
        self.rel = rel
        self.toks = []
        pos, line = 0, 1
        txt = txt.rstrip()
        while pos < len(txt):
            m = TOK.match(txt, pos)
            if not m:
                raise TieBroken("%s:%d: cannot tokenize near %r" % (rel, line, txt[pos:pos + 20]))
            line += txt[pos:m.end()].count("\n")
            kind = "num" if m.group(1) else "id" if m.group(2) else "op"
            self.toks.append((kind, m.group(m.lastindex), line))
            pos = m.end()
        self.i = 0

    def fail(self, msg):
        ln = self.toks[min(self.i, len(self.toks) - 1)][2]
        raise TieBroken("%s:%d: %s" % (self.rel, ln, msg))

    def peek(self, k=0):
        return self.toks[self.i + k][:2] if self.i + k < len(self.toks) else ("eof", "")

    def line(self):
        return self.toks[min(self.i, len(self.toks) - 1)][2]

    def eat(self, val=None, kind=None):
        t = self.peek()
        if (val is not None and t[1] != val) or (kind is not None and t[0] != kind):
            self.fail("expected %s, found %r" % (val or kind, t[1]))
        self.i += 1
        return t[1]

    # expressions ------------------------------------------------------------
    def expr(self):
        e = self.term()
        while self.peek()[1] in ("+", "-"):
            op = self.eat()
            e = ("bin", op, e, self.term())
        return e

    def term(self):
        e = self.unary()
        while self.peek()[1] in ("*", "/"):
            op = self.eat()
            e = ("bin", op, e, self.unary())
        return e

    def unary(self):
        if self.peek()[1] == "-":
            self.eat()
            return ("neg", self.unary())
        if self.peek()[1] == "*":
            self.eat()
            return ("deref", self.unary())
        return self.postfix()

    def postfix(self):
        t = self.peek()
        if t[0] == "num":
            self.eat()
            return ("num", t[1])
        if t[1] == "(":
            self.eat("(")
            e = self.expr()
            self.eat(")")
        elif t[0] == "id":
            name = self.eat()
            if self.peek()[1] == "(":
                self.eat("(")
                args = []
                if self.peek()[1] != ")":
                    args.append(self.expr())
                    while self.peek()[1] == ",":
                        self.eat(",")
                        args.append(self.expr())
                self.eat(")")
                e = ("call", name, args)
            else:
                e = ("id", name)
        else:
            self.fail("unexpected token %r in expression" % (t[1],))
        while True:
            v = self.peek()[1]
            if v == "[":
                self.eat("[")
                ix = self.expr()
                self.eat("]")
                e = ("idx", e, ix)
            elif v == ".":
                self.eat(".")
                e = ("mem", e, self.eat(kind="id"))
            elif v == "->":
                self.eat("->")
                e = ("mem", ("deref", e), self.eat(kind="id"))
            else:
                return e

    # statements -------------------------------------------------------------
    def block(self):
        self.eat("{")
        out = []
        while self.peek()[1] != "}":
            out.append(self.stmt())
        self.eat("}")
        return out

    def stmt(self):
        ln = self.line()
        t = self.peek()
        if t[1] == "if":
            self.eat()
            self.eat("(")
            lhs = self.expr()
            op = self.eat()
            if op not in ("!=", "=="):
                self.fail("condition operator %s" % op)
            rhs = self.expr()
            self.eat(")")
            body = self.block()
            if self.peek()[1] == "else":
                self.fail("else branch")
            return ("if", ln, op, lhs, rhs, body)
        if t[0] == "id" and (t[1] in ("REALTYPE", "REALTYPE2", "REALTYPE3") or t[1] in LANE_TYPES) and \
                self.peek(1)[0] == "id":
            ty = self.eat()
            name = self.eat(kind="id")
            dims = []
            while self.peek()[1] == "[":
                self.eat("[")
                dims.append(int(self.eat(kind="num")))
                self.eat("]")
            init = None
            if self.peek()[1] == "=":
                self.eat("=")
                init = self.expr()
            self.eat(";")
            return ("decl", ln, ty, name, dims, init)
        e = self.unary()
        v = self.peek()[1]
        if v in ("=", "+=", "*=", "-="):
            self.eat()
            rhs = self.expr()
            self.eat(";")
            return ("assign", ln, v, e, rhs)
        if e[0] == "call" and v == ";":
            self.eat(";")
            return ("callstmt", ln, e)
        self.fail("statement form")

    def function(self):
        ln = self.line()
        self.eat("inline")
        self.eat("void")
        name = self.eat(kind="id")
        self.eat("(")
        params = []
        while True:
            quals = []
            while self.peek()[1] in ("const", "__global"):
                quals.append(self.eat())
            ty = self.eat(kind="id")
            ptr = False
            if self.peek()[1] == "*":
                self.eat("*")
                ptr = True
            pname = self.eat(kind="id")
            dims = []
            while self.peek()[1] == "[":
                self.eat("[")
                dims.append(int(self.eat(kind="num")))
                self.eat("]")
            params.append({"name": pname, "type": ty, "ptr": ptr, "dims": dims, "quals": quals})
            if self.peek()[1] == ",":
                self.eat(",")
                continue
            break
        self.eat(")")
        body = self.block()
        return {"name": name, "params": params, "body": body, "line": ln}


ALLOWED_PP = re.compile(
    r"#(ifndef bempp_\w+_h|define bempp_\w+_h|include \"bempp_base_types\.h\"|endif|ifdef REALTYPEVEC|"
    r"ifdef KERNEL_FUNCTION|define EVALUATOR\(x, y\) CAT\(x, _ ## y\)|"
    r"define KERNEL\(modus\) EVALUATOR\(KERNEL_FUNCTION, modus\)|"
    r"define KERNEL_EXPLICIT\(kernel_name, modus\) EVALUATOR\(kernel_name, modus\))\s*$")


def parse_header(ctx, rel):
    path = ctx.src(rel)
    txt = _strip_comments(open(path).read())
    lines = []
    for ln, line in enumerate(txt.splitlines(), 1):
        if line.lstrip().startswith("#"):
            if not ALLOWED_PP.match(line.strip()):
                raise TieBroken("%s:%d: preprocessor line outside the recognised set: %s" % (rel, ln, line.strip()[:60]))
            lines.append("")
        else:
            lines.append(line)
    p = _P(rel, "\n".join(lines))
    funcs = {}
    while p.peek()[0] != "eof":
        f = p.function()
        if f["name"] in funcs:
            raise TieBroken("%s:%d: function %s defined twice" % (rel, f["line"], f["name"]))
        funcs[f["name"]] = f
    return funcs


# ---------------------------------------------------------------------------------------------------------------
# symbolic execution.  Values: ("s", ir) scalar | ("l", ir) one lane of a vector type | ("v3", [ir, ir, ir]) |
# ("arr", [values]) | ("params",)  kernel_parameters

class _X:
    def __init__(self, rel, funcs):
        self.rel, self.funcs = rel, funcs

    def fail(self, ln, msg):
        raise TieBroken("%s:%d: %s" % (self.rel, ln, msg))

    def const_int(self, e, ln):
        if e[0] == "num" and re.match(r"^\d+$", e[1]):
            return int(e[1])
        if e[0] == "bin" and e[1] in ("+", "*"):
            a, b = self.const_int(e[2], ln), self.const_int(e[3], ln)
            return a + b if e[1] == "+" else a * b
        self.fail(ln, "array index is not an integer constant expression")

    def lit(self, text, ln):
        m = re.match(r"^(\d+)$", text)
        if m:
            return ("s", num(int(text)))
        self.fail(ln, "floating literal %s inside a function body (only M_* macros are recognised)" % text)

    def ev(self, e, env, ln):
        k = e[0]
        if k == "num":
            return self.lit(e[1], ln)
        if k == "id":
            n = e[1]
            if n in env:
                v = env[n]
                if v is None:
                    self.fail(ln, "%s read before it is written" % n)
                return v
            if n == "M_INV_4PI":
                return ("s", var("c4"))
            if n == "M_ONE":
                return ("s", num(1))
            if n == "M_ZERO":
                return ("s", num(0))
            if n == "M_TWO":
                return ("s", num(2))
            self.fail(ln, "unknown identifier %s" % n)
        if k == "neg":
            v = self.ev(e[1], env, ln)
            if v[0] in ("s", "l"):
                return (v[0], ["neg", v[1]])
            if v[0] == "v3":
                return ("v3", [["neg", c] for c in v[1]])
            self.fail(ln, "negation of a non-numeric value")
        if k == "deref":
            v = self.ev(e[1], env, ln)
            if v[0] == "ptr":
                return v[1]
            if v[0] == "arr":
                return self.elem(v, 0, ln)
            self.fail(ln, "dereference of a non-pointer")
        if k == "bin":
            a, b = self.ev(e[2], env, ln), self.ev(e[3], env, ln)
            op = {"+": "add", "-": "sub", "*": "mul", "/": "div"}[e[1]]
            if a[0] in ("s", "l") and b[0] in ("s", "l"):
                return ("l" if "l" in (a[0], b[0]) else "s", [op, a[1], b[1]])
            if a[0] == "v3" and b[0] == "v3" and op in ("add", "sub"):
                return ("v3", [[op, x, y] for x, y in zip(a[1], b[1])])
            self.fail(ln, "operator %s on operands of kinds %s, %s" % (e[1], a[0], b[0]))
        if k == "idx":
            base = self.ev(e[1], env, ln)
            i = self.const_int(e[2], ln)
            if base[0] == "params":
                if i not in (0, 1):
                    self.fail(ln, "kernel_parameters[%d]" % i)
                return ("s", var("p%d" % i))
            if base[0] == "arr":
                return self.elem(base, i, ln)
            self.fail(ln, "subscript of a non-array (kind %s)" % base[0])
        if k == "mem":
            base = self.ev(e[1], env, ln)
            if base[0] == "v3" and e[2] in ("x", "y", "z"):
                return ("s", base[1]["xyz".index(e[2])])
            if base[0] == "v2" and e[2] in ("x", "y"):
                return ("s", base[1]["xy".index(e[2])])
            self.fail(ln, "component .%s of a value of kind %s (cross-lane access is not modelled)" % (e[2], base[0]))
        if k == "call":
            name, args = e[1], [self.ev(a, env, ln) for a in e[2]]
            kinds = [a[0] for a in args]
            if name in ("sqrt", "rsqrt", "exp", "cos", "sin") and len(args) == 1 and kinds[0] in ("s", "l"):
                if name == "rsqrt":
                    return (kinds[0], ["div", num(1), ["fn", "sqrt", args[0][1]]])
                return (kinds[0], ["fn", name, args[0][1]])
            if name == "dot" and kinds == ["v3", "v3"]:
                return ("s", self.dot(args[0][1], args[1][1]))
            if name == "length" and kinds == ["v3"]:
                return ("s", ["fn", "sqrt", self.dot(args[0][1], args[0][1])])
            if name == "distance" and kinds == ["v3", "v3"]:
                d = [["sub", x, y] for x, y in zip(args[0][1], args[1][1])]
                return ("s", ["fn", "sqrt", self.dot(d, d)])
            self.fail(ln, "call %s(%s)" % (name, ", ".join(kinds)))
        self.fail(ln, "expression node %s" % k)

    @staticmethod
    def dot(a, b):
        return ["add", ["add", ["mul", a[0], b[0]], ["mul", a[1], b[1]]], ["mul", a[2], b[2]]]

    def elem(self, arr, i, ln):
        if not (0 <= i < len(arr[1])):
            self.fail(ln, "index %d outside the declared array bound %d" % (i, len(arr[1])))
        v = arr[1][i]
        if v is None:
            self.fail(ln, "array element [%d] read before it is written" % i)
        return v

    def lvalue(self, e, env, ln):
        """-> (container list, index) so that container[index] is the cell."""
        if e[0] == "id":
            if e[1] not in env:
                self.fail(ln, "assignment to undeclared %s" % e[1])
            return env, e[1]
        if e[0] == "deref" and e[1][0] == "id":
            v = env.get(e[1][1])
            if v is not None and v[0] == "arr":
                return v[1], 0
            self.fail(ln, "dereferenced assignment target")
        if e[0] == "idx":
            i = self.const_int(e[2], ln)
            c, k = self.lvalue(e[1], env, ln)
            v = c[k]
            if v is None or v[0] != "arr":
                self.fail(ln, "subscripted assignment to a non-array")
            if not (0 <= i < len(v[1])):
                self.fail(ln, "index %d outside the declared array bound %d" % (i, len(v[1])))
            return v[1], i
        self.fail(ln, "assignment target form")

    def mkarr(self, dims):
        if not dims:
            return None
        return ("arr", [self.mkarr(dims[1:]) for _ in range(dims[0])])

    def kind_of_type(self, ty, ln):
        if ty == "REALTYPE":
            return "s"
        if ty == "REALTYPE3":
            return "v3"
        if ty == "REALTYPE2":
            return "v2"
        if ty in LANE_TYPES:
            return "l"
        self.fail(ln, "type %s" % ty)

    def check_kind(self, v, want, ln, what):
        got = v[0]
        if want == "l" and got == "s":
            return ("l", v[1])      # implicit broadcast of a scalar into every lane
        if got != want:
            self.fail(ln, "%s: value of kind %s assigned to a variable of kind %s" % (what, got, want))
        return v

    def run(self, stmts, env, kinds, depth=0):
        for s in stmts:
            k, ln = s[0], s[1]
            if k == "decl":
                _, _, ty, name, dims, init = s
                if name in env:
                    self.fail(ln, "redeclaration of %s" % name)
                kd = self.kind_of_type(ty, ln)
                kinds[name] = kd
                if dims:
                    if init is not None:
                        self.fail(ln, "array initialiser")
                    env[name] = self.mkarr(dims)
                else:
                    env[name] = None if init is None else self.check_kind(self.ev(init, env, ln), kd, ln, name)
            elif k == "assign":
                _, _, op, lhs, rhs = s
                root = lhs
                while root[0] in ("idx", "deref"):
                    root = root[1]
                kd = kinds.get(root[1]) if root[0] == "id" else None
                if kd is None:
                    self.fail(ln, "assignment to an unknown variable")
                v = self.ev(rhs, env, ln)
                c, i = self.lvalue(lhs, env, ln)
                if op != "=":
                    cur = c[i]
                    if cur is None:
                        self.fail(ln, "compound assignment to an unwritten cell")
                    if cur[0] not in ("s", "l") or v[0] not in ("s", "l"):
                        self.fail(ln, "compound assignment on non-numeric kinds")
                    v = ("l" if "l" in (cur[0], v[0]) else "s", [{"+=": "add", "*=": "mul", "-=": "sub"}[op], cur[1], v[1]])
                c[i] = self.check_kind(v, kd, ln, "assignment")
            elif k == "callstmt":
                name, args = s[2][1], s[2][2]
                f = self.funcs.get(name)
                if f is None or depth > 2:
                    self.fail(ln, "call of unknown function %s" % name)
                if len(args) != len(f["params"]):
                    self.fail(ln, "argument count of %s" % name)
                cenv, ckinds = {}, {}
                for a, p in zip(args, f["params"]):
                    pk = self.kind_of_type(p["type"], ln)
                    if p["dims"]:
                        if a[0] != "id" or env.get(a[1]) is None or env[a[1]][0] != "arr" or \
                                len(env[a[1]][1]) != p["dims"][0] or kinds[a[1]] != pk and not (
                                    pk == "l" and kinds[a[1]] == "l"):
                            self.fail(ln, "array argument %s of %s" % (p["name"], name))
                        cenv[p["name"]] = env[a[1]]          # shared (by reference)
                    else:
                        if p["ptr"]:
                            self.fail(ln, "pointer parameter in helper %s" % name)
                        cenv[p["name"]] = self.check_kind(self.ev(a, env, ln), pk, ln, p["name"])
                    ckinds[p["name"]] = pk
                self.run(f["body"], cenv, ckinds, depth + 1)
            elif k == "if":
                _, _, op, lhs, rhs, body = s
                a, b = self.ev(lhs, env, ln), self.ev(rhs, env, ln)
                if a[0] != "s" or b != ("s", num(0)):
                    self.fail(ln, "condition must compare a scalar with M_ZERO")
                snap = _snapshot(env)
                self.run(body, env, kinds, depth)
                if set(env) != set(snap):
                    # declarations inside the block are local
                    for n in set(env) - set(snap):
                        del env[n]
                        del kinds[n]
                _merge(self, ln, env, snap, a[1], op)
            else:
                self.fail(ln, "statement kind %s" % k)


def _snapshot(env):
    def cp(v):
        if v is None:
            return None
        if v[0] == "arr":
            return ("arr", [cp(x) for x in v[1]])
        return v
    return {k: cp(v) for k, v in env.items()}


def _merge(x, ln, env, snap, cond, op):
    def mg(new, old):
        if new is None and old is None:
            return None
        if new is not None and new[0] == "arr":
            for i in range(len(new[1])):
                new[1][i] = mg(new[1][i], old[1][i])
            return new
        if new == old:
            return new
        if old is None or new is None:
            x.fail(ln, "conditional write to a cell that is undefined on the other path")
        if new[0] not in ("s", "l") or old[0] not in ("s", "l"):
            x.fail(ln, "conditional write of a non-numeric kind")
        kd = "l" if "l" in (new[0], old[0]) else "s"
        return (kd, ["ite0", cond, old[1], new[1]] if op == "!=" else ["ite0", cond, new[1], old[1]])
    for k in env:
        env[k] = mg(env[k], snap[k])


MODES = ["novec", "vec4", "vec8", "vec16"]


def _exec_kernel(x, f):
    """Symbolically run one kernel function -> list of result cells (each IR or None), result shape."""
    ps = f["params"]
    names = [p["name"] for p in ps]
    if len(ps) != 6 or names[4] != "kernel_parameters" or names[5] != "result":
        x.fail(f["line"], "kernel %s has an unexpected parameter list %s" % (f["name"], names))
    m = re.match(r"^(.*)_(novec|vec4|vec8|vec16)$", f["name"])
    mode = m.group(2)
    lane_ty = {"novec": None, "vec4": "REALTYPE4", "vec8": "REALTYPE8", "vec16": "REALTYPE16"}[mode]
    want = [("REALTYPE3", []), ("REALTYPE3", []) if mode == "novec" else (lane_ty, [3]), ("REALTYPE3", []),
            ("REALTYPE3", []) if mode == "novec" else (lane_ty, [3])]
    env, kinds = {}, {}
    for p, (ty, dims), pre in zip(ps[:4], want, ("x", "y", "nx", "ny")):
        if p["type"] != ty or p["dims"] != dims or p["ptr"] or "const" not in p["quals"]:
            x.fail(f["line"], "%s: parameter %s should be const %s%s" % (f["name"], p["name"], ty, dims or ""))
        comps = [var("%s%d" % (pre, i)) for i in range(3)]
        if dims:
            env[p["name"]] = ("arr", [("l", c) for c in comps])
            kinds[p["name"]] = "l"
        else:
            env[p["name"]] = ("v3", comps)
            kinds[p["name"]] = "v3"
    kp = ps[4]
    if kp["type"] != "REALTYPE" or not kp["ptr"] or "__global" not in kp["quals"]:
        x.fail(f["line"], "%s: kernel_parameters should be __global REALTYPE*" % f["name"])
    env["kernel_parameters"] = ("params",)
    kinds["kernel_parameters"] = "s"
    r = ps[5]
    rty = "REALTYPE" if mode == "novec" else lane_ty
    if r["type"] != rty or r["quals"]:
        x.fail(f["line"], "%s: result should have type %s" % (f["name"], rty))
    if r["ptr"] and not r["dims"]:
        shape = [2]            # REALTYPE* result: cell 0 (and 1 for complex kernels)
    elif not r["ptr"] and r["dims"] in ([2], [3, 2]):
        shape = r["dims"]
    else:
        x.fail(f["line"], "%s: result declarator" % f["name"])
    env["result"] = x.mkarr(shape)
    kinds["result"] = "s" if mode == "novec" else "l"
    x.run(f["body"], env, kinds)

    def flat(v):
        if v is None:
            return [None]
        if v[0] == "arr":
            return [c for e in v[1] for c in flat(e)]
        return [v[1]]
    return mode, m.group(1), flat(env["result"]), shape


def cl_selection(ctx):
    """kernel_type -> OpenCL kernel base name (select_cl_kernel), and the vector-mode suffix table."""
    path = ctx.src(CLSEL)
    tree = ast.parse(open(path).read())
    funcs = {n.name: n for n in tree.body if isinstance(n, ast.FunctionDef)}
    sel = funcs.get("select_cl_kernel")
    if sel is None:
        raise TieBroken(CLSEL + ": select_cl_kernel not found")
    kernels = None
    for s in sel.body:
        if isinstance(s, ast.Assign) and ast.unparse(s.targets[0]) == "kernels" and isinstance(s.value, ast.Dict):
            try:
                kernels = ast.literal_eval(s.value)
            except Exception:
                raise TieBroken("%s:%d: kernels table is not a literal" % (CLSEL, s.lineno))
            if len(kernels) != len(s.value.keys):
                raise TieBroken("%s:%d: duplicate key in kernels table" % (CLSEL, s.lineno))
    if kernels is None:
        raise TieBroken(CLSEL + ": kernels table not found in select_cl_kernel")
    # each mode must return kernels[operator_descriptor.kernel_type] as second component
    rets = [n for n in ast.walk(sel) if isinstance(n, ast.Return)]
    for r in rets:
        if not (isinstance(r.value, ast.Tuple) and len(r.value.elts) == 2 and
                ast.unparse(r.value.elts[1]) == "kernels[operator_descriptor.kernel_type]"):
            raise TieBroken("%s:%d: select_cl_kernel return form" % (CLSEL, r.lineno))
    vs = funcs.get("get_vec_string")
    vec = None
    if vs is not None:
        for s in vs.body:
            if isinstance(s, ast.Assign) and ast.unparse(s.targets[0]) == "vec_strings":
                vec = ast.literal_eval(s.value)
    if vec != {1: "novec", 4: "vec4", 8: "vec8", 16: "vec16"}:
        raise TieBroken("%s: get_vec_string table is not {1:novec,4:vec4,8:vec8,16:vec16}: %r" % (CLSEL, vec))
    return kernels


def _defn(name, args, e):
    return "Definition %s (%s : R) : R :=\n  %s." % (name, " ".join(args), kexpr.coq(e))


def opencl_kernels(ctx):
    """Emit gen/OpenCLKernels.v. Returns IR per kernel and mode for the self-test."""
    macros = base_macros(ctx)
    funcs = parse_header(ctx, KERNELS)
    x = _X(KERNELS, funcs)
    table = cl_selection(ctx)
    out = ["(* generated by translators/c_kernels.py from %s, %s and %s -- do not edit *)" % (KERNELS, BASE, CLSEL),
           "From Coq Require Import Reals String List.", "Import ListNotations.", "Open Scope R_scope.", "",
           "(* c4 = value of the macro M_INV_4PI; x test point, y trial point (one lane), nx/ny normals, p0 p1 parameters *)",
           "Definition clfun : Type := R -> R -> R -> R -> R -> R -> R -> R -> R -> R -> R -> R -> R -> R -> R -> R * R.",
           ""]
    for p, nm in ((0, "single"), (1, "double")):
        for mac in ("M_INV_4PI", "M_4PI"):
            fr, lit = macros[p][mac]
            out.append("Definition cl_%s_%s_literal : R := %d / %d.   (* %s *)" % (mac, nm, fr.numerator, fr.denominator, lit))
    out.append("")
    res = {"kernels": {}, "gradient": {}, "table": table, "macros": {
        nm: {mac: [macros[p][mac][0].numerator, macros[p][mac][0].denominator] for mac in ("M_INV_4PI", "M_4PI")}
        for p, nm in ((0, "single"), (1, "double"))}}
    helpers = set()
    args = ["c4"] + KARGS
    defined = {}
    for name, f in funcs.items():
        if re.match(r"^diff_vec(4|8|16)?$", name):
            helpers.add(name)
            continue
        m = re.match(r"^(.*)_(novec|vec4|vec8|vec16)$", name)
        if not m:
            raise TieBroken("%s:%d: function %s is neither a kernel variant nor a known helper" % (KERNELS, f["line"], name))
        mode, base, cells, shape = _exec_kernel(x, f)
        for e in cells:
            if e is not None:
                extra = kexpr.free_vars(e) - set(args)
                if extra:
                    raise TieBroken("%s: %s has free symbols %s" % (KERNELS, name, sorted(extra)))
        out.append("(* %s:%d *)" % (KERNELS, f["line"]))
        if shape == [2]:
            if cells[0] is None:
                raise TieBroken("%s:%d: %s never writes result[0]" % (KERNELS, f["line"], name))
            cplx = cells[1] is not None
            re_, im_ = cells[0], cells[1] if cplx else num(0)
            out.append(_defn("cl_%s_re" % name, args, re_))
            out.append(_defn("cl_%s_im" % name, args, im_))
            out.append("Definition cl_%s : clfun := fun %s => (cl_%s_re %s, cl_%s_im %s)." % (
                name, " ".join(args), name, " ".join(args), name, " ".join(args)))
            res["kernels"].setdefault(base, {})[mode] = {"re": re_, "im": im_, "complex": cplx, "line": f["line"]}
            defined.setdefault(base, []).append(mode)
        else:
            if any(c is None for c in cells):
                raise TieBroken("%s:%d: %s leaves result cells unwritten" % (KERNELS, f["line"], name))
            comps = []
            for d in range(3):
                out.append(_defn("cl_%s_%d_re" % (name, d), args, cells[2 * d]))
                out.append(_defn("cl_%s_%d_im" % (name, d), args, cells[2 * d + 1]))
                comps.append({"re": cells[2 * d], "im": cells[2 * d + 1]})
            res["gradient"].setdefault(base, {})[mode] = {"comps": comps, "line": f["line"]}
        out.append("")
    out.append("Inductive vecmode := novec | vec4 | vec8 | vec16.")
    out.append("Definition vecmodes : list vecmode := [novec; vec4; vec8; vec16].")
    out.append("Definition cl_kernel (name : string) (m : vecmode) : option clfun :=")
    for base, modes in defined.items():
        arms = " | ".join("%s => %s" % (md, ("Some cl_%s_%s" % (base, md)) if md in modes else "None") for md in MODES)
        out.append('  if String.eqb name "%s"%%string then (match m with %s end) else' % (base, arms))
    out.append("  None.")
    out.append("")
    out.append("(* select_cl_kernel: kernel_type -> OpenCL kernel base name *)")
    out.append("Definition cl_kernel_names : list (string * string) :=\n  [%s]." % ";\n   ".join(
        '("%s"%%string, "%s"%%string)' % kv for kv in table.items()))
    ctx.write_gen("OpenCLKernels.v", "\n".join(out) + "\n")
    return res


def shapesets_cl(ctx):
    """Emit gen/ShapesetsCL.v: <name>_evaluate of each *_shapeset.h as list (function) of list (component)."""
    sp = ctx.src(INC + "bempp_spaces.h")
    stxt = open(sp).read()
    out = ["(* generated by translators/c_kernels.py from %s*_shapeset.h -- do not edit *)" % INC,
           "From Coq Require Import Reals String List.", "Import ListNotations.", "Open Scope R_scope.", ""]
    res = {}
    for ident in SHAPE_HEADERS:
        rel = INC + ident + "_shapeset.h"
        if '#include "%s_shapeset.h"' % ident not in stxt:
            raise TieBroken("%sbempp_spaces.h does not include %s_shapeset.h" % (INC, ident))
        funcs = parse_header(ctx, rel)
        f = funcs.get(ident + "_evaluate")
        if f is None or len(funcs) != 1:
            raise TieBroken("%s: expected exactly the function %s_evaluate" % (rel, ident))
        ps = f["params"]
        if len(ps) != 2 or ps[0]["type"] != "REALTYPE2" or not ps[0]["ptr"] or ps[0]["name"] != "localPoint" or \
                ps[1]["type"] != "REALTYPE" or not ps[1]["ptr"] or ps[1]["name"] != "result":
            raise TieBroken("%s:%d: parameter list of %s_evaluate" % (rel, f["line"], ident))
        x = _X(rel, funcs)
        cells = [None] * 8
        env = {"localPoint": ("ptr", ("v2", [var("u"), var("v")])), "result": ("arr", cells)}
        kinds = {"localPoint": "v2", "result": "s"}
        x.run(f["body"], env, kinds)
        n = max(i for i, c in enumerate(cells) if c is not None) + 1
        if any(c is None for c in cells[:n]):
            raise TieBroken("%s: result cells written with a gap" % rel)
        res[ident] = [c[1] for c in cells[:n]]
        out.append("Definition cl_%s_evaluate (u v : R) : list R :=\n  [%s]." % (
            ident, "; ".join(kexpr.coq(c[1]) for c in cells[:n])))
    out.append("")
    out.append("Definition cl_shapeset (name : string) : option (R -> R -> list R) :=")
    for ident in SHAPE_HEADERS:
        out.append('  if String.eqb name "%s"%%string then Some cl_%s_evaluate else' % (ident, ident))
    out.append("  None.")
    ctx.write_gen("ShapesetsCL.v", "\n".join(out) + "\n")
    return res
