"""Translator (tie T of C19): bempp_cl/api/grid/io.py -> gen/IoFacts.v  (fail closed).

Extracted from the *current* source, by AST shape:
  import_grid : the cell-data keys of the two `try` blocks, the fallback condition
                (`domain_indices is None or np.all(domain_indices == 0)`), the cells key, the uint32 cast of elements;
  export      : the gmsh file formats, the cell-data keys of the gmsh / non-gmsh branch, the int32 casts, the
                geometrical-index recipe (set -> range(1, 1+len) -> dict(zip) -> lookup), for every data assignment
                (`point_data = {...}`, `cell_data[k] = ...`) the key, real/imag split and whether the array is wrapped
                into one block per cell block, the `.T` of the evaluated data, the method evaluated per data_type,
                the default data_type rule;
  _transform_array : the mode -> expression table as terms of `IO.Msh.tmode`.
Anything else raises TieBroken.
"""
import ast

from lib.vlib import TieBroken

REL = "bempp_cl/api/grid/io.py"


def _fail(node, msg):
    raise TieBroken("%s:%s: %s" % (REL, getattr(node, "lineno", "?"), msg))


def _u(n):
    return ast.unparse(n)


def _str(s):
    return '"%s"' % s


def _b(x):
    return "true" if x else "false"


def _no_doc(body):
    if body and isinstance(body[0], ast.Expr) and isinstance(body[0].value, ast.Constant):
        return body[1:]
    return body


def _try_key(node):
    """try: domain_indices = mesh.cell_data_dict[K]["triangle"]  except: ...  -> K, handler kind"""
    if not (isinstance(node, ast.Try) and len(node.body) == 1 and isinstance(node.body[0], ast.Assign)):
        _fail(node, "expected try: domain_indices = ...")
    a = node.body[0]
    src = _u(a)
    import re
    m = re.fullmatch(r"domain_indices = mesh\.cell_data_dict\['([^']+)'\]\['triangle'\]", src)
    if not m:
        _fail(a, "unrecognised domain index lookup: " + src)
    if len(node.handlers) != 1 or node.handlers[0].type is not None or node.orelse or node.finalbody:
        _fail(node, "unrecognised handler")
    h = _u(node.handlers[0].body[0]) if len(node.handlers[0].body) == 1 else "?"
    if h not in ("domain_indices = None", "pass"):
        _fail(node, "unrecognised handler body " + h)
    return m.group(1), h


def _import_facts(fn):
    body = _no_doc(fn.body)
    srcs = [_u(s) for s in body]
    f = {}
    exp = ["from bempp_cl.api.grid.grid import Grid", "mesh = _meshio.read(filename)", "vertices = mesh.points.T"]
    if srcs[:3] != exp:
        _fail(fn, "import_grid prologue changed: %r" % srcs[:3])
    if srcs[3] != "elements = mesh.cells_dict['triangle'].T.astype('uint32')":
        _fail(body[3], "elements extraction changed: " + srcs[3])
    f["imp_phys"], h = _try_key(body[4])
    if h != "domain_indices = None":
        _fail(body[4], "physical lookup handler must set None")
    cond = body[5]
    if not isinstance(cond, ast.If) or cond.orelse or len(cond.body) != 1:
        _fail(cond, "expected the fallback `if`")
    t = cond.test
    alts = [_u(v) for v in t.values] if isinstance(t, ast.BoolOp) and isinstance(t.op, ast.Or) else [_u(t)]
    known = {"domain_indices is None": "none", "_np.all(domain_indices == 0)": "zero"}
    kinds = []
    for a in alts:
        if a not in known:
            _fail(t, "unrecognised fallback condition " + a)
        kinds.append(known[a])
    if "zero" in kinds and ("none" not in kinds or kinds.index("none") > kinds.index("zero")):
        _fail(t, "all-zero test evaluated on a possibly missing array")
    f["fb_none"], f["fb_zero"] = "none" in kinds, "zero" in kinds
    f["imp_geom"], h = _try_key(cond.body[0])
    if h != "pass":
        _fail(cond, "geometrical lookup handler must pass")
    if srcs[6] != "return Grid(vertices, elements, domain_indices=domain_indices)" or len(srcs) != 7:
        _fail(body[6], "return changed: " + srcs[6])
    return f


def _data_assign(stmt, target):
    """Return list of (key, part, wrapped) for the data assignments inside an if/else on iscomplexobj."""
    out = []
    for s in stmt:
        src = _u(s)
        import re
        if target == "point":
            m = re.fullmatch(r"point_data = \{(.*)\}", src)
            if not m:
                _fail(s, "unrecognised point data assignment " + src)
            for item in s.value.keys:
                pass
            for k, v in zip(s.value.keys, s.value.values):
                out.append((k.value,) + _part(v))
        else:
            m = re.fullmatch(r"cell_data\['([^']+)'\] = (.*)", src)
            if not m:
                _fail(s, "unrecognised cell data assignment " + src)
            out.append((m.group(1),) + _part(s.value))
    return out


def _part(v):
    """expr -> (part, wrapped): data | _np.real(data) | _np.imag(data), optionally wrapped as _np.array([.]) or [.]"""
    src = _u(v)
    wrapped = False
    for pre, post in (("_np.array([", "])"), ("[", "]")):
        if src.startswith(pre) and src.endswith(post):
            src, wrapped = src[len(pre):-len(post)], True
            break
    parts = {"data": "PAll", "_np.real(data)": "PRe", "_np.imag(data)": "PIm"}
    if src not in parts:
        _fail(v, "unrecognised data expression " + _u(v))
    return parts[src], wrapped


def _branch(ifnode, target):
    """`if _np.iscomplexobj(data): ... else: ...` -> (complex assignments, real assignments)"""
    if not (isinstance(ifnode, ast.If) and _u(ifnode.test) == "_np.iscomplexobj(data)"):
        _fail(ifnode, "expected if _np.iscomplexobj(data)")
    return _data_assign(ifnode.body, target), _data_assign(ifnode.orelse, target)


def _export_facts(fn):
    import re
    f = {}
    args = [a.arg for a in fn.args.args]
    if args != ["filename", "grid", "grid_function", "data_type", "transformation", "write_binary"]:
        _fail(fn, "export signature changed")
    body = _no_doc(fn.body)
    i = 0

    def nxt():
        nonlocal i
        i += 1
        return body[i - 1]
    s = nxt()
    if _u(s) != "import os":
        _fail(s, "expected import os")
    s = nxt()
    want = ("if data_type is None and grid_function is not None:\n    if grid_function.space.identifier == 'p1':\n"
            "        data_type = 'node'\n    else:\n        data_type = 'element'")
    if _u(s) != want:
        _fail(s, "default data_type rule changed")
    s = nxt()
    if _u(s) != "_, extension = os.path.splitext(filename)":
        _fail(s, "extension extraction changed")
    s = nxt()
    if _u(s) != "file_format = None":
        _fail(s, "file_format init changed")
    s = nxt()
    if not (isinstance(s, ast.If) and _u(s.test) == "extension == '.msh'"):
        _fail(s, "expected the .msh test")
    fmts = re.findall(r"file_format = '([^']+)'", _u(s))
    inner = [x for x in s.body if isinstance(x, ast.If)]
    if len(inner) != 1 or _u(inner[0].test) != "write_binary" or len(fmts) != 2:
        _fail(s, "gmsh format selection changed")
    f["fmt_bin"], f["fmt_ascii"] = fmts
    if "gmsh = True" not in _u(s) or _u(s.orelse[0]) != "gmsh = False":
        _fail(s, "gmsh flag changed")
    s = nxt()
    if "grid is not None and grid_function is not None" not in _u(s):
        _fail(s, "both-given guard changed")
    s = nxt()
    if _u(s) != "cell_data = {}":
        _fail(s, "cell_data init changed")
    s = nxt()
    if _u(s) != "point_data = None":
        _fail(s, "point_data init changed")
    s = nxt()
    if not (isinstance(s, ast.If) and _u(s.test) == "grid_function is not None"):
        _fail(s, "expected grid_function branch")
    gb = s.body
    if _u(gb[0]) != "grid = grid_function.space.grid" or len(gb) != 2:
        _fail(s, "grid_function branch changed")
    dt = gb[1]
    if not (isinstance(dt, ast.If) and _u(dt.test) == "data_type == 'node'"):
        _fail(dt, "expected data_type == 'node'")
    m = re.fullmatch(r"data = _transform_array\(grid_function\.(\w+)\(\), transformation\)(\.T)?", _u(dt.body[0]))
    if not m:
        _fail(dt.body[0], "node data expression changed")
    f["node_method"], f["node_T"] = m.group(1), m.group(2) is not None
    f["node_c"], f["node_r"] = _branch(dt.body[1], "point")
    el = dt.orelse[0]
    if not (isinstance(el, ast.If) and _u(el.test) == "data_type == 'element'"):
        _fail(el, "expected data_type == 'element'")
    m = re.fullmatch(r"data = _transform_array\(grid_function\.(\w+)\(\), transformation\)(\.T)?", _u(el.body[0]))
    if not m:
        _fail(el.body[0], "element data expression changed")
    f["elem_method"], f["elem_T"] = m.group(1), m.group(2) is not None
    f["elem_c"], f["elem_r"] = _branch(el.body[1], "cell")
    if not (len(el.orelse) == 1 and isinstance(el.orelse[0], ast.Raise)):
        _fail(el, "unknown data_type must raise")
    s = nxt()
    if _u(s) != "cells = [('triangle', grid.elements.T.astype('int32'))]":
        _fail(s, "cells changed: " + _u(s))
    s = nxt()
    if _u(s) != "points = grid.vertices.T":
        _fail(s, "points changed")
    s = nxt()
    if not (isinstance(s, ast.If) and _u(s.test) == "gmsh"):
        _fail(s, "expected gmsh branch")
    gsrc = [_u(x) for x in s.body]
    m = re.fullmatch(r"cell_data\['([^']+)'\] = grid\.domain_indices\.astype\('int32'\)\.reshape\(\(1, -1\)\)", gsrc[0])
    if not m:
        _fail(s.body[0], "physical export changed: " + gsrc[0])
    f["exp_phys"] = m.group(1)
    want = ["unique_dom_indices = set(grid.domain_indices)",
            None,
            "geom_indices_map = dict(zip(unique_dom_indices, unique_geom_indices))",
            "geom_indices = _np.array([geom_indices_map[dom_index] for dom_index in grid.domain_indices], dtype='int32')"]
    for k, w in enumerate(want):
        if w is not None and gsrc[1 + k] != w:
            _fail(s.body[1 + k], "geometrical recipe changed: " + gsrc[1 + k])
    m = re.fullmatch(r"unique_geom_indices = range\((-?\d+), (-?\d+) \+ len\(unique_dom_indices\)\)", gsrc[2])
    if not m or m.group(1) != m.group(2):
        _fail(s.body[2], "geometrical numbering changed: " + gsrc[2])
    f["geom_base"] = int(m.group(1))
    m = re.fullmatch(r"cell_data\['([^']+)'\] = geom_indices\.reshape\(\(1, -1\)\)", gsrc[5])
    if not m or len(gsrc) != 6:
        _fail(s.body[5], "geometrical export changed")
    f["exp_geom"] = m.group(1)
    m = re.fullmatch(r"cell_data\['([^']+)'\] = grid\.domain_indices\.astype\('int32'\)\.reshape\(\(1, -1\)\)",
                     _u(s.orelse[0]))
    if not m or len(s.orelse) != 1:
        _fail(s.orelse[0], "non-gmsh domain index export changed")
    f["exp_other"] = m.group(1)
    s = nxt()
    want = ("_meshio.write_points_cells(filename, points, cells, point_data=point_data, cell_data=cell_data, "
            "file_format=file_format, binary=write_binary)")
    if _u(s) != want or i != len(body):
        _fail(s, "write call changed")
    return f


_MODES = {
    "_np.real(a)": "TReal", "_np.imag(a)": "TImag",
    "_np.sqrt(_np.sum(_np.abs(a) ** 2, axis=0, keepdims=True))": "TAbs",
    "_np.sum(_np.abs(a) ** 2, axis=0, keepdims=True)": "TAbs2",
    "_np.log(_np.sqrt(_np.sum(_np.abs(a) ** 2, axis=0, keepdims=True)))": "TLogAbs",
    "mode(a)": "TCall",
}


def _transform_facts(fn):
    body = _no_doc(fn.body)
    if _u(body[0]) != "if mode is None:\n    return a":
        _fail(body[0], "None mode must return the input")
    chain = [s for s in body if isinstance(s, ast.If) and _u(s.test).startswith("mode ==")]
    if len(chain) != 1:
        _fail(fn, "expected one mode chain")
    table, node = [], chain[0]
    import re
    while True:
        m = re.fullmatch(r"mode == '(\w+)'", _u(node.test))
        if not m or len(node.body) != 1:
            _fail(node, "unrecognised mode test")
        e = _u(node.body[0])
        if not e.startswith("res = ") or e[6:] not in _MODES:
            _fail(node.body[0], "unrecognised transformation " + e)
        table.append((m.group(1), _MODES[e[6:]]))
        if len(node.orelse) == 1 and isinstance(node.orelse[0], ast.If):
            node = node.orelse[0]
            continue
        e = _u(node.orelse[0]) if len(node.orelse) == 1 else "?"
        if e != "res = mode(a)":
            _fail(node, "callable fallback changed")
        break
    tail = _u(body[-1])
    if tail != "if ndim == 1:\n    return _np.squeeze(res, axis=0)\nelse:\n    return res":
        _fail(body[-1], "epilogue changed")
    return table


def io_facts(ctx):
    path = ctx.src(REL)
    tree = ast.parse(open(path).read())
    fns = {n.name: n for n in tree.body if isinstance(n, ast.FunctionDef)}
    for need in ("import_grid", "export", "_transform_array"):
        if need not in fns:
            raise TieBroken("%s: function %s missing" % (REL, need))
    f = _import_facts(fns["import_grid"])
    f.update(_export_facts(fns["export"]))
    table = _transform_facts(fns["_transform_array"])

    def assigns(xs):
        return "[" + "; ".join('(%s, %s, %s)' % (_str(k), p, _b(w)) for k, p, w in xs) + "]"
    txt = "\n".join([
        "(* generated by translators/iofacts.py from %s -- do not edit *)" % REL,
        "From Coq Require Import ZArith List String.", "From BV Require Import IO.Msh.",
        "Import ListNotations.", "Open Scope string_scope.", "",
        "Definition cur : variant := {|",
        "  imp_phys := %s; imp_geom := %s; fb_none := %s; fb_zero := %s;" % (
            _str(f["imp_phys"]), _str(f["imp_geom"]), _b(f["fb_none"]), _b(f["fb_zero"])),
        "  exp_phys := %s; exp_geom := %s; exp_other := %s; geom_base := (%d)%%Z;" % (
            _str(f["exp_phys"]), _str(f["exp_geom"]), _str(f["exp_other"]), f["geom_base"]),
        "  fmt_bin := %s; fmt_ascii := %s;" % (_str(f["fmt_bin"]), _str(f["fmt_ascii"])),
        "  node_method := %s; node_T := %s; node_c := %s; node_r := %s;" % (
            _str(f["node_method"]), _b(f["node_T"]), assigns(f["node_c"]), assigns(f["node_r"])),
        "  elem_method := %s; elem_T := %s; elem_c := %s; elem_r := %s;" % (
            _str(f["elem_method"]), _b(f["elem_T"]), assigns(f["elem_c"]), assigns(f["elem_r"])),
        "  modes := [%s] |}." % "; ".join("(%s, %s)" % (_str(k), v) for k, v in table), ""])
    ctx.write_gen("IoFacts.v", txt)
    f["modes"] = table
    return f
