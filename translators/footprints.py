"""Translator: write footprints of every `prange` loop -> coq/gen/Footprints.v (fail closed).

Reads (current /repo tree)
  bempp_cl/core/numba_kernels.py      every function compiled with parallel=True
  bempp_cl/api/fmm/helpers.py         every function compiled with parallel=True
and classifies EVERY store into memory inside every `for v in _numba.prange(n)` loop as

  Private        the array is allocated inside the loop body (_np.zeros/empty/ones/sqrt/sort ...)
  OwnSlot        flat index  v * (r1*...*rk) + d1*(r2*...*rk) + ... + dk  with every digit dj bound by an enclosing
                 `for dj in range(rj)`; equality with the source expression is decided by expanding both sides into
                 polynomials (and re-proved by `ring` inside Coq from the emitted expression trees)
  OwnColumn      result[<anything>, v]
  OwnCsrRange    index variable c with  c = K * ptr[v]  at the top of the body and `c += 1` in the innermost of loops
                 whose trip counts multiply to K * (ptr[1 + v] - ptr[v])
  RowOfDof       result[dofs[elems[v], f], <anything>]   (rows of local2global of the thread's own test element)

Stores reached through a call of a function-valued parameter (default_sparse_kernel -> kernel_evaluator(..., result))
are followed into every non-parallel module function with the same number of parameters as the call has arguments.
A scratch array selected by `get_thread_id()` out of a buffer sized outside the launch is reported as its own, UNSOUND
class (scratch-by-thread-id).  Any other store pattern, a reduction into a scalar, a nested prange, or a function that stores into one of its
parameters without being one of the analysed kernels raises TieBroken.  Python stdlib only."""
import ast
import itertools

from lib.vlib import TieBroken

FILES = ["bempp_cl/core/numba_kernels.py", "bempp_cl/api/fmm/helpers.py"]
ALLOC = {"zeros", "empty", "ones", "sqrt", "sort", "zeros_like", "empty_like", "copy"}


def _fail(path, node, msg):
    raise TieBroken("%s:%s: %s" % (path, getattr(node, "lineno", "?"), msg))


def is_parallel(fn):
    for d in fn.decorator_list:
        if isinstance(d, ast.Call):
            for k in d.keywords:
                if k.arg == "parallel" and isinstance(k.value, ast.Constant) and k.value.value is True:
                    return True
    return False


def is_prange(node):
    return isinstance(node, ast.For) and isinstance(node.iter, ast.Call) and \
        ast.unparse(node.iter.func).endswith("prange")


def range_bound(node):
    """`for d in range(R)` -> R (ast) else None."""
    if isinstance(node.iter, ast.Call) and isinstance(node.iter.func, ast.Name) and node.iter.func.id == "range" \
            and len(node.iter.args) == 1 and not node.iter.keywords and isinstance(node.target, ast.Name):
        return node.iter.args[0]
    return None


# ---------------------------------------------------------------------------------------- polynomials
def padd(a, b):
    r = dict(a)
    for m, c in b.items():
        r[m] = r.get(m, 0) + c
        if r[m] == 0:
            del r[m]
    return r


def pmul(a, b):
    r = {}
    for (m1, c1), (m2, c2) in itertools.product(a.items(), b.items()):
        m = tuple(sorted(m1 + m2))
        r[m] = r.get(m, 0) + c1 * c2
        if r[m] == 0:
            del r[m]
    return r


class Scope:
    """Single-assignment scalar definitions visible at a store (for substitution) and loop bounds."""

    def __init__(self, path, fn):
        self.path, self.fn = path, fn
        self.params = [a.arg for a in fn.args.args]
        self.assigns = {}
        for n in ast.walk(fn):
            if isinstance(n, ast.Assign) and len(n.targets) == 1 and isinstance(n.targets[0], ast.Name):
                self.assigns.setdefault(n.targets[0].id, []).append(n.value)
            elif isinstance(n, ast.AugAssign) and isinstance(n.target, ast.Name):
                self.assigns.setdefault(n.target.id, []).append(None)
            elif isinstance(n, (ast.For, ast.comprehension)):
                for t in ast.walk(n.target):
                    if isinstance(t, ast.Name):
                        self.assigns.setdefault(t.id, []).append(None)

    def single(self, name):
        # a top-level assignment of the parallel loop body dominates every use further down in that body
        tb = getattr(self, "top_body", {}).get(name)
        if tb is not None and len(self.inbody.get(name, [])) == 1:
            return tb
        v = self.assigns.get(name)
        if v and len(v) == 1 and v[0] is not None and name not in self.params:
            return v[0]
        return None

    def poly(self, e, depth=0):
        """Expand an index expression into {monomial(tuple of atom strings): coefficient}."""
        if depth > 20:
            _fail(self.path, e, "substitution too deep")
        if isinstance(e, ast.Constant) and isinstance(e.value, int) and not isinstance(e.value, bool):
            return {(): e.value} if e.value else {}
        if isinstance(e, ast.Name):
            d = self.single(e.id)
            if d is not None and isinstance(d, (ast.BinOp, ast.Constant, ast.Name)):
                return self.poly(d, depth + 1)
            return {(e.id,): 1}
        if isinstance(e, ast.BinOp) and isinstance(e.op, ast.Add):
            return padd(self.poly(e.left, depth), self.poly(e.right, depth))
        if isinstance(e, ast.BinOp) and isinstance(e.op, ast.Mult):
            return pmul(self.poly(e.left, depth), self.poly(e.right, depth))
        if isinstance(e, ast.BinOp) and isinstance(e.op, ast.Sub):
            return padd(self.poly(e.left, depth), pmul({(): -1}, self.poly(e.right, depth)))
        return {(self.atom(e),): 1}

    def coq_ast(self, e, depth=0):
        """The source index expression itself as a Gallina term (scalar definitions inlined, no expansion);
        None when it contains something other than names, integer literals, + and *."""
        if depth > 20:
            return None
        if isinstance(e, ast.Constant) and isinstance(e.value, int) and not isinstance(e.value, bool) and e.value >= 0:
            return str(e.value)
        if isinstance(e, ast.Name):
            d = self.single(e.id)
            if d is not None and isinstance(d, (ast.BinOp, ast.Constant, ast.Name)):
                return self.coq_ast(d, depth + 1)
            return 'env "%s"' % e.id
        if isinstance(e, ast.BinOp) and isinstance(e.op, (ast.Add, ast.Mult)):
            a, b = self.coq_ast(e.left, depth), self.coq_ast(e.right, depth)
            if a is None or b is None:
                return None
            return "(%s %s %s)" % (a, "+" if isinstance(e.op, ast.Add) else "*", b)
        return None

    def atom(self, e):
        """Canonical text of a non-arithmetic sub-expression (subscripts with substituted scalar names)."""
        if isinstance(e, ast.Subscript):
            return "%s[%s]" % (self.atom(e.value), self.atom(e.slice))
        if isinstance(e, ast.Tuple):
            return ", ".join(self.atom(x) for x in e.elts)
        if isinstance(e, ast.Name):
            d = self.single(e.id)
            if d is not None and isinstance(d, (ast.Subscript, ast.Name)):
                return self.atom(d)
            return e.id
        if isinstance(e, ast.BinOp):
            p = self.poly(e)
            return "+".join("%d*%s" % (c, "*".join(m)) for m, c in sorted(p.items()))
        return ast.unparse(e)


def coq_expr(p):
    """Polynomial -> Gallina nat expression over (env : string -> nat); coefficients must be positive."""
    terms = []
    for m, c in sorted(p.items()):
        if c <= 0:
            return None
        fs = ([str(c)] if c != 1 or not m else []) + ['env "%s"' % a for a in m]
        terms.append(" * ".join(fs))
    return " + ".join(terms) if terms else "0"


# ---------------------------------------------------------------------------------------- analysis
class Analysis:
    def __init__(self, path, rel, tree):
        self.path, self.rel = path, rel
        self.funcs = {n.name: n for n in tree.body if isinstance(n, ast.FunctionDef)}
        self.writes = []          # dicts
        self.loops = []
        self.followed = set()

    # -- stores of one loop body ------------------------------------------------------------------
    def analyse_function(self, fn):
        pr = [n for n in ast.walk(fn) if is_prange(n)]
        for loop in pr:
            for inner in ast.walk(loop):
                if inner is not loop and is_prange(inner):
                    _fail(self.rel, inner, "nested prange")
            if not isinstance(loop.target, ast.Name):
                _fail(self.rel, loop, "prange target is not a name")
            self.loops.append((fn.name, loop.lineno))
            self.analyse_body(fn, fn.name, loop.lineno, loop.body, loop.target.id, outer_fn=fn)

    def analyse_body(self, fn, owner, loop_line, body, pvar, outer_fn):
        sc = Scope(self.rel, fn)
        inbody = {}        # names plainly assigned inside the body -> list of rhs
        augnames = []
        for st in body:
            for n in ast.walk(st):
                if isinstance(n, ast.Assign):
                    for t in n.targets:
                        if isinstance(t, ast.Name):
                            inbody.setdefault(t.id, []).append(n.value)
                        elif isinstance(t, ast.Tuple):
                            _fail(self.rel, n, "tuple assignment inside a parallel loop")
                elif isinstance(n, ast.AugAssign) and isinstance(n.target, ast.Name):
                    augnames.append(n)
                elif isinstance(n, (ast.With, ast.While, ast.Try, ast.Global, ast.Nonlocal, ast.Return, ast.Delete)):
                    _fail(self.rel, n, "unsupported statement inside a parallel loop")
        sc.inbody = inbody
        sc.top_body = {st.targets[0].id: st.value for st in body
                       if isinstance(st, ast.Assign) and len(st.targets) == 1 and isinstance(st.targets[0], ast.Name)}
        for n in augnames:
            if n.target.id not in inbody:
                _fail(self.rel, n, "augmented assignment to scalar '%s' not initialised in the loop body "
                      "(cross-thread reduction)" % n.target.id)

        def allocated(name):
            rh = inbody.get(name)
            if not rh:
                return False
            for r in rh:
                if not (isinstance(r, ast.Call) and isinstance(r.func, ast.Attribute) and r.func.attr in ALLOC
                        and isinstance(r.func.value, ast.Name) and r.func.value.id in ("_np", "np")):
                    return False
            return True

        def walk(stmts, loopstack):
            for st in stmts:
                if isinstance(st, ast.For):
                    b = range_bound(st)
                    walk(st.body, loopstack + [(st.target.id if isinstance(st.target, ast.Name) else None, b, st)])
                    if st.orelse:
                        _fail(self.rel, st, "for-else")
                elif isinstance(st, ast.If):
                    walk(st.body, loopstack)
                    walk(st.orelse, loopstack)
                elif isinstance(st, (ast.Assign, ast.AugAssign)):
                    tg = st.targets if isinstance(st, ast.Assign) else [st.target]
                    for t in tg:
                        if isinstance(t, ast.Subscript):
                            self.classify(sc, owner, loop_line, st, t, pvar, loopstack, allocated, inbody, body)
                        elif not isinstance(t, ast.Name):
                            _fail(self.rel, st, "store target %s" % ast.unparse(t))
                elif isinstance(st, ast.Expr) and isinstance(st.value, ast.Call):
                    self.follow_call(fn, owner, loop_line, st.value, pvar)
                elif isinstance(st, (ast.Expr, ast.Pass, ast.Continue, ast.Break)):
                    pass
                else:
                    _fail(self.rel, st, "unsupported statement %s" % type(st).__name__)

        walk(body, [])

    def follow_call(self, fn, owner, loop_line, call, pvar):
        params = [a.arg for a in fn.args.args]
        if not (isinstance(call.func, ast.Name) and call.func.id in params):
            _fail(self.rel, call, "call statement of '%s' inside a parallel loop" % ast.unparse(call.func))
        if call.keywords or not all(isinstance(a, ast.Name) for a in call.args):
            _fail(self.rel, call, "call of a function parameter with non-name arguments")
        argnames = [a.id for a in call.args]
        # candidates: every non-parallel module function with the same number of parameters (the parameter names of
        # the sparse kernels differ from the argument names of the call)
        cands = [f for f in self.funcs.values() if len(f.args.args) == len(argnames) and f is not fn
                 and not is_parallel(f)]
        if not cands:
            _fail(self.rel, call, "no module function matches the argument list of %s" % call.func.id)
        if pvar not in argnames:
            _fail(self.rel, call, "the parallel index is not passed to %s" % call.func.id)
        for c in cands:
            if any(is_prange(n) for n in ast.walk(c)) and is_parallel(c):
                _fail(self.rel, c, "callee %s is itself parallel" % c.name)
            self.followed.add(c.name)
            cp = c.args.args[argnames.index(pvar)].arg
            self.analyse_body(c, "%s -> %s" % (owner, c.name), loop_line, c.body, cp, outer_fn=fn)

    def classify(self, sc, owner, loop_line, st, target, pvar, loopstack, allocated, inbody, body):
        if not isinstance(target.value, ast.Name):
            _fail(self.rel, st, "store through %s" % ast.unparse(target.value))
        arr = target.value.id
        rec = {"fn": owner, "loop": loop_line, "line": st.lineno, "array": arr, "src": ast.unparse(target)}
        if allocated(arr):
            rec["cls"] = "Private"
            self.writes.append(rec)
            return
        if arr in inbody:
            for rhs in inbody[arr]:
                if isinstance(rhs, ast.Subscript) and any(
                        isinstance(c, ast.Call) and ast.unparse(c.func).endswith("get_thread_id") for c in ast.walk(rhs.slice)):
                    buf = ast.unparse(rhs.value)
                    outside = isinstance(rhs.value, ast.Name) and (rhs.value.id in sc.params or rhs.value.id not in inbody)
                    _fail(self.rel, st,
                          "UNSOUND class scratch-by-thread-id: '%s' is a slice of the shared buffer '%s' selected by "
                          "get_thread_id() (%s); two iterations share it whenever the launch runs more threads than the "
                          "buffer has slots, and the buffer is %s -- not private, not own-slot"
                          % (arr, buf, ast.unparse(rhs.slice).split(",")[0],
                             "sized outside the launch (a parameter / allocated before the loop), i.e. for the thread "
                             "count at build time" if outside else "not allocated per iteration"))
            _fail(self.rel, st, "store into '%s', which is bound inside the loop body but not to a fresh allocation "
                  "(could be a view of shared memory)" % arr)
        idx = target.slice
        bounds = {v: b for v, b, _ in loopstack if v is not None}
        if isinstance(idx, ast.Tuple):
            els = idx.elts
            last = els[-1]
            if isinstance(last, ast.Name) and last.id == pvar:
                rec["cls"] = "OwnColumn"
                self.writes.append(rec)
                return
            first = els[0]
            if isinstance(first, ast.Subscript) and isinstance(first.value, ast.Name) and \
                    isinstance(first.slice, ast.Tuple) and len(first.slice.elts) == 2:
                elem = first.slice.elts[0]
                ea = sc.atom(elem)
                if ea.endswith("[%s]" % pvar) and ea.count("[") == 1 and first.value.id in sc.params and \
                        ea.split("[")[0] in sc.params:
                    rec.update(cls="RowOfDof", dofs=first.value.id, elems=ea.split("[")[0])
                    self.writes.append(rec)
                    return
            _fail(self.rel, st, "unclassified 2-d store %s" % rec["src"])
        # flat index
        if isinstance(idx, ast.Name) and idx.id in inbody:
            self.csr(sc, rec, st, idx.id, pvar, loopstack, inbody, body)
            return
        p = sc.poly(idx)
        digits = sorted({a for m in p for a in m if a in bounds})
        for m, c in p.items():
            k = sum(1 for a in m if a in digits or a == pvar)
            if k != 1 or c <= 0:
                _fail(self.rel, st, "index %s is not affine in the loop variables" % rec["src"])
        coef = {}
        for v in digits + [pvar]:
            q = {tuple(a for a in m if a != v): c for m, c in p.items() if v in m}
            coef[v] = q
        if not coef[pvar]:
            _fail(self.rel, st, "index %s does not depend on the parallel index" % rec["src"])
        order, cur, rest = [], {(): 1}, list(digits)
        while rest:
            nxt = [d for d in rest if coef[d] == cur]
            if len(nxt) != 1:
                _fail(self.rel, st, "index %s is not a mixed-radix number of its loop variables" % rec["src"])
            d = nxt[0]
            if bounds[d] is None:
                _fail(self.rel, st, "loop variable %s has no range(...) bound" % d)
            order.insert(0, d)
            rest.remove(d)
            cur = pmul(cur, sc.poly(bounds[d]))
        if coef[pvar] != cur:
            _fail(self.rel, st, "stride of the parallel index in %s is not the product of the digit ranges" % rec["src"])
        radices = [sc.poly(bounds[d]) for d in order]
        src = sc.coq_ast(idx)
        rads = [sc.coq_ast(bounds[d]) for d in order]
        if src is None or any(r is None for r in rads):
            _fail(self.rel, st, "index %s is not built from names, literals, + and *" % rec["src"])
        rec.update(cls="OwnSlot", pvar=pvar, digits=order, radices=rads, expr=src, poly=p)
        self.writes.append(rec)

    def csr(self, sc, rec, st, cvar, pvar, loopstack, inbody, body):
        inits = inbody[cvar]
        if len(inits) != 1:
            _fail(self.rel, st, "counter %s assigned more than once" % cvar)
        top = [s for s in body if isinstance(s, ast.Assign) and any(isinstance(t, ast.Name) and t.id == cvar for t in s.targets)]
        if len(top) != 1:
            _fail(self.rel, st, "counter %s is not initialised at the top level of the loop body" % cvar)
        init = sc.poly(inits[0])
        if len(init) != 1:
            _fail(self.rel, st, "counter initialiser is not a monomial")
        (mono, c0), = init.items()
        ptr_atoms = [a for a in mono if a.endswith("[%s]" % pvar) and a.count("[") == 1]
        if len(ptr_atoms) != 1 or c0 <= 0:
            _fail(self.rel, st, "counter initialiser is not K * ptr[%s]" % pvar)
        ptr = ptr_atoms[0].split("[")[0]
        kmono = list(mono)
        kmono.remove(ptr_atoms[0])
        K = {tuple(sorted(kmono)): c0}
        incs = [n for s in body for n in ast.walk(s) if isinstance(n, ast.AugAssign) and isinstance(n.target, ast.Name)
                and n.target.id == cvar]
        if len(incs) != 1 or not isinstance(incs[0].op, ast.Add) or not (
                isinstance(incs[0].value, ast.Constant) and incs[0].value.value == 1):
            _fail(self.rel, st, "counter %s is not advanced by exactly one `+= 1`" % cvar)
        innermost = loopstack[-1][2] if loopstack else None
        if innermost is None or incs[0] not in innermost.body:
            _fail(self.rel, st, "the `+= 1` of %s is not in the loop body of the store" % cvar)
        if innermost.body.index(incs[0]) < innermost.body.index(st):
            _fail(self.rel, st, "store after the counter was advanced")
        # the initialisation must precede the loop nest, at the same level
        if body.index(top[0]) > body.index(loopstack[0][2]):
            _fail(self.rel, st, "counter initialised after the loop nest")
        trips = {(): 1}
        nnb = None
        for v, b, node in loopstack:
            if b is None:
                _fail(self.rel, node, "loop without range(...) bound around a counted store")
            if isinstance(b, ast.Name) and sc.single(b.id) is not None and isinstance(sc.single(b.id), ast.BinOp) \
                    and isinstance(sc.single(b.id).op, ast.Sub):
                d = sc.single(b.id)
                hi_ok = isinstance(d.left, ast.Subscript) and sc.atom(d.left.value) == ptr and \
                    sc.poly(d.left.slice) == {(): 1, (pvar,): 1}
                lo_ok = isinstance(d.right, ast.Subscript) and sc.atom(d.right.value) == ptr and \
                    sc.poly(d.right.slice) == {(pvar,): 1}
                if not (hi_ok and lo_ok):
                    _fail(self.rel, node, "range of %s is not %s[1 + %s] - %s[%s]" % (b.id, ptr, pvar, ptr, pvar))
                if nnb is not None:
                    _fail(self.rel, node, "two row-length loops")
                nnb = b.id
                continue
            trips = pmul(trips, sc.poly(b))
        if nnb is None or trips != K:
            _fail(self.rel, st, "trip counts of the loop nest do not multiply to K * (%s[1+%s] - %s[%s])" % (ptr, pvar, ptr, pvar))
        kx = coq_expr(K)
        rec.update(cls="OwnCsrRange", ptr=ptr, K=kx, counter=cvar)
        self.writes.append(rec)

    # -- purity of everything else ------------------------------------------------------------------
    def param_stores(self):
        """Functions that store into (a subscript of) one of their parameters."""
        out = {}
        for f in self.funcs.values():
            ps = {a.arg for a in f.args.args}
            for n in ast.walk(f):
                tg = n.targets if isinstance(n, ast.Assign) else [n.target] if isinstance(n, ast.AugAssign) else []
                for t in tg:
                    if isinstance(t, ast.Subscript) and isinstance(t.value, ast.Name) and t.value.id in ps:
                        out.setdefault(f.name, set()).add(t.value.id)
        return out


def q(s):
    return '"%s"' % s.replace('"', "'")


def footprints(ctx):
    allw, loops, summary = [], [], {}
    for rel in FILES:
        path = ctx.src(rel)
        tree = ast.parse(open(path).read())
        an = Analysis(path, rel, tree)
        par = [f for f in an.funcs.values() if is_parallel(f)]
        for f in an.funcs.values():
            if not is_parallel(f):
                continue
            an.analyse_function(f)
        # every other function of the file must leave its parameters alone (kernels, geometry helpers are pure)
        ok = {f.name for f in par} | an.followed
        for name, arrs in an.param_stores().items():
            if name not in ok:
                raise TieBroken("%s: function %s stores into its parameter(s) %s but is not an analysed kernel"
                                % (rel, name, sorted(arrs)))
        for f in par:
            # stores of a parallel function outside its prange loops happen before/after the threads run
            pass
        allw += [dict(w, file=rel) for w in an.writes]
        loops += [(rel, a, b) for a, b in an.loops]
        summary[rel] = {"parallel_functions": len(par), "prange_loops": len(an.loops), "stores": len(an.writes),
                        "followed_callees": sorted(an.followed)}
    if not loops:
        raise TieBroken("no prange loop found")
    # ---- emit
    L = ["(* generated by translators/footprints.py from %s -- do not edit *)" % ", ".join(FILES),
         "From Coq Require Import List String Arith Lia.", "From BV Require Import Concurrency.FootprintFacts.",
         "Import ListNotations.", "Open Scope string_scope.", "Open Scope nat_scope.", ""]
    names = []
    k = 0
    for w in allw:
        k += 1
        nm = "w%d" % k
        names.append(nm)
        if w["cls"] == "Private":
            cls = "Private"
        elif w["cls"] == "OwnColumn":
            cls = "OwnColumn"
        elif w["cls"] == "RowOfDof":
            cls = "RowOfDof %s %s" % (q(w["dofs"]), q(w["elems"]))
        elif w["cls"] == "OwnCsrRange":
            cls = "OwnCsrRange %s (fun env : string -> nat => %s)" % (q(w["ptr"]), w["K"])
        else:
            cls = "OwnSlot %s [%s] (fun env : string -> nat => %s)" % (
                q(w["pvar"]), "; ".join("(%s, fun env : string -> nat => %s)" % (q(d), r)
                                        for d, r in zip(w["digits"], w["radices"])), w["expr"])
        L.append("Definition %s : write := mkwrite %s %d %d %s %s\n  (%s)." % (
            nm, q(w["fn"]), w["loop"], w["line"], q(w["array"]), q(w["src"]), cls))
        if w["cls"] == "OwnSlot":
            # the source expression (expanded) equals the canonical mixed-radix form, for every environment
            L.append("Lemma %s_canonical : slot_canonical %s.\nProof. unfold slot_canonical, %s; cbn; intros env; ring. Qed." % (nm, nm, nm))
    L.append("")
    L.append("Definition footprints : list write := [%s]." % "; ".join(names))
    L.append("Definition prange_loops : list (string * string * nat) := [%s]." % "; ".join(
        "(%s, %s, %d)" % (q(r), q(a), b) for r, a, b in loops))
    slot_names = [n for n, w in zip(names, allw) if w["cls"] == "OwnSlot"]
    L.append("Lemma all_slots_canonical : forall w, In w footprints -> slot_canonical w.")
    L.append("Proof.\n  intros w H. cbv [footprints In] in H.\n  repeat (destruct H as [<-|H]; [first [" +
             " | ".join("exact %s_canonical" % n for n in slot_names) +
             " | (unfold slot_canonical; cbn; exact I)] |]).\n  contradiction.\nQed.")
    L.append("")
    ctx.write_gen("Footprints.v", "\n".join(L) + "\n")
    return {"writes": [{k2: v for k2, v in w.items() if k2 != "poly"} for w in allw], "loops": loops, "summary": summary}
