"""Driver: ./check Cxx --tier quick|thorough [--replay F]   (see DESIGN.md §3.3/3.4)."""
import argparse
import importlib
import json
import os
import sys
import traceback

sys.path.insert(0, os.path.dirname(os.path.dirname(os.path.abspath(__file__))))
from lib import vlib  # noqa: E402


def main():
    ap = argparse.ArgumentParser()
    ap.add_argument("pid")
    ap.add_argument("--tier", default=os.environ.get("VERIF_TIER") or "quick")
    ap.add_argument("--replay")
    a = ap.parse_args()
    tier = a.tier if a.tier in ("quick", "thorough") else "quick"
    seed = int(os.environ.get("VERIF_SEED", "0") or 0)
    ctx = vlib.Ctx(a.pid, tier, seed)
    try:
        mod = importlib.import_module("props." + a.pid)
    except ImportError:
        print("no such property check: " + a.pid)
        return 2
    ctx.targets, ctx.prop_file = list(mod.COQ_TARGETS), mod.PROP_FILE
    extra_props = list(getattr(mod, "PROP_FILES_THOROUGH", [])) if tier == "thorough" else []
    if tier == "thorough":
        ctx.targets += list(getattr(mod, "COQ_TARGETS_THOROUGH", [])) + [f[:-2] + ".vo" for f in extra_props]
    if a.replay:
        ctx.replay = json.load(open(a.replay))
        try:
            mod.replay(ctx)
        except Exception:
            ctx.problem("harness", "replay crashed", traceback.format_exc())
        return vlib.finish(ctx, extra_trusted=getattr(mod, "TRUSTED", ()), assumptions=getattr(mod, "ASSUMPTIONS", ()))
    stage = "regen"
    try:
        mod.regen(ctx)
        stage = "prove"
        built = ctx.coq_build(ctx.targets, timeout=2400 if tier == "thorough" else 1500)
        hits = vlib.gate_grep(vlib.dep_cone(ctx.targets))
        if hits:
            ctx.problem("proof", "forbidden vernacular in the development", hits)
        if built:
            ctx.coq_props(ctx.prop_file)
            for f in extra_props:
                ob, di, ax = list(ctx.obligations), list(ctx.discharged), dict(ctx.axioms)
                ctx.coq_props(f)
                ctx.obligations, ctx.discharged = ob + ctx.obligations, di + ctx.discharged
                ax.update(ctx.axioms)
                ctx.axioms = ax
            if tier == "thorough" and os.environ.get("VERIF_COQCHK", "1") == "1":
                rc, out = vlib.sh(["coqchk", "-silent", "-o"] + vlib.COQ_Q + ["BVprops." + a.pid], timeout=5400,
                                  cwd=vlib.COQ)
                ctx.note("coqchk rc=%d%s: %s" % (rc, " (timed out: independent re-check not completed, not a rejection)"
                                                 if rc == 124 else "", out[-1500:]))
                if rc not in (0, 124):
                    ctx.problem("proof", "coqchk rejected the compiled property file", out)
        else:
            import re
            txt = open(os.path.join(vlib.COQ, ctx.prop_file)).read()
            ctx.obligations = re.findall(r'^\s*Theorem\s+(\w+)', txt, re.M)
        stage = "correspond"
        if hasattr(mod, "correspond"):
            mod.correspond(ctx)
        stage = "search"
        strength = "thorough" if (tier == "thorough" or ctx.problems) else "quick"
        ctx.search_info["strength"] = strength
        if hasattr(mod, "search"):
            mod.search(ctx, strength)
    except Exception:
        ctx.problem("harness", "check crashed in stage " + stage, traceback.format_exc())
    return vlib.finish(ctx, extra_trusted=getattr(mod, "TRUSTED", ()), assumptions=getattr(mod, "ASSUMPTIONS", ()))


if __name__ == "__main__":
    sys.exit(main())
