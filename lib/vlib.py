"""Shared machinery of the /verif checks (driver side; stdlib only).

A property module props/Cxx.py defines
    ID, TITLE, META (manifest texts), COQ_TARGETS, PROP_FILE
    regen(ctx)      -> None        run translators on the current /repo tree (ctx.tie_problem on fail-closed)
    correspond(ctx) -> None        model-vs-implementation correspondence (ctx.corr_*), optional
    search(ctx, strength) -> None  failing-input search on the implementation (ctx.failure(...))
and lib.main drives: regen -> prove -> correspond -> search -> verdict -> evidence.
"""
import fcntl
import hashlib
import json
import os
import re
import subprocess
import sys
import time

ROOT = os.path.dirname(os.path.dirname(os.path.abspath(__file__)))
REPO = os.environ.get("VERIF_REPO", "/repo")
PY = "/venv/bin/python"
COQ = os.path.join(ROOT, "coq")
SCRATCH = os.path.join(ROOT, ".scratch")
COQ_Q = ["-Q", "theories", "BV", "-Q", "gen", "BVgen", "-Q", "props", "BVprops"]


def sh(cmd, timeout=900, cwd=None, env=None, stdin=None):
    """Run a command (list), return (rc, combined output). rc=124 on timeout."""
    try:
        p = subprocess.run(cmd, cwd=cwd, env=env, input=stdin, timeout=timeout,
                           stdout=subprocess.PIPE, stderr=subprocess.STDOUT, text=True)
        return p.returncode, p.stdout
    except subprocess.TimeoutExpired as e:
        out = e.stdout or ""
        if isinstance(out, bytes):
            out = out.decode("utf8", "replace")
        return 124, out + "\n[timeout after %ss]" % timeout


def sha(path):
    with open(path, "rb") as f:
        return hashlib.sha256(f.read()).hexdigest()[:16]


class TieBroken(Exception):
    """Raised by a translator that meets a construct outside its subset (fail closed)."""


class Ctx:
    def __init__(self, pid, tier, seed):
        self.pid, self.tier, self.seed = pid, tier, seed
        self.t0 = time.time()
        self.sources = {}          # repo-relative path -> sha
        self.problems = []         # tie / proof / correspondence breaks: {kind, what, detail}
        self.failures = []         # concrete failing inputs on the implementation: {signature, what, data}
        self.obligations = []      # theorem names of the property file
        self.discharged = []
        self.axioms = {}           # theorem -> [axiom names]
        self.corr = {"evaluations": 0, "distinct_nontrivial": 0, "disagreements": 0, "samples": [],
                     "histogram": {}, "rule": ""}
        self.search_info = {"evaluations": 0, "strength": "", "notes": []}
        self.notes = []
        self.trusted = []
        self.scratch = os.path.join(SCRATCH, pid)
        os.makedirs(self.scratch, exist_ok=True)

    # ---- bookkeeping -------------------------------------------------------
    def src(self, rel):
        """Register and return the absolute path of a /repo source the check reads."""
        p = os.path.join(REPO, rel)
        self.sources[rel] = sha(p) if os.path.exists(p) else "missing"
        return p

    def problem(self, kind, what, detail=""):
        self.problems.append({"kind": kind, "what": what, "detail": str(detail)[-4000:]})

    def failure(self, signature, what, data=None):
        self.failures.append({"signature": signature, "what": what, "data": data})

    def note(self, s):
        self.notes.append(s)

    # ---- translators -------------------------------------------------------
    def write_gen(self, name, text):
        """Write coq/gen/<name> only if its content changed (keeps make incremental)."""
        p = os.path.join(COQ, "gen", name)
        os.makedirs(os.path.dirname(p), exist_ok=True)
        old = open(p).read() if os.path.exists(p) else None
        if old != text:
            with open(p + ".tmp", "w") as f:
                f.write(text)
            os.replace(p + ".tmp", p)
        return p

    def translate(self, fn, *a, **k):
        """Run a translator; fail closed into a 'tie' problem."""
        try:
            return fn(self, *a, **k)
        except TieBroken as e:
            self.problem("tie", "translator %s failed closed" % getattr(fn, "__name__", fn), e)
        except Exception as e:  # any crash of a translator is also a broken tie
            import traceback
            self.problem("tie", "translator %s crashed" % getattr(fn, "__name__", fn), traceback.format_exc())
        return None

    # ---- implementation side ----------------------------------------------
    def run_impl(self, script, payload=None, timeout=1500, threads=None, extra_env=None):
        """Run harness/<script> under the repo's interpreter against REPO; JSON in (stdin) / JSON out (last line
        starting with '@@JSON ')."""
        env = dict(os.environ)
        env.update({"PYTHONPATH": REPO + os.pathsep + os.path.join(ROOT, "harness"), "PYTHONHASHSEED": "0",
                    "VERIF_ROOT": ROOT, "VERIF_REPO": REPO, "VERIF_SEED": str(self.seed), "VERIF_TIER": self.tier,
                    "BEMPP_CL_VERIF": "1", "MPLBACKEND": "Agg"})
        if threads:
            env["NUMBA_NUM_THREADS"] = str(threads)
        if extra_env:
            env.update(extra_env)
        rc, out = sh([PY, os.path.join(ROOT, "harness", script)], timeout=timeout, cwd=self.scratch, env=env,
                     stdin=json.dumps(payload if payload is not None else {}))
        res = None
        for line in out.splitlines():
            if line.startswith("@@JSON "):
                res = json.loads(line[7:])
        if res is None:
            self.problem("harness", "harness %s produced no result (rc=%s)" % (script, rc), out)
        return res

    # ---- Coq side ----------------------------------------------------------
    def coq_build(self, targets, timeout=1500):
        rc, out = coq_make(targets, timeout)
        if rc != 0:
            m = re.findall(r'File "([^"]+)", line (\d+)', out)
            where = ("%s:%s" % m[-1]) if m else "?"
            self.problem("proof", "coq build failed at %s (rc=%s)" % (where, rc), out)
        return rc == 0

    def coq_props(self, prop_file):
        """Re-run coqc on the property file to collect theorems and Print Assumptions output."""
        path = os.path.join(COQ, prop_file)
        text = open(path).read()
        self.obligations = re.findall(r'^\s*Theorem\s+(\w+)', text, re.M)
        bad = [l for l in text.splitlines() if re.match(r'\s*(Lemma|Definition|Fixpoint|Axiom|Parameter|Admitted)\b', l)]
        if bad:
            self.problem("proof", "property file %s contains more than Theorem/exact/Print Assumptions" % prop_file, bad)
        rc, out = sh(["coqc"] + COQ_Q + [prop_file], timeout=600, cwd=COQ)
        if rc != 0:
            m = re.search(r'line (\d+)', out)
            line = int(m.group(1)) if m else 0
            done = re.findall(r'^\s*Theorem\s+(\w+)', "\n".join(text.splitlines()[:max(line - 1, 0)]), re.M)
            self.discharged = done[:-1] if done else []
            self.problem("proof", "property file %s no longer checks" % prop_file, out)
            return False
        self.discharged = list(self.obligations)
        # parse Print Assumptions blocks in order
        blocks = re.split(r'(?m)^(?=Closed under the global context|Axioms:)', out)
        blocks = [b for b in blocks if b.startswith("Closed") or b.startswith("Axioms:")]
        names = re.findall(r'Print Assumptions\s+(\w+)', text)
        for n, b in zip(names, blocks):
            ax = [] if b.startswith("Closed") else [x for x in re.findall(r'(?m)^([A-Za-z_][\w\.]*)\s*:', b)
                                                    if x != "Axioms"]
            self.axioms[n] = sorted(set(ax))
        missing = [t for t in self.obligations if t not in self.axioms]
        if missing:
            self.problem("proof", "no Print Assumptions under: %s" % ",".join(missing))
        return True

    def coq_eval(self, name, body, timeout=900):
        """Evaluate a generated cases file inside Coq; returns stdout. body must Require the model itself."""
        d = os.path.join(self.scratch, "coqcases")
        os.makedirs(d, exist_ok=True)
        p = os.path.join(d, name + ".v")
        with open(p, "w") as f:
            f.write(body)
        rc, out = sh(["coqc", "-Q", os.path.join(COQ, "theories"), "BV", "-Q", os.path.join(COQ, "gen"), "BVgen",
                      "-Q", d, "Cases", p], timeout=timeout, cwd=d)
        if rc != 0:
            self.problem("correspondence", "model evaluation %s failed in coqc" % name, out)
            return None
        return out


def dep_cone(targets):
    """.v files in the dependency cone of the make targets (from coq/.Makefile.d); None if unknown."""
    try:
        deps = {}
        for line in open(os.path.join(COQ, ".Makefile.d")):
            if ".vo " not in line.split(":")[0] + " " or ":" not in line:
                continue
            lhs, rhs = line.split(":", 1)
            vo = [x for x in lhs.split() if x.endswith(".vo")]
            if vo:
                deps[vo[0]] = [x for x in rhs.split() if x.endswith(".vo")]
        seen, todo = set(), [t for t in targets]
        while todo:
            t = todo.pop()
            if t in seen:
                continue
            seen.add(t)
            todo.extend(deps.get(t, []))
        return {t[:-1] for t in seen}
    except Exception:
        return None


def gate_grep(cone=None):
    """Reject forbidden vernacular under coq/ (sources only); restricted to the files of `cone` when given."""
    pat = re.compile(r'\b(Admitted|admit|Axiom|Axioms|Parameter|Parameters|Conjecture|Admit Obligations|'
                     r'bypass_check|Unset Guard Checking|Unset Positivity Checking|Unset Universe Checking|'
                     r'type-in-type|impredicative-set)\b')
    hits = []
    for base, _, files in os.walk(COQ):
        for fn in files:
            if fn.endswith(".v"):
                p = os.path.join(base, fn)
                if cone is not None and os.path.relpath(p, COQ) not in cone:
                    continue
                txt = open(p).read()
                txt = re.sub(r'\(\*.*?\*\)', '', txt, flags=re.S)
                for i, l in enumerate(txt.splitlines(), 1):
                    if pat.search(l):
                        hits.append("%s:%d: %s" % (os.path.relpath(p, COQ), i, l.strip()))
    return hits


def coq_makefile():
    """(Re)generate _CoqProject and Makefile when the set of .v files changed."""
    files = []
    for sub in ("theories", "gen", "props"):
        for base, _, fs in os.walk(os.path.join(COQ, sub)):
            for fn in fs:
                if fn.endswith(".v"):
                    files.append(os.path.relpath(os.path.join(base, fn), COQ))
    files.sort()
    listing = "\n".join(files)
    fl = os.path.join(COQ, ".filelist")
    if os.path.exists(fl) and open(fl).read() == listing and os.path.exists(os.path.join(COQ, "Makefile")):
        return
    with open(os.path.join(COQ, "_CoqProject"), "w") as f:
        f.write("-Q theories BV\n-Q gen BVgen\n-Q props BVprops\n-arg -w -arg -all\n" + listing + "\n")
    rc, out = sh(["coq_makefile", "-f", "_CoqProject", "-o", "Makefile"], cwd=COQ)
    if rc != 0:
        raise RuntimeError("coq_makefile failed: " + out)
    with open(fl, "w") as f:
        f.write(listing)


def coq_make(targets, timeout=1500, jobs=16):
    os.makedirs(SCRATCH, exist_ok=True)
    with open(os.path.join(SCRATCH, "coq.lock"), "w") as lk:
        fcntl.flock(lk, fcntl.LOCK_EX)
        coq_makefile()
        return sh(["timeout", str(timeout), "make", "-j%d" % jobs] + list(targets), timeout=timeout + 30, cwd=COQ)


def known_findings():
    p = os.path.join(ROOT, "known_findings.json")
    return json.load(open(p)) if os.path.exists(p) else []


def finish(ctx, level="proof", extra_trusted=(), assumptions=()):
    """Verdict + evidence. Returns the process exit status."""
    known = {k["signature"]: k for k in known_findings() if k["property"] == ctx.pid and k["status"] == "finding"}
    hits_known, unknown = [], []
    seen = set()
    for f in ctx.failures:
        if f["signature"] in seen:
            continue
        seen.add(f["signature"])
        (hits_known if f["signature"] in known else unknown).append(f)
    rdir = os.path.join(ROOT, "replays", ctx.pid)
    lines, violations = [], 0
    for f in hits_known:
        lines.append("KNOWN-FINDING: property=%s %s [%s]" % (ctx.pid, known[f["signature"]]["what"], f["signature"]))
    if unknown:
        os.makedirs(rdir, exist_ok=True)
        for i, f in enumerate(unknown):
            rp = os.path.join(rdir, "%s_%d.json" % (re.sub(r'\W+', '_', f["signature"])[:60], i))
            json.dump({"property": ctx.pid, "kind": "failing-input", "seed": ctx.seed, "tier": ctx.tier,
                       "signature": f["signature"], "what": f["what"], "input": f["data"],
                       "broken_obligations": ctx.problems}, open(rp, "w"), indent=1, default=str)
            lines.append("VIOLATION property=%s replay=%s" % (ctx.pid, rp))
            violations += 1
    elif ctx.problems:
        os.makedirs(rdir, exist_ok=True)
        rp = os.path.join(rdir, "unproved_%d.json" % ctx.seed)
        json.dump({"property": ctx.pid, "kind": "no-failing-input-found", "seed": ctx.seed, "tier": ctx.tier,
                   "no_longer_checks": ctx.problems, "search": ctx.search_info}, open(rp, "w"), indent=1, default=str)
        lines.append("VIOLATION property=%s replay=%s no-failing-input-found" % (ctx.pid, rp))
        violations += 1
    ax = sorted({a for v in ctx.axioms.values() for a in v if a != "Axioms"})
    prim = [a for a in ax if a.startswith("PrimInt63.") or a.startswith("Uint63.") or a.startswith("PrimFloat.")]
    if prim:
        ax = [a for a in ax if a not in prim] + [
            "Coq primitive 63-bit integers (kernel primitives PrimInt63.* and the standard library's Uint63.*_spec "
            "axioms about them; %d names, used through Bignums BigZ)" % len(prim)]
    trusted = ["Coq 8.16.1 kernel (coqc, vm_compute; no native_compute)"] + \
              ["axiom (Coq standard library / installed library, via Print Assumptions): " + a for a in ax] + \
              list(ctx.trusted) + list(extra_trusted)
    cov = {
        "obligations": len(ctx.obligations), "discharged": len(ctx.discharged),
        "checker_cmd": "make -C /verif/coq %s && coqc %s (Print Assumptions)" % (
            " ".join(getattr(ctx, "targets", [])), getattr(ctx, "prop_file", "")),
        "trusted_base": trusted,
        "theorems": ctx.obligations,
        "axioms_per_theorem": {t: sorted({("Coq-primitive-int63 (PrimInt63.*, Uint63.*_spec)" if a.startswith(
            ("PrimInt63.", "Uint63.")) else a) for a in v}) for t, v in ctx.axioms.items()},
        "evaluations": ctx.corr["evaluations"] + ctx.search_info["evaluations"],
        "distinct_nontrivial": ctx.corr["distinct_nontrivial"],
        "rule": ctx.corr["rule"], "samples": ctx.corr["samples"][:6] or [{"obligations": ctx.obligations[:6]}],
        "correspondence": {k: ctx.corr[k] for k in ("evaluations", "distinct_nontrivial", "disagreements", "histogram")},
        "search": ctx.search_info, "source_hashes": ctx.sources,
        "broken": ctx.problems, "known_findings_hit": [f["signature"] for f in hits_known],
        "notes": ctx.notes,
    }
    ev = {"property_id": ctx.pid, "tier": ctx.tier, "seed": ctx.seed, "level": level, "coverage": cov,
          "assumptions": list(assumptions), "wall_s": round(time.time() - ctx.t0, 1), "violations": violations}
    os.makedirs(os.path.join(ROOT, "evidence"), exist_ok=True)
    with open(os.path.join(ROOT, "evidence", ctx.pid + ".json"), "w") as f:
        json.dump(ev, f, indent=1, default=str)
    for l in lines:
        print(l)
    for p in ctx.problems:
        print("BROKEN[%s] %s" % (p["kind"], p["what"]))
    print("%s tier=%s seed=%d obligations=%d discharged=%d corr=%d/%d search=%d wall=%.0fs -> %s" % (
        ctx.pid, ctx.tier, ctx.seed, len(ctx.obligations), len(ctx.discharged), ctx.corr["disagreements"],
        ctx.corr["evaluations"], ctx.search_info["evaluations"], time.time() - ctx.t0,
        "VIOLATION" if violations else "ok"))
    sys.stdout.flush()
    return 1 if violations else 0
