#!/bin/sh
# Build the whole Coq development against the current /repo tree (offline). Idempotent.
cd "$(dirname "$0")" || exit 2
mkdir -p .scratch coq/gen evidence
/venv/bin/python -B tools/regen_all.py || exit 1
/venv/bin/python -B -c "
import sys; sys.path.insert(0,'.')
from lib import vlib
rc,out=vlib.coq_make([], timeout=3000)
print(out[-3000:])
sys.exit(rc)"
