#!/bin/sh
# Build the whole Coq development against the current /repo tree (offline). Idempotent.
cd "$(dirname "$0")" || exit 2
mkdir -p .scratch coq/gen evidence
/venv/bin/python -B tools/regen_all.py
# -k: one property's broken file must not stop the others from being built; each check rebuilds its own cone
# and reports a failure there as a broken proof obligation.
/venv/bin/python -B -c "
import sys; sys.path.insert(0,'.')
from lib import vlib
rc,out=vlib.coq_make(['-k'], timeout=3400)
print(out[-3000:])
print('setup: coq build rc=%d (non-zero is reported by the affected checks, not here)' % rc)"
exit 0
