"""C02 Laplace potential operators reproduce Green's representation formula (provable logic part)."""
from props import _assemblyb as ab
from translators import py_kernels

ID = "C02"
PROP_FILE = "props/C02.v"
COQ_TARGETS = ["props/C02.vo", "theories/AssemblyB/Corr.vo"]
TRUSTED = [
    "hand model coq/theories/AssemblyB/PotModel.v of DensePotentialAssembler + default_scalar_potential_kernel + "
    "map_to_full_grid (tie H): corresponded on every run against the real potential pipeline of bempp-cl executed on the "
    "Python body (.py_func) of the Numba potential assembler with a surrogate polynomial kernel "
    "(harness/c02_impl.py, bcommon.py); exact model evaluation inside Coq; tolerance 1e-11*max",
    "Numba compilation of the same function body and IEEE rounding are not modelled",
]
ASSUMPTIONS = [
    "ANALYTIC GAP: Green's third identity (SLP[du/dn] - DLP[u] = u inside, 0 outside for harmonic u) and the "
    "convergence of the quadrature to the surface integrals are not proved; they are exercised on the implementation "
    "by the convergence search (orders 8, 10, 12; 1e-6 relative)",
    "relative sign / normalisation / normal orientation of the two Laplace kernels: kernel-derivative lemmas "
    "laplace_dl_is_normal_derivative / laplace_adl_is_normal_derivative (Kernels/LaplaceDerivs.v, another engineer) "
    "are to be added to props/C02.v by the lead",
]
SRC = ["bempp_cl/core/dense_potential_assembler.py", "bempp_cl/core/numba_kernels.py",
       "bempp_cl/core/numba_assemblers.py", "bempp_cl/api/assembly/potential_operator.py",
       "bempp_cl/api/operators/potential/laplace.py", "bempp_cl/api/space/space.py"]


def regen(ctx):
    for s in SRC:
        ctx.src(s)
    ctx.nb = ctx.translate(py_kernels.numba_kernels)  # gen/NumbaKernels.v for the kernel-derivative theorem


def correspond(ctx):
    strength = "thorough" if ctx.tier == "thorough" else "quick"
    ab.start_search(ctx, "c02_impl.py", {"mode": "search", "strength": strength, "seed": ctx.seed})
    res = ctx.run_impl("c02_impl.py", {"mode": "corr", "strength": strength, "seed": ctx.seed}, timeout=1500, threads=ab.THREADS)
    if res is None:
        return
    outs = ab.eval_many(ctx, [("c02pot%d" % i, ab.potential_body(c)) for i, c in enumerate(res["pots"])])
    ab.judge_cases(ctx, res["pots"], outs, "c02pot", "potential operator", lambda c: len(c["impl"]))
    ctx.corr["histogram"] = {"potential_cases": [c["name"] for c in res["pots"]],
                             "with_dof_transformation": sum(1 for c in res["pots"] if c["requires_dt"]),
                             "harness_wall_s": round(res["wall"], 1)}
    ctx.corr["samples"] = [{"case": c["name"], "support": c["supp"], "points": len(c["points"]),
                            "first_impl_value": c["impl"][0]} for c in res["pots"][:3]]
    ctx.corr["rule"] = ("one evaluation = the potential at one point for one coefficient vector, computed by the real "
                        "pipeline (coefficients through map_to_full_grid.dof_transformation, Python body of "
                        "default_scalar_potential_kernel, surrogate kernel) and compared with the exact model value; "
                        "non-trivial = model value not exactly zero")


def search(ctx, strength):
    if strength == "thorough" and ctx.tier != "thorough":
        strength = "escalated"      # something broke in a quick run: all thorough configurations, Python bodies only
    res = ab.finish_search(ctx, "c02_impl.py", {"mode": "search", "strength": strength, "seed": ctx.seed})
    ab.report_search(ctx, res)


def replay(ctx):
    regen(ctx)
    search(ctx, "thorough")


META = {
    "technique": "Coq proof of the logic part over a hand model of the potential assembler (kernel, rule, geometry, "
                 "space, ring universally quantified) + correspondence with the real potential pipeline run on the "
                 "assembler's Python body with surrogate kernels; the analytic representation formula is only "
                 "exercised by a convergence search",
    "level_text": "Theorems in coq/props/C02.v: coefficients reach the kernel as mult[e,i]*c[l2g[e,i]] on the support and "
                  "0 elsewhere; the modelled potential is exactly the kernel sum over the support's quadrature points "
                  "with normals scaled by the normal multipliers; it is linear, independent of the element order and "
                  "exactly additive over partitions of the support (whole grid = sum over segments). C02_partial is "
                  "the conjunction; the representation formula itself is NOT proved.",
    "level_note": "Trusted: Coq kernel; the hand model (tied by correspondence, 1e-11); Numba compilation; IEEE "
                  "arithmetic. Gap: potential theory (Green's identity) and quadrature convergence - search only "
                  "(errors 3e-10 -> 1e-13 observed at orders 8..12).",
    "design_ref": "DESIGN.md §7 C02",
}
