"""C09 Function spaces are conforming and their DOF maps are coherent."""
from fractions import Fraction
import math

from props import _spacecorr as S

ID = "C09"
PROP_FILE = "props/C09.v"
COQ_TARGETS = ["props/C09.vo", "theories/Space/Corr.vo", "theories/Space/RefCorr.vo", "theories/Space/GridOk.vo"]
TRUSTED = [
    "correspondence harness harness/c09_impl.py + theories/Space/Corr.v, RefCorr.v (the builders' inputs and outputs "
    "are dumped from the real API and diffed against the hand-written Gallina models inside Coq)",
    "the grid tables (elements, element_edges, edge_neighbors, vertex_neighbors, vertex_on_boundary, domain_indices) "
    "are inputs of the models; their consistency (grid_ok) is evaluated in Coq on every grid used, proved by C11",
    "NumPy/Numba semantics of the builders' loops (modelled by hand, tied by the exhaustive sweep)",
]
ASSUMPTIONS = [
    "BC/RBC and DUAL0/DUAL1 spaces are not modelled here (their colouring is checked by C16, their coefficients by C10)",
    "Continuity theorems are combinatorial (same dof and multiplier at shared vertices / the +1,-1 pattern on shared "
    "edges) plus reference-element identities over a field; that GridFunction.evaluate composes them as modelled is "
    "exercised by the search, not proved",
    "Orientation consistency of the grid (adjacent elements traverse a shared edge in opposite directions) is a "
    "hypothesis of the normal/tangential continuity conclusion",
]
META = {
    "technique": "Coq proof: loop invariants over hand-written Gallina models of _process_segments, DP0/DP1, "
                 "_compute_p1_dof_map, _compute_rwg0_space_data, invert_local2global; reference-element identities over an "
                 "abstract field; correspondence by exhaustive sub-complex sweep evaluated inside Coq",
    "level_text": "Theorems in coq/props/C09.v for all grids satisfying grid_ok (checked on every grid of the run), all "
                  "supports, all four flag combinations: global2local inverts local2global on non-zero multipliers; P1 "
                  "selected vertices exactly as the flags specify, dof = rank of the vertex, same (dof, multiplier) at "
                  "shared vertices; RWG/SNC every dof is a grid edge, +1/-1 pattern (smaller element index +1), lone +1 "
                  "only with include_boundary_dofs, elements without dofs leave the support, no uint32 wrap; "
                  "global_dof_count = number of selected vertices / edges for non-empty selections (refuted for empty "
                  "ones: phantom dof); alias closure of zero-multiplier entries; reference facts (P1 nodal, partition of "
                  "unity, RWG normal trace = multiplier on own edge and 0 elsewhere, SNC tangential trace = normal "
                  "multiplier * that) over any field without square roots.",
    "level_note": "Trusted: Coq kernel; the correspondence harness (8 600 spaces in the thorough tier, all sub-complexes of "
                  "an octahedron and a 2x2 screen x kinds x options, segments, swapped normals, non-manifold fan, random "
                  "soups); grid tables are inputs. Not modelled: BC/RBC/DUAL spaces, barycentric coefficient tables; "
                  "evaluate()/GridFunction glue only searched.",
    "design_ref": "DESIGN.md §7 C09",
}
MANIFOLD_EXPECTED = {  # fan, two-tets-glued, t-junction and the soups are non-manifold on purpose
    "octahedron", "screen2x2", "two-components", "cube12", "torus3x3"}


def regen(ctx):
    for rel in ("bempp_cl/api/space/space.py", "bempp_cl/api/space/scalar_spaces.py", "bempp_cl/api/space/maxwell_spaces.py",
                "bempp_cl/api/space/shapesets.py"):
        ctx.src(rel)


def _q(p):
    n, d = p
    return "(%s # %d)" % (n if n >= 0 else "(%d)" % n, d)


def _qv(v):
    return "(%s, %s, %s)" % tuple(_q(c) for c in v)


def _sqrt_fraction(fr):
    n, d = fr.numerator, fr.denominator
    rn, rd = math.isqrt(n), math.isqrt(d)
    if rn * rn != n or rd * rd != d:
        raise ValueError("edge length of the reference triangle is not rational")
    return Fraction(rn, rd)


def _reference_cases(ctx, ref):
    pts = ref["pts"]
    sh = ["((%s, %s), [%s], [%s], %s)" % (_q(pts[i][0]), _q(pts[i][1]), "; ".join(_q(x) for x in ref["p1"][i]),
                                         "; ".join("(%s, %s)" % (_q(a), _q(b)) for a, b in ref["rwg_ref"][i]),
                                         _q(ref["p0"][i])) for i in range(len(pts))]
    t = ref["tables"]
    V = [[Fraction(*c) for c in v] for v in ref["vertices"]]
    elems = []
    for e, ev in enumerate(t["elems"]):
        p = [V[v] for v in ev]
        sub = lambda a, b: [x - y for x, y in zip(a, b)]
        tang = [sub(p[1], p[0]), sub(p[0], p[2]), sub(p[2], p[1])]
        ls = [_sqrt_fraction(sum(c * c for c in tv)) for tv in tang]
        a, b = sub(p[1], p[0]), sub(p[2], p[0])
        n = [a[1] * b[2] - a[2] * b[1], a[2] * b[0] - a[0] * b[2], a[0] * b[1] - a[1] * b[0]]
        A = _sqrt_fraction(sum(c * c for c in n))
        fq = lambda f: _q((f.numerator, f.denominator))
        vals = lambda kind: "[" + "; ".join("[" + "; ".join(_qv(fv) for fv in per_pt) + "]" for per_pt in ref[kind]["values"][e]) + "]"
        m = ref["RWG"]["mult"][e]
        if ref["SNC"]["mult"][e] != m:
            ctx.problem("correspondence", "RWG and SNC multipliers differ on the reference grid")
        elems.append("(mkelem (%s, %s, %s) (%s, %s, %s) (%s, %s, %s) [%s] %s [%s] (%d # 1) [%s] %s %s)" % (
            fq(p[0][0]), fq(p[0][1]), fq(p[0][2]), fq(p[1][0]), fq(p[1][1]), fq(p[1][2]), fq(p[2][0]), fq(p[2][1]), fq(p[2][2]),
            "; ".join(fq(x) for x in ls), fq(A), "; ".join("(%d # 1)" % x for x in m), ref["SNC"]["nm"][e],
            "; ".join("(%s, %s)" % (_q(q[0]), _q(q[1])) for q in pts), vals("RWG"), vals("SNC")))
    body = "\n".join(["From Coq Require Import QArith List.", "From BV Require Import Space.Reference Space.RefCorr.",
                      "Import ListNotations.", "Open Scope Q_scope.",
                      "Definition sh := [%s]." % ";\n".join(sh), "Definition el := [%s]." % ";\n".join(elems),
                      "Eval vm_compute in (failing shapeset_point_ok sh).", "Eval vm_compute in (failing elem_ok el).", ""])
    out = ctx.coq_eval("c09ref", body, timeout=600)
    n = len(sh) + len(elems)
    if out is None:
        return n
    import re
    blocks = re.findall(r'=\s*(\[[^\]]*\])\s*:\s*list nat', out.replace("\n", " "))
    if len(blocks) != 2:
        ctx.problem("correspondence", "could not parse the reference-element evaluation", out[-1500:])
        return n
    for nm, blk in zip(("shapeset values at reference point", "mapped RWG/SNC values on element"), blocks):
        for i in re.findall(r'\d+', blk):
            ctx.corr["disagreements"] += 1
            ctx.problem("correspondence", "reference model and implementation disagree: %s %s" % (nm, i))
    return n


def _grid_hypotheses(ctx, groups):
    """Evaluate the boolean grid_ok / manifold checkers on the tables of every grid of the run."""
    seen, defs, names = set(), [], []
    for g in groups:
        base = g["name"].split("/")[0]
        if base in seen:
            continue
        seen.add(base)
        names.append(base)
        defs.append(S.grid_def("g%d" % len(names), g["tables"]))
    body = S.HEADER + "From BV Require Import Space.GridOk.\n" + "\n".join(defs) + "\nEval vm_compute in [%s].\n" % "; ".join(
        "(gridtab_okb g%d, manifoldb g%d)" % (i + 1, i + 1) for i in range(len(names)))
    out = ctx.coq_eval("c09grids", body, timeout=600)
    res = {}
    if out is None:
        return res
    import re
    pairs = re.findall(r'\(\s*(true|false)\s*,\s*(true|false)\s*\)', out.replace("\n", " "))
    if len(pairs) != len(names):
        ctx.problem("correspondence", "could not parse the grid hypothesis evaluation", out[-1500:])
        return res
    for nme, (ok, man) in zip(names, pairs):
        res[nme] = {"grid_ok": ok == "true", "manifold": man == "true"}
        if ok != "true":
            ctx.corr["disagreements"] += 1
            ctx.problem("correspondence", "the tables of grid '%s' built by the implementation violate grid_ok (the "
                        "hypothesis of the C09 theorems): neighbour tables inconsistent with the element arrays" % nme)
        if nme in MANIFOLD_EXPECTED and man != "true":
            ctx.corr["disagreements"] += 1
            ctx.problem("correspondence", "edge_neighbors of the manifold grid '%s' lists more than two elements on an edge" % nme)
    return res


def _start_search(ctx, strength):
    """The failing-input search runs in its own process, concurrently with the correspondence."""
    import threading
    box = {}

    def work():
        box["res"] = ctx.run_impl("c09_impl.py", {"strength": strength, "parts": ["search"]}, timeout=3000)

    t = threading.Thread(target=work)
    t.start()
    ctx.search_job = (t, box, strength)


def correspond(ctx):
    import time
    strength = "thorough" if ctx.tier == "thorough" else "quick"
    t_enter = time.time()
    ctx.note("stage times: correspond entered %.0f s after start (regen + make under the shared lock + coqc props)" % (t_enter - ctx.t0))
    _start_search(ctx, strength)
    res = ctx.run_impl("c09_impl.py", {"strength": strength, "parts": ["corr"]}, timeout=3000)
    if res is None:
        return
    ctx.impl = res
    groups = res["groups"]
    t1 = time.time()
    import threading
    side = {}
    th = [threading.Thread(target=lambda: side.__setitem__("hyp", _grid_hypotheses(ctx, groups))),
          threading.Thread(target=lambda: side.__setitem__("nref", _reference_cases(ctx, res["reference"])))]
    for t in th:
        t.start()
    n, bad = S.run_groups(ctx, groups, "c09", parallel=8)
    for t in th:
        t.join()
    hyp, nref = side.get("hyp", {}), side.get("nref", 0)
    ctx.note("stage times: harness dump %.0f s, model evaluation in Coq (cases, grid hypotheses, reference; concurrent) "
             "%.0f s" % (t1 - t_enter, time.time() - t1))
    ctx.corr["evaluations"] = n + nref + len(hyp)
    nontrivial = 0
    hist = {"grids": hyp}
    for g in groups:
        for c in g["cases"]:
            k = "%s incl=%s trunc=%s" % (c["kind"], c["incl"], c["trunc"]) if c["kind"] in ("P1", "RWG", "SNC") else c["kind"]
            hist[k] = hist.get(k, 0) + 1
            sel = "segments" if c["segs"] is not None else "support_elements" if c["se"] is not None else "whole grid"
            hist[sel] = hist.get(sel, 0) + 1
            if c["swapped"]:
                hist["swapped normals"] = hist.get("swapped normals", 0) + 1
            if any(0 in r for r, s_ in zip(c["mult"], c["supp"]) if s_):
                hist["spaces with zero-multiplier entries"] = hist.get("spaces with zero-multiplier entries", 0) + 1
            if c["ndofs"] > 1:
                nontrivial += 1
            if not any(c["supp"]):
                hist["empty final support"] = hist.get("empty final support", 0) + 1
    for g in groups:
        hist["group " + g["name"]] = len(g["cases"])
    ctx.corr["distinct_nontrivial"] = nontrivial
    ctx.corr["histogram"] = hist
    ctx.corr["rule"] = ("function spaces built through bempp_cl.api.function_space on the non-empty sub-complexes of an "
                        "octahedron (quick: a seeded third, thorough: all 255) and of a 2x2 screen (quick: a quarter, thorough: "
                        "all 255) as support_elements x {P1, RWG} "
                        "x 4 flag combinations, a seeded eighth (thorough: all) for DP0/DP1/SNC, segment subsets of five "
                        "multi-domain grids with swapped normals, a non-manifold fan, random soups; compared: local2global, "
                        "local_multipliers, support, normal_multipliers, global_dof_count, the builder's own dof count, "
                        "global2local, color_map, colour-sorted elements and indexptr; non-trivial = more than one global dof")
    if groups and groups[0]["cases"]:
        c = groups[0]["cases"][len(groups[0]["cases"]) // 2]
        ctx.corr["samples"] = [{k: c[k] for k in ("kind", "se", "incl", "trunc", "l2g", "mult", "supp", "ndofs", "colour")}]
    # the disagreeing cases are handed to the search, which evaluates the property predicates on exactly these inputs
    ctx.bad_cases = [dict(b["case"], grid=b["group"],
                          grid_arrays={"vertices": b["tables"]["vertices"], "elements": b["tables"]["elems"],
                                       "domain_indices": b["tables"]["dom"]}) for b in bad[:60]]
    for b in bad[:25]:
        ctx.corr["disagreements"] += 1
        ctx.problem("correspondence", "model and implementation disagree on %s of %s on %s" % (
            ", ".join(b["fields"]), b["case"], b["group"]), b["impl"])
    if len(bad) > 25:
        ctx.corr["disagreements"] += len(bad) - 25
        ctx.problem("correspondence", "%d further disagreeing cases" % (len(bad) - 25))


def search(ctx, strength):
    job = getattr(ctx, "search_job", None)
    res = None
    if job is not None:
        job[0].join()
        if job[2] == strength:
            res = job[1].get("res")
    if res is None:
        res = ctx.run_impl("c09_impl.py", {"strength": strength, "parts": ["search"]}, timeout=3000)
    bad_cases = getattr(ctx, "bad_cases", None)
    if bad_cases:
        # first the inputs on which model and implementation disagree: a failing input found here is the replay
        rc = ctx.run_impl("c09_impl.py", {"parts": ["cases"], "cases": bad_cases}, timeout=1500)
        if rc is not None and "cases" in rc:
            ctx.search_info["evaluations"] += rc["cases"]["evals"]
            ctx.search_info["notes"].append({"disagreeing_cases_evaluated": len(bad_cases),
                                             "failures_on_them": len(rc["cases"]["failures"])})
            for f in rc["cases"]["failures"]:
                ctx.failure(f["signature"], f["what"] + " [input on which model and implementation disagree]", f["data"])
    if res is None or "search" not in res:
        return
    s = res["search"]
    ctx.search_info["evaluations"] += s["evals"]
    ctx.search_info["notes"].append({"worst": s["worst"]})
    for f in s["failures"]:
        ctx.failure(f["signature"], f["what"], f["data"])


def replay(ctx):
    regen(ctx)
    inp = (getattr(ctx, "replay", None) or {}).get("input") or {}
    if isinstance(inp, dict) and "grid_arrays" in inp:
        rc = ctx.run_impl("c09_impl.py", {"parts": ["cases"], "cases": [inp]}, timeout=1500)
        if rc is not None and "cases" in rc:
            ctx.search_info["evaluations"] = rc["cases"]["evals"]
            for f in rc["cases"]["failures"]:
                ctx.failure(f["signature"], f["what"], f["data"])
        return
    search(ctx, "thorough")
