"""Helpers shared by props/C11.py and props/C01.py: printing harness results as Coq terms and evaluating
cases files (several in parallel)."""
import re
from concurrent.futures import ThreadPoolExecutor


def lst(xs):
    return "[" + "; ".join(xs) + "]"


def tup(xs):
    return "(" + ", ".join(str(x) for x in xs) + ")"


def nats(xs):
    return lst(str(int(x)) for x in xs)


def qq(p):
    n, d = p
    return "(%s # %d)" % (n if n >= 0 else "(%d)" % n, d)


def vec(p):
    return "(%s, %s, %s)" % (qq(p[0]), qq(p[1]), qq(p[2]))


def bools(xs):
    return lst("true" if b else "false" for b in xs)


def elems(els):
    return lst(tup(e) for e in els)


def topology(t):
    if t is None:
        return "None"
    return "(Some (mkTopology %s %s %s %s %s %s %s %s %s))" % (
        lst(tup(e) for e in t["edges"]), lst(tup(e) for e in t["element_edges"]),
        lst(tup(r) for r in t["edge_adjacency"]), lst(tup(r) for r in t["vertex_adjacency"]),
        lst(nats(r) for r in t["element_neighbors"]), lst(nats(r) for r in t["edge_neighbors"]),
        lst(nats(r) for r in t["vertex_neighbors"]), bools(t["edge_on_boundary"]), bools(t["vertex_on_boundary"]))


def chunks(xs, n):
    return [xs[i:i + n] for i in range(0, len(xs), n)]


def parse_nat_list(out):
    """All results '= [..] : list nat' in order."""
    return [[int(x) for x in re.findall(r'\d+', b)]
            for b in re.findall(r'=\s*(\[[^\]]*\])\s*:\s*list nat', out.replace("\n", " "))]


def parse_pair_list(out):
    """All results '= [(i, c); ..] : list (nat * nat)' in order."""
    res = []
    for b in re.findall(r'=\s*(\[[^\]]*\])\s*:\s*list \(nat \* nat\)', out.replace("\n", " ")):
        res.append([(int(a), int(c)) for a, c in re.findall(r'\((\d+),\s*(\d+)\)', b)])
    return res


def eval_many(ctx, jobs, workers=4, timeout=900):
    """jobs: list of (name, body). Returns list of stdout (None on failure), evaluated in parallel."""
    with ThreadPoolExecutor(max_workers=workers) as ex:
        futs = [ex.submit(ctx.coq_eval, name, body, timeout) for name, body in jobs]
        return [f.result() for f in futs]
