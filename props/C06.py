"""C06 Hypersingular and Maxwell operators equal their single-layer decompositions."""
from props import _assemblyb as ab
from translators import tables

ID = "C06"
PROP_FILE = "props/C06.v"
COQ_TARGETS = ["props/C06.vo", "theories/AssemblyB/Corr.vo"]
TRUSTED = [
    "hand model coq/theories/AssemblyB/Model.v of the regular/singular scalar, hypersingular and Maxwell assemblers "
    "(tie H): corresponded on every run against the real dense pipeline of bempp-cl executed on the Python bodies "
    "(.py_func) of the Numba assemblers with a surrogate polynomial kernel as kernel argument (harness/c06_impl.py, "
    "harness/bcommon.py), exact complex-rational evaluation of the model inside Coq (AssemblyB/Corr.v), "
    "tolerance 1e-11 * max|entry|",
    "Numba compilation of the same function bodies (fastmath, prange) and IEEE rounding are not modelled",
    "the singular quadrature rules and the list of adjacent pairs are parameters of the model "
    "(taken from _SingularQuadratureRuleInterfaceGalerkin in the correspondence)",
]
ASSUMPTIONS = [
    "The identities are exact statements about the quadrature sums (same points for W/E and V0/V1); that these sums "
    "approximate the boundary integrals is not proved here (C12/C01)",
    "Complex symmetry of the singular part of E and M is exercised by the search only (as convergence under "
    "singular-order refinement)",
]

SRC = ["bempp_cl/core/numba_kernels.py", "bempp_cl/core/dense_assembler.py", "bempp_cl/core/numba_assemblers.py",
       "bempp_cl/core/singular_assembler.py", "bempp_cl/api/space/shapesets.py",
       "bempp_cl/api/space/maxwell_spaces.py", "bempp_cl/api/operators/boundary/maxwell.py",
       "bempp_cl/api/operators/boundary/laplace.py", "bempp_cl/api/operators/boundary/helmholtz.py",
       "bempp_cl/api/operators/boundary/modified_helmholtz.py"]


def regen(ctx):
    for s in SRC:
        ctx.src(s)
    ctx.translate(tables.duffy_regions)      # gen/DuffyRegions.v (tie T) for the swap-closure theorems


def _model_expr(c):
    op = c["op"]
    common = "CQops g st ss qd kr kr Et Es prs"
    if op in ("slp", "slp_c"):
        return "scalar_dense " + common
    if op == "lap_hyp":
        return "lap_hyp_dense " + common
    k = c["k"]
    kc = ab.cc(k)
    if op == "helm_hyp":
        return "helm_hyp_dense %s %s" % (common, kc)
    if op == "modhelm_hyp":
        return "modhelm_hyp_dense %s %s" % (common, kc)
    # ik = i*k, mik = -i*k
    ik = "(cq_mul cq_i %s)" % kc
    mik = "(cq_opp %s)" % ik
    if op == "efield":
        return "efield_dense %s %s %s" % (common, mik, ik)
    if op == "mfield":
        return "mfield_dense %s cq_dist %s" % (common, ik)
    raise ValueError(op)


def case_body(c):
    nr, nc = c["shape"]
    return ab.HEADER + "\n".join([
        "Definition g := %s." % ab.geom(c["grid"]),
        "Definition st := %s." % ab.space(c["test"]),
        "Definition ss := %s." % ab.space(c["trial"]),
        "Definition qd : list (@qpt CQ) := %s." % ab.quad(c["quad"]),
        "Definition kr : @kernel CQ := surr_kernel CQops %s." % ab.surr(c["surr"]),
        "Definition Et := %s." % ab.nats(c["Et"]),
        "Definition Es := %s." % ab.nats(c["Es"]),
        "Definition prs : list (@spair CQ) := %s." % ab.pairs(c["pairs"]),
        "Definition model := Eval vm_compute in (dense_entries CQops %d %d (%s))." % (nr, nc, _model_expr(c)),
        "Definition impl : list CQ := %s." % ab.clist(c["impl"]),
        "Eval vm_compute in (cmp_list %s model impl)." % ab.tol_of(c["scale"]),
        "Eval vm_compute in (count_nonzero model).", ""])


def correspond(ctx):
    strength = "thorough" if ctx.tier == "thorough" else "quick"
    ab.start_search(ctx, "c06_impl.py", {"mode": "search", "strength": strength, "seed": ctx.seed})
    res = ctx.run_impl("c06_impl.py", {"mode": "corr", "strength": strength, "seed": ctx.seed}, timeout=1500, threads=ab.THREADS)
    if res is None:
        return
    cases = res["cases"]
    outs = ab.eval_many(ctx, [("c06case%d" % i, case_body(c)) for i, c in enumerate(cases)])
    hist = {}
    for i, c in enumerate(cases):
        out = outs["c06case%d" % i]
        ctx.corr["evaluations"] += c["shape"][0] * c["shape"][1]
        hist[c["op"]] = hist.get(c["op"], 0) + 1
        if out is None:
            ctx.corr["disagreements"] += 1
            continue
        fails = ab.parse_nat_lists(out)
        nz = ab.parse_nats(out)
        if len(fails) != 1 or len(nz) != 1:
            ctx.problem("correspondence", "could not parse model evaluation of case " + c["name"], out[-1500:])
            ctx.corr["disagreements"] += 1
            continue
        ctx.corr["distinct_nontrivial"] += nz[0]
        if len(ctx.corr["samples"]) < 4:
            ctx.corr["samples"].append({"case": c["name"], "shape": c["shape"], "entries_nonzero_in_model": nz[0],
                                        "first_impl_entry": c["impl"][0], "k": c["k"]})
        if fails[0]:
            ctx.c06_focus = getattr(ctx, "c06_focus", []) + [
                {"mesh": c["mesh"], "kw": c["kw"], "op": c["op"], "k": c["kfloat"], "case": c["name"]}]
            ctx.corr["disagreements"] += len(fails[0])
            nr, nc = c["shape"]
            ctx.problem("correspondence", "dense %s matrix of bempp-cl differs from the model on %s at entries %s"
                        % (c["op"], c["name"], [(f // nc, f % nc) for f in fails[0][:6]]))
    ctx.corr["histogram"] = {"cases_by_operator": hist, "meshes": sorted({c["mesh"] for c in cases}),
                             "spaces": sorted({c["space"] for c in cases}), "harness_wall_s": round(res["wall"], 1)}
    ctx.corr["rule"] = ("one evaluation = one entry of a dense matrix assembled by the real pipeline (operator factory, "
                        "colour loop, regular + singular assembler bodies, scatter) with a random surrogate kernel, "
                        "compared with the exact model value at 1e-11*max|entry|; non-trivial = model entry is not "
                        "exactly zero")


def search(ctx, strength):
    if strength == "thorough" and ctx.tier != "thorough":
        strength = "escalated"      # something broke in a quick run: all thorough configurations, Python bodies only
    payload = {"mode": "search", "strength": strength, "seed": ctx.seed}
    if getattr(ctx, "c06_focus", None):
        payload["focus"] = ctx.c06_focus      # evaluate the identities on exactly the disagreeing configurations
    res = ab.finish_search(ctx, "c06_impl.py", payload)
    ab.report_search(ctx, res)


def replay(ctx):
    regen(ctx)
    search(ctx, "thorough")


META = {
    "technique": "Coq proof over a hand model of the Numba assemblers (kernel, quadrature rules, geometry, spaces, ring "
                 "all universally quantified) + correspondence of the model with the real dense pipeline run on the "
                 "assemblers' Python bodies with surrogate kernels (exact rational diff inside Coq)",
    "level_text": "Theorems in coq/props/C06.v, for every commutative ring, geometry data, P1/RWG space data, quadrature "
                  "rule, kernel function, element lists and wavenumber: the modelled hypersingular matrix (Laplace, "
                  "Helmholtz, modified Helmholtz; regular model for one or two grids, singular model, and their sum) "
                  "equals sum_c C_c' V0 C_c -/+ k^2 sum_c N_c' V1 N_c entry by entry; the modelled Maxwell electric-field "
                  "matrix equals -ik sum_c R_c' V1 R_c - (1/ik) D' V0 D; every local Laplace hypersingular block has "
                  "zero row and column sums and the assembled matrix maps constants to 0 exactly when all local trial "
                  "dofs are genuine; regular parts of E, M and W are symmetric for symmetric kernels.",
    "level_note": "Trusted: Coq kernel; the hand model (tied by correspondence on tiny meshes, 1e-11); Numba's "
                  "compilation of the corresponded function bodies; IEEE arithmetic. Not proved: that quadrature sums "
                  "approximate the integrals; symmetry of the singular part (search only).",
    "design_ref": "DESIGN.md §7 C06",
}
