"""C20 OpenCL and Numba back ends define the same kernels and shape functions."""
from translators import c_kernels, py_kernels

ID = "C20"
PROP_FILE = "props/C20.v"
COQ_TARGETS = ["props/C20.vo"]
TRUSTED = [
    "translators/py_kernels.py (ast symbolic execution of core/numba_kernels.py, api/fmm/helpers.py, api/space/shapesets.py; "
    "lane-generic, fails closed) and translators/c_kernels.py (tokenizer + recursive-descent parser + symbolic execution "
    "of kernels.h, *_shapeset.h, bempp_base_types.h; vector types lane-wise, fails closed); self-tested on every run by "
    "evaluating their IR against the Numba functions and against the headers compiled with g++",
    "harness/c20_opencl_shim.h: 70-line C++ model of the OpenCL scalar/vector types and built-ins (sqrt rsqrt exp cos sin "
    "dot length distance) used to compile the unmodified headers without an OpenCL runtime",
    "OpenCL C semantics of the straight-line subset = real arithmetic per lane; rsqrt(q) = 1/sqrt(q); native_* precision, "
    "IEEE rounding and fastmath reassociation are outside the model",
]
ASSUMPTIONS = [
    "'to the precision of the type' is proved only for the constants (literals of M_INV_4PI, M_4PI within 2^-24 / 2^-53 of "
    "the real constants, every kernel linear in M_INV_4PI); rounding of the arithmetic is exercised by the search "
    "(compiled C vs Numba at 5e-11 / 5e-4 of the condition scale), not proved",
    "the OpenCL assembler .cl files that call the kernels are not part of this property",
]


def regen(ctx):
    ctx.nb = ctx.translate(py_kernels.numba_kernels)
    ctx.shapes_py = ctx.translate(py_kernels.shapesets_py)
    ctx.cl = ctx.translate(c_kernels.opencl_kernels)
    ctx.shapes_cl = ctx.translate(c_kernels.shapesets_cl)


def _run(ctx, strength):
    if None in (ctx.nb, ctx.shapes_py, ctx.cl, ctx.shapes_cl):
        ctx.note("a translator failed closed: differential search without a translated model")
        return ctx.run_impl("c20_impl.py", {"fallback": True, "strength": strength}, timeout=2400, threads=4)
    payload = {"strength": strength, "numba": ctx.nb, "cl": ctx.cl, "shapes_py": ctx.shapes_py,
               "shapes_cl": ctx.shapes_cl}
    return ctx.run_impl("c20_impl.py", payload, timeout=2400, threads=4)


def correspond(ctx):
    strength = "thorough" if ctx.tier == "thorough" else "quick"
    ctx.impl_strength = strength
    res = ctx.impl = _run(ctx, strength)
    if res is None:
        return
    if None in (ctx.nb, ctx.shapes_py, ctx.cl, ctx.shapes_cl):
        ctx.impl_strength = "fallback"
    c = res["corr"]
    ctx.corr["evaluations"] = c["evaluations"]
    ctx.corr["distinct_nontrivial"] = c["nontrivial"]
    ctx.corr["histogram"] = c["hist"]
    ctx.corr["samples"] = c["samples"]
    ctx.corr["rule"] = ("translator self-test: every scalar cell computed by a translated kernel / shapeset (IR evaluated "
                        "in Python) against the Numba function or the g++-compiled header on seeded random inputs "
                        "(distance 1e-3..1e3 log-uniform, unit normals, k complex/real/imaginary/zero); non-trivial = "
                        "the implementation value is non-zero")
    for d in c["disagreements"]:
        ctx.corr["disagreements"] += 1
        ctx.problem("correspondence", d["what"], d["data"])
    for n in res["notes"]:
        ctx.note(n)


def search(ctx, strength):
    res = getattr(ctx, "impl", None)
    if res is None or strength != getattr(ctx, "impl_strength", None) and getattr(ctx, "impl_strength", None) != "fallback":
        res = _run(ctx, strength)
    if res is None:
        # translators failed closed: fall back to the direct differential test, which needs the kernel lists only
        return
    ctx.search_info["evaluations"] = res["search"]["evaluations"]
    ctx.search_info["notes"].append({"worst_error_over_tolerance": res["search"]["worst"]})
    for n in res.get("notes", []):
        if n not in ctx.notes:
            ctx.note(n)
    for f in res["failures"]:
        ctx.failure(f["signature"], f["what"], f["data"])


def replay(ctx):
    res = ctx.run_impl("c20_impl.py", {"replay": ctx.replay}, timeout=1200, threads=2)
    if res is not None and not res.get("not_applicable"):
        ctx.search_info["evaluations"] = res["search"]["evaluations"]
        for n in res["notes"]:
            ctx.note(n)
        for f in res["failures"]:
            ctx.failure(f["signature"], f["what"], f["data"])
        return
    regen(ctx)
    search(ctx, "thorough")


META = {
    "technique": "Coq proof over two translations regenerated on every run (Numba kernels by ast symbolic execution, "
                 "OpenCL C headers by a small parser); table-driven equality theorems closed by one field-based tactic; "
                 "translator self-test against Numba and against the g++-compiled headers",
    "level_text": "Theorems in coq/props/C20.v: for every kernel type of select_numba_kernels (11 regular, 9 singular) the "
                  "OpenCL kernel select_cl_kernel names exists in kernels.h in all four vector widths and equals the "
                  "Numba kernel as a real function for all x<>y, normals and complex wavenumbers (M_INV_4PI = 1/(4 pi)), "
                  "and is linear in M_INV_4PI; helmholtz_gradient equals the gradient slots of fmm/helpers.helmholtz_kernel; "
                  "P0/P1/RWG/SNC shape functions of the .h files equal shapesets.py at every local point; selection tables "
                  "have the same keys; the literals of both precisions are within one ulp of 1/(4 pi), 4 pi.",
    "level_note": "Trusted: Coq kernel, the three standard real-number axioms, Interval for the literal bound, both "
                  "translators (self-tested each run), the C++ shim. Not proved: floating-point rounding, rsqrt/native "
                  "accuracy (only exercised by the search at the precision of each type).",
    "design_ref": "DESIGN.md §7 C20",
}
